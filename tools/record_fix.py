#!/usr/bin/env python3
"""Append a `fixed:` entry to KNOWN_FINDINGS.json:  tools/record_fix.py C06 <commit> "<what failed>" """
import json, os, sys
p = os.path.join(os.path.dirname(os.path.dirname(os.path.abspath(__file__))), "KNOWN_FINDINGS.json")
d = json.load(open(p)) if os.path.exists(p) else {}
prop, commit, what = sys.argv[1:4]
e = "fixed: property=%s %s %s" % (prop, commit, what)
lst = d.setdefault("_fixed", [])
if e not in lst:
    lst.append(e)
json.dump(d, open(p, "w"), indent=1, sort_keys=True)
print(e)
