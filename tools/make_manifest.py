#!/usr/bin/env python3
"""Regenerate MANIFEST.json from tools/manifest_data.py (single source for per-check texts)."""
import json, os, sys
HERE = os.path.dirname(os.path.dirname(os.path.abspath(__file__)))
sys.path.insert(0, os.path.join(HERE, "tools"))
import manifest_data as D
checks = []
for pid in sorted(D.CHECKS):
    c = D.CHECKS[pid]
    checks.append({
        "property_id": pid,
        "quick_cmd": "./check %s --tier quick" % pid,
        "thorough_cmd": "./check %s --tier thorough" % pid,
        "evidence_file": "/verif/evidence/%s.json" % pid,
        "replay_cmd_template": "./check --replay {path}",
        "engine": "mc",
        "level_claimed": {"category": c["level"], "text": c["text"] + getattr(D, "ADDENDA", {}).get(pid, ""), "design_ref": c.get("ref", "DESIGN.md section 6 " + pid)},
        "level_note": c["note"],
        "technique": c["technique"],
    })
m = {
    "version": 1,
    "setup_cmd": "./setup.sh",
    "hooks": {
        "guard": "MICROJS_VERIF",
        "enable": "checks import microjs from /repo/src (or --repo DIR/src) with MICROJS_VERIF=1 in the environment; Python needs no build step",
        "baseline_off_cmd": "cd /repo && env -u MICROJS_VERIF /venv/bin/python -m pytest -ra -q -p no:cacheprovider --timeout=900 --continue-on-collection-errors",
        "source_commits": D.HOOK_COMMITS,
        "add_only": True,
    },
    "engines": [{"name": "mc", "path": "/verif/mc", "serves_properties": sorted(D.CHECKS),
                 "kind_free_text": "hand-written bounded exhaustive explorer for Python: product/grammar enumeration, explicit-state BFS over operation histories against reference models, virtual-clock deadline injection; isolated worker pool; V8-derived expected-outcome tables pinned by digest"}],
    "checks": checks,
    "notes": D.NOTES,
    "not_applicable": [{"property_id": k, "reason": v} for k, v in sorted(D.NOT_APPLICABLE.items())],
}
json.dump(m, open(os.path.join(HERE, "MANIFEST.json"), "w"), indent=1)
print("MANIFEST.json: %d checks, %d not_applicable" % (len(checks), len(m["not_applicable"])))
