#!/usr/bin/env python3
"""Assemble KNOWN_FINDINGS.json from known/*.summary.json (written by --triage) and the fixed list."""
import glob, json, os
HERE = os.path.dirname(os.path.dirname(os.path.abspath(__file__)))
p = os.path.join(HERE, "KNOWN_FINDINGS.json")
old = json.load(open(p)) if os.path.exists(p) else {}
out = {"_fixed": old.get("_fixed", []),
       "_format": "per property: findings still present on the tree (exact failing case ids in known/<ID>.json.gz, "
                  "keyed by sha1 of the case id with the observed wrong outcome); _fixed: repaired defects, which suppress nothing"}
for f in sorted(glob.glob(os.path.join(HERE, "known", "*.summary.json"))):
    out[os.path.basename(f).split(".")[0]] = json.load(open(f))
json.dump(out, open(p, "w"), indent=1, sort_keys=True)
print({k: len(v) for k, v in out.items() if not k.startswith("_")}, "fixed:", len(out["_fixed"]))
