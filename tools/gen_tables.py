#!/venv/bin/python
"""Developer tool (build time only): regenerate tables/<space>.json.gz with V8 as the reference.

    tools/gen_tables.py C06 [--only SUBSTR] [--jobs 16]

Every space a check can ever enumerate (all tiers, all strata) gets one table, keyed to the exact
case-id list by a SHA-256 digest. No registered command runs this file or node.
"""
import argparse
import importlib
import json
import os
import shutil
import subprocess
import sys
import tempfile

HERE = os.path.dirname(os.path.dirname(os.path.abspath(__file__)))
sys.path.insert(0, HERE)
from mc.core import store  # noqa: E402
from mc.core.runner import materialise  # noqa: E402

NODE = shutil.which("node") or "/root/.nvm/versions/node/v20.20.2/bin/node"


def node_src(mod, cid, payload):
    f = getattr(mod, "node_src", None)
    if f is not None:
        return f(cid, payload)
    if payload is None:
        return cid
    if isinstance(payload, str):
        return payload
    return payload["src"]


def main():
    ap = argparse.ArgumentParser()
    ap.add_argument("prop")
    ap.add_argument("--only")
    ap.add_argument("--jobs", type=int, default=16)
    ap.add_argument("--timeout", type=int, default=1000)
    a = ap.parse_args()
    if not os.path.exists(NODE):
        print("node is not available: tables cannot be regenerated here")
        return 1
    mod = importlib.import_module("mc.props." + a.prop.lower())
    spaces = {}
    for tier in ("quick", "thorough"):
        for sp in mod.spaces(tier, 0, all_strata=True):
            if sp.oracle == "table" and sp.name not in spaces:
                spaces[sp.name] = sp
    for name, sp in spaces.items():
        if a.only and a.only not in name:
            continue
        cases = materialise(sp)
        ids = [c[0] for c in cases]
        assert len(set(ids)) == len(ids), "duplicate case ids in " + name
        tmp = tempfile.mkdtemp(prefix="gentbl")
        try:
            n = len(cases)
            jobs = max(1, min(a.jobs, n // 200 + 1))
            chunk = (n + jobs - 1) // jobs
            procs = []
            for j in range(jobs):
                part = cases[j * chunk:(j + 1) * chunk]
                ip, op = os.path.join(tmp, "in%d" % j), os.path.join(tmp, "out%d" % j)
                with open(ip, "w") as f:
                    for cid, payload in part:
                        f.write(json.dumps({"src": node_src(mod, cid, payload)}) + "\n")
                procs.append((subprocess.Popen([NODE, "--use-strict", "--stack-size=2000",
                                                os.path.join(HERE, "tools", "node_oracle.js"), ip, op,
                                                str(a.timeout)]), op, len(part)))
            expected = []
            for p, op, cnt in procs:
                rc = p.wait()
                if rc != 0:
                    raise SystemExit("node failed rc=%d" % rc)
                with open(op) as f:
                    got = [json.loads(line) for line in f if line.strip()]
                assert len(got) == cnt, (len(got), cnt)
                expected.extend(got)
            post = getattr(mod, "post_expected", None)
            if post is not None:
                expected = [post(sp, cid, e) for (cid, _), e in zip(cases, expected)]
            store.write_table(name, ids, expected, {"oracle": "node " + subprocess.check_output(
                [NODE, "--version"], text=True).strip() + " --use-strict"})
            print("%s: %d cases, %d distinct outcomes, %d bytes" % (
                name, n, len(set(expected)), os.path.getsize(store.table_path(name))))
        finally:
            shutil.rmtree(tmp, ignore_errors=True)
    return 0


if __name__ == "__main__":
    sys.exit(main())
