// Build-time only: computes the expected outcome of every case with V8 (node --use-strict).
// Never invoked by a registered check. Input: JSON lines {"src": "..."} on a file; output: one
// JSON string per line, in the same order, in the outcome format of mc/core/engine.py.
'use strict';
const vm = require('vm');
const fs = require('fs');

function serNum(x) {
  if (x !== x) return 'd7ff8000000000000';
  const b = Buffer.alloc(8);
  b.writeDoubleBE(x);
  return 'd' + b.toString('hex');
}
function serStr(s) {
  let o = '"';
  for (let i = 0; i < s.length; i++) {
    const c = s.charCodeAt(i);
    if (c >= 0x20 && c < 0x7f && c !== 0x22 && c !== 0x5c) o += s[i];
    else o += '\\u' + c.toString(16).padStart(4, '0');
  }
  return o + '"';
}
const toStr = Object.prototype.toString;
function ser(v, d) {
  d = d || 0;
  if (v === undefined) return 'u';
  if (v === null) return 'n';
  if (v === true) return 't';
  if (v === false) return 'f';
  const t = typeof v;
  if (t === 'number') return serNum(v);
  if (t === 'string') return 's' + serStr(v);
  if (t === 'function') return 'F';
  if (t === 'bigint') return 'I' + String(v);
  if (t === 'symbol') return 'Xsymbol';
  if (d > 6) return '...';
  const tag = toStr.call(v);
  if (tag === '[object RegExp]') return 'R/' + v.source + '/' + v.flags.split('').sort().join('');
  if (ArrayBuffer.isView(v) && tag !== '[object DataView]') {
    const name = tag.slice(8, -1);
    let o = [];
    for (let i = 0; i < v.length; i++) o.push(ser(v[i], d + 1));
    return 'T' + name + '[' + o.join(',') + ']';
  }
  if (tag === '[object ArrayBuffer]') return 'B';
  if (Array.isArray(v)) {
    let o = [];
    for (let i = 0; i < v.length; i++) o.push(ser(v[i], d + 1));
    return '[' + o.join(',') + ']';
  }
  let o = [];
  for (const k of Object.keys(v)) {
    const desc = Object.getOwnPropertyDescriptor(v, k);
    if (desc && 'value' in desc) o.push(serStr(k) + ':' + ser(desc.value, d + 1));
  }
  return '{' + o.join(',') + '}';
}

function runOne(src, timeout) {
  const log = [];
  const sandbox = { __out: function (v) { log.push(arguments.length ? ser(v) : 'u'); } };
  const ctx = vm.createContext(sandbox);
  let tail;
  let script;
  try {
    script = new vm.Script(src);
  } catch (e) {
    return '|Esyntax';
  }
  try {
    const r = script.runInContext(ctx, { timeout: timeout });
    tail = 'R' + ser(r);
  } catch (e) {
    if (e && e.code === 'ERR_SCRIPT_EXECUTION_TIMEOUT') tail = 'Etime';
    else if (e && typeof e === 'object' && /Maximum call stack/.test(String(e.message))) tail = 'Estack';
    else tail = 'Ethrow';
  }
  return log.join(';') + '|' + tail;
}

const [inPath, outPath, timeoutArg] = process.argv.slice(2);
const timeout = parseInt(timeoutArg || '1000', 10);
const lines = fs.readFileSync(inPath, 'utf8').split('\n');
const out = [];
for (const line of lines) {
  if (!line) continue;
  const c = JSON.parse(line);
  out.push(JSON.stringify(runOne(c.src, timeout)));
}
fs.writeFileSync(outPath, out.join('\n') + '\n');
