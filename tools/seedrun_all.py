#!/usr/bin/env python3
"""Evaluate every seeded change (verify + own check + related on a miss); N parallel streams; mode 'first' = only those never
evaluated, 'again' = only those evaluated before (re-run after strengthening), 'all'."""
import json, os, subprocess, sys, glob
from concurrent.futures import ThreadPoolExecutor
mode = sys.argv[1] if len(sys.argv) > 1 else "first"
streams = int(sys.argv[2]) if len(sys.argv) > 2 else 2
names = []
for mp in sorted(glob.glob('/verif/seeded/*/meta.json')):
    m = json.load(open(mp))
    n = os.path.basename(os.path.dirname(mp))
    evaluated = bool(m.get('first_detection'))
    if mode == 'first' and evaluated: continue
    if mode == 'again' and not evaluated: continue
    if mode == 'missed':
        fd = m.get('first_detection') or {}
        det = m.get('detection') or {}
        if not evaluated or any(v.get('exit') == 1 and v.get('verif_commit', '') >= '' for v in det.values()) and not m.get('strengthening_note'):
            continue      # caught on the first run and not touched since: not repeated
        if m.get('rechecked_at'): continue
    names.append(n)
print(len(names), 'changes', flush=True)
def run(n):
    r = subprocess.run(['python3', '/verif/tools/run_seeded.py', 'one', n], capture_output=True, text=True, cwd='/verif')
    out = "\n".join(l[:300] for l in (r.stdout + r.stderr).splitlines() if not l.startswith('WARNING'))
    print(out, flush=True)
with ThreadPoolExecutor(streams) as ex:
    list(ex.map(run, names))
print('SEEDRUN-ALL-DONE', flush=True)
