#!/bin/sh
# Regenerate everything that is derived: known findings, manifest, evidence (quick tier, seed 0, against /repo), summary; validate.
cd /verif || exit 1
python3 tools/build_known_findings.py >/dev/null || exit 1
python3 tools/make_manifest.py >/dev/null || exit 1
fail=0
for p in C01 C02 C03 C04 C05 C06 C07 C08 C09 C10 C11 C12 C13 C14 C15 C16 C17 C18 C19 C20; do
  out=$(VERIF_SEED=${VERIF_SEED:-0} ./check $p --tier quick 2>&1); rc=$?
  echo "$p exit=$rc $(echo "$out" | tail -1 | cut -c1-160)"
  [ $rc -ne 0 ] && fail=1 && echo "$out" | grep -A3 "^VIOLATION\|FRAMEWORK" | head -12
done
python3 tools/summarize_evidence.py >/dev/null
python3-vt - <<'PY'
import json, glob, jsonschema
m = json.load(open('/verif/MANIFEST.json')); jsonschema.validate(m, json.load(open('/root/.vp/MANIFEST.schema.json')))
es = json.load(open('/root/.vp/EVIDENCE.schema.json'))
for p in sorted(glob.glob('/verif/evidence/C*.json')):
    jsonschema.validate(json.load(open(p)), es)
print("manifest and", len(glob.glob('/verif/evidence/C*.json')), "evidence files valid")
PY
exit $fail
