"""Build-time only (uses node, which no registered command needs): run a list of one-line expressions through V8 and the engine side by side and print the differences.

    PYTHONPATH=/repo/src /venv/bin/python tools/apidiff/qdiff.py tools/apidiff/list1.txt

The lists (arrays, strings, numbers, errors / functions / statements, JSON, provenance, regexes, typed arrays, object conversions) are what the fourth
wave of repairs started from; each class of difference that was a defect was repaired and turned into a table space (DESIGN.md 0.3, 0.6).
V8 runs the text through indirect eval, i.e. in sloppy mode: differences that only reflect strict vs sloppy `this` are not defects."""
import sys, json, subprocess
sys.path.insert(0,'/verif')
from microjs import Context
exprs=[l.rstrip("\n") for l in open(sys.argv[1]) if l.strip() and not l.startswith("#")]
RUN="function run(s){ try { var v = (0, eval)(s); return JSON.stringify([typeof v, v === undefined ? 'undef' : v, String(v)]) } catch (e) { return 'throw:' + e.name } }"
js=RUN+"\nvar out=[];\n"+"\n".join("out.push(run(%s));"%json.dumps(x) for x in exprs)+"\nconsole.log(JSON.stringify(out))"
r=subprocess.run(["/root/.nvm/versions/node/v20.20.2/bin/node","--use-strict","-e",js],capture_output=True,text=True)
exp=json.loads(r.stdout)
n=0
for x,ev in zip(exprs,exp):
    try:
        ov=Context(time_limit=5).eval(RUN+" run(%s)"%json.dumps(x))
    except Exception as e:
        ov="HOST:"+type(e).__name__+":"+str(e)[:60]
    if ov!=ev:
        n+=1; print("DIFF",x,"\n    V8 ",ev[:150],"\n    eng",str(ov)[:150])
print(len(exprs),"expressions,",n,"differences")
