#!/bin/sh
# usage: tools/apply_fix.sh <patch> <PROP> "<commit subject after fix: >" "<what failed (ledger text)>" ["body"]
# Applies one repair patch to /repo as a single unguarded `fix:` commit after running the repository suite.
set -e
patch="$1"; prop="$2"; subj="$3"; what="$4"; body="$5"
cd /repo
git apply "$patch" 2>/dev/null || git apply --3way "$patch" || { echo "PATCH DOES NOT APPLY: $patch"; git reset -q --hard HEAD; exit 1; }
if git diff --name-only --diff-filter=U | grep -q .; then echo "CONFLICTS in $patch"; git reset -q --hard HEAD; exit 1; fi
if grep -rl "^<<<<<<< " src >/dev/null 2>&1; then echo "CONFLICT MARKERS from $patch"; git reset -q --hard HEAD; exit 1; fi
out=$(/venv/bin/python -m pytest -q -p no:cacheprovider -n 8 2>&1 | tail -1)
echo "$out"
case "$out" in *" failed"*|*" error"*|*" errors"*) echo "SUITE NOT GREEN, reverting"; git reset -q --hard HEAD; exit 1;; esac
git add -A
if [ -n "$body" ]; then git commit -q -m "fix: $subj" -m "$body"; else git commit -q -m "fix: $subj"; fi
h=$(git rev-parse --short HEAD)
/verif/tools/record_fix.py "$prop" "$h" "$what"
