HOOK_COMMITS = ["2198a1a"]
NOTES = ("All checks: ./check <ID> --tier quick|thorough [--seed N]; VERIF_SEED/VERIF_TIER honoured. "
         "Ledger of known findings: KNOWN_FINDINGS.json (+ known/<ID>.json.gz exact case lists); "
         "fixed entries are listed under _fixed and suppress nothing.")
_PENDING = "check not built yet in this session; will be claimed once its driver exists (see DESIGN.md section 11)"
NOT_APPLICABLE = {("C%02d" % i): _PENDING for i in range(1, 21)}
CHECKS = {}


def claim(pid, level, technique, text, note):
    CHECKS[pid] = {"level": level, "technique": technique, "text": text, "note": note}
    NOT_APPLICABLE.pop(pid, None)


claim("C06", "exploration",
      "bounded exhaustive enumeration of operand grid x operators x target forms x number representation, "
      "each case executed on the real engine and compared with a V8-derived expected-outcome table",
      "Every cell of the 80x80 primitive operand grid for all 23 binary operators, all unary/conditional forms, "
      "12 compound assignments and 4 update forms on 6 target forms, host-float representation of every number, "
      "and (thorough) all depth-2 expression trees over a 12x14 subgrid agree bit-exactly with ECMAScript as "
      "computed by V8. Coverage statement within the grid, not a proof for all doubles.",
      "Trusts V8 (node 20) as the ECMAScript reference for the pinned tables, the serialiser in mc/core/ser.py, "
      "and that operands outside the grid behave like their grid neighbours.")
