HOOK_COMMITS = ["2198a1a"]
NOTES = ("All checks: ./check <ID> --tier quick|thorough [--seed N]; VERIF_SEED/VERIF_TIER honoured. "
         "Ledger of known findings: KNOWN_FINDINGS.json (+ known/<ID>.json.gz exact case lists); "
         "fixed entries are listed under _fixed and suppress nothing.")
_PENDING = "check not built yet in this session; will be claimed once its driver exists (see DESIGN.md section 11)"
NOT_APPLICABLE = {("C%02d" % i): _PENDING for i in range(1, 21)}
CHECKS = {}


def claim(pid, level, technique, text, note):
    CHECKS[pid] = {"level": level, "technique": technique, "text": text, "note": note}
    NOT_APPLICABLE.pop(pid, None)


claim("C06", "exploration",
      "bounded exhaustive enumeration of operand grid x operators x target forms x number representation, "
      "each case executed on the real engine and compared with a V8-derived expected-outcome table",
      "Every cell of the 80x80 primitive operand grid for all 23 binary operators, all unary/conditional forms, "
      "12 compound assignments and 4 update forms on 6 target forms, host-float representation of every number, "
      "and (thorough) all depth-2 expression trees over a 12x14 subgrid agree bit-exactly with ECMAScript as "
      "computed by V8. Coverage statement within the grid, not a proof for all doubles.",
      "Trusts V8 (node 20) as the ECMAScript reference for the pinned tables, the serialiser in mc/core/ser.py, "
      "and that operands outside the grid behave like their grid neighbours.")

claim("C09", "exploration",
      "bounded exhaustive enumeration of regex pattern ASTs (by size) x all subjects up to a length x flag strata, "
      "each match executed on the real engine and compared with an executable transcription of the ECMAScript matcher",
      "Every pattern of AST size <= 3 over 16 atoms / 10 quantifiers / groups / 4 lookaround kinds against all 364 "
      "subjects over {a,b,1} of length <= 5 (Python-level and script-level exec), every size-4 pattern against "
      "121 subjects, flag strata i/m/s (thorough: size 5 in 8 slices, combined flags): match/no match, index and "
      "every capture agree with the specification's backtracking matcher.",
      "Trusts mc/oracle/regexref.py (diffed against V8 on 1.63 M pairs at build time); patterns beyond the size "
      "bound and characters outside the subject alphabets are not explored.")
claim("C16", "exploration",
      "bounded exhaustive product enumeration method x receiver grid x argument grid (arity 0..2), each call "
      "executed on the real engine and compared with a V8-derived expected-outcome table",
      "Full product of the 20 implemented String.prototype methods, length, index access, String() and "
      "String.fromCharCode over 14 receivers and the 16-value adversarial argument grid for arity <= 2 "
      "(84k cases; thorough adds object/array/function arguments and long receivers): result, receiver "
      "unchanged, and RangeError/TypeError by name.",
      "Trusts V8 for the pinned tables; ASCII-only case mapping and code-point indexing are documented engine "
      "restrictions and kept out of the grid.")
