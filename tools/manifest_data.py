HOOK_COMMITS = ["2198a1a"]  # only hook commit; every other commit in /repo is an unguarded "fix:" repair (see KNOWN_FINDINGS.json _fixed)
NOTES = ("All checks: ./check <ID> --tier quick|thorough [--seed N]; VERIF_SEED/VERIF_TIER honoured. "
         "Ledger of known findings: KNOWN_FINDINGS.json (+ known/<ID>.json.gz exact case lists); "
         "fixed entries are listed under _fixed and suppress nothing.")
_PENDING = "check not built yet in this session; will be claimed once its driver exists (see DESIGN.md section 11)"
NOT_APPLICABLE = {("C%02d" % i): _PENDING for i in range(1, 21)}
CHECKS = {}


def claim(pid, level, technique, text, note):
    CHECKS[pid] = {"level": level, "technique": technique, "text": text, "note": note}
    NOT_APPLICABLE.pop(pid, None)


claim("C06", "exploration",
      "bounded exhaustive enumeration of operand grid x operators x target forms x number representation, "
      "each case executed on the real engine and compared with a V8-derived expected-outcome table",
      "Every cell of the 80x80 primitive operand grid for all 23 binary operators, all unary/conditional forms, "
      "12 compound assignments and 4 update forms on 6 target forms, host-float representation of every number, "
      "and (thorough) all depth-2 expression trees over a 12x14 subgrid agree bit-exactly with ECMAScript as "
      "computed by V8. Coverage statement within the grid, not a proof for all doubles.",
      "Trusts V8 (node 20) as the ECMAScript reference for the pinned tables, the serialiser in mc/core/ser.py, "
      "and that operands outside the grid behave like their grid neighbours.")

claim("C09", "exploration",
      "bounded exhaustive enumeration of regex pattern ASTs (by size) x all subjects up to a length x flag strata, "
      "each match executed on the real engine and compared with an executable transcription of the ECMAScript matcher",
      "Every pattern of AST size <= 3 over 16 atoms / 10 quantifiers / groups / 4 lookaround kinds against all 364 "
      "subjects over {a,b,1} of length <= 5 (Python-level and script-level exec), every size-4 pattern against "
      "121 subjects, flag strata i/m/s (thorough: size 5 in 8 slices, combined flags): match/no match, index and "
      "every capture agree with the specification's backtracking matcher.",
      "Trusts mc/oracle/regexref.py (diffed against V8 on 1.63 M pairs at build time); patterns beyond the size "
      "bound and characters outside the subject alphabets are not explored.")
claim("C16", "exploration",
      "bounded exhaustive product enumeration method x receiver grid x argument grid (arity 0..2), each call "
      "executed on the real engine and compared with a V8-derived expected-outcome table",
      "Full product of the 20 implemented String.prototype methods, length, index access, String() and "
      "String.fromCharCode over 14 receivers and the 16-value adversarial argument grid for arity <= 2 "
      "(84k cases; thorough adds object/array/function arguments and long receivers): result, receiver "
      "unchanged, and RangeError/TypeError by name.",
      "Trusts V8 for the pinned tables; ASCII-only case mapping and code-point indexing are documented engine "
      "restrictions and kept out of the grid.")


_V8 = ("Trusts V8 (node 20, strict mode) as the ECMAScript reference for the pinned expected-outcome tables (SHA-256 of the case "
       "list) and the serialiser mc/core/ser.py; inputs beyond the stated bounds are not explored.")
claim("C01", "fault_enumeration",
      "virtual-clock deadline injection: the deadline is placed at an exact interpreter/regex step and the product "
      "construct x place x wrapping x T x phase is enumerated exhaustively on the real engine",
      "For 13 never-terminating constructs in 32 places where script code can run, 5 try wrappings, several deadlines and "
      "phase offsets (plus 4 catastrophic regexes through 14 entry points and regexes kept across evals) every run ends in "
      "exactly TimeLimitError with at most 1016 interpreter steps / 216 steps of one regex run after the deadline.",
      "Time is virtual (1 unit per step through the MICROJS_VERIF hooks); a loose 40-script real-clock subset guards the link to seconds.")
claim("C02", "exploration",
      "bounded exhaustive enumeration of recursion shapes x M, and of every body of the control-flow skeleton grammar run 50 "
      "times in a driver loop with operand/handler/call depths measured at the back edge on the real VM",
      "31 recursion shapes x M in {1e4,1e5,1e6} end in exactly MemoryLimitError within 4M+2e5 steps; every depth-1/2 "
      "skeleton body (and a seed-selected slice of depth 3) in 3 placements leaves identical stack depths at every iteration.",
      "Interpreter memory = operand, call and handler stacks (what the engine accounts); host bytes are not measured.")
claim("C03", "exploration",
      "bounded exhaustive product receiver kind x access form x every internal/dunder attribute name (discovered by "
      "introspection), differential against fresh control names; plus an object-graph reachability walk after a program corpus",
      "On 32 receiver kinds and 16 access forms every attribute name of every microjs class/instance and ~100 Python dunders "
      "behaves exactly like an unknown property; after 300+ programs every value reachable from the globals, every eval "
      "result and every host-function argument is a JavaScript value.",
      "Names that are also ECMAScript property names are judged by other properties; transient operand-stack values are not inspected.")
claim("C04", "exploration",
      "bounded exhaustive enumeration of character soups, token sequences, all prefixes and single-token mutations of the "
      "corpus, and built-in x argument-vector grid; oracle = exception class and position invariants",
      "Every soup string up to length 4 (length 5 in strata), every 3-token sequence, every prefix and single-token edit of "
      "the small corpus programs and every built-in (discovered) x argument vector of length <= 2 over a 16-value grid "
      "returns or raises a JSError; syntax positions lie inside the text and shift exactly with leading newlines/spaces.",
      "No reference semantics: only totality and position invariants are judged.")
claim("C05", "exploration",
      "bounded exhaustive enumeration of control-flow skeletons (construct x construct x exit x position x call context), "
      "evaluation-order, closure, hoisting and completion-value families against V8-derived tables",
      "36k two-level skeletons (17x17 constructs, 9 exits, 3 positions, 8 expression contexts), evaluation-order, closure, "
      "hoisting and completion families (thorough: 220k three-level skeletons) produce V8's log, completion value or error.", _V8)
claim("C07", "exploration",
      "bounded exhaustive enumeration throw site x handler placement x expression context and of try/catch/finally shapes "
      "(nested two deep) against V8-derived tables, plus a metamorphic line/column shift check",
      "95 throw sites x 19 placements x 14 contexts and 205 try shapes x 7 enclosings (nested two deep) log exactly V8's "
      "sequence (finally exactly once, right handler, value identity, error constructor and name).", _V8)
claim("C08", "model_checking",
      "explicit-state search over operation histories of an object graph (43-statement alphabet), every history executed on "
      "the real engine and its 144-probe observation compared with the reference (V8 tables); call-form x function-kind product",
      "All histories of length <= 2 over 43 statements, length 3 over a 20-statement core (thorough: full depth 3, depth 4 "
      "kernel) and 1104 call-form programs observe exactly the reference state (reads, in, own tests, enumeration, prototype "
      "identity, instanceof).", _V8)
claim("C10", "exploration",
      "bounded exhaustive enumeration of pattern strings over the metacharacter vocabulary (constructor and literal), flag "
      "strings, single-edit mutations, count/group sweeps, and catastrophic families with regex steps counted through the hook",
      "Every pattern string up to length 4 (length 5 in strata), every flag string up to length 3, all single edits of 200 "
      "valid patterns and size sweeps construct or raise a catchable SyntaxError; catastrophic families stop within the "
      "poll budget with a time limit and within step_limit x positions without.",
      "Work is measured in regex-VM steps and virtual polls, not seconds.")
claim("C11", "exploration",
      "bounded exhaustive enumeration of JSON-like values (depth/width bound) through set/get/eval and as literals, argument "
      "vectors to an exposed callable, and all set/eval/get histories to depth 4 against a dict model",
      "Every value of depth <= 2 / width <= 2 over 17 leaves and 7 key kinds round-trips (value-exact, fresh); chains to "
      "depth 2000; every argument vector of length <= 2 reaches the callable in order; all 9-op histories to depth 4 agree "
      "with a plain dict model.", "Equality as defined in the driver (NaN = NaN, sign of zero, 1 == 1.0, keys through str()).")
claim("C12", "model_checking",
      "breadth-first search of a reference model (dict per context + built-in flags) with state deduplication; every model "
      "transition replayed from fresh real contexts and all contexts observed",
      "Every transition of the model with 2 contexts to depth 3 (thorough: depth 4, and 3 contexts) over 17 operations and a "
      "clock tick: outcome class of each step and the 9-probe state of every context equal the model (persistence, "
      "isolation, recovery after syntax/thrown/limit errors).",
      "Deduplication on the model state is sound because any implementation/model difference is itself reported.")
claim("C13", "exploration",
      "bounded exhaustive enumeration of operator trees (all pairs, triples in strata) printed with minimal parentheses, "
      "one-trivia-insertion layouts, literal spellings and single deletions/replacements for rejection; V8 tables + metamorphic checks",
      "All 3092 two-operator trees over 44 operators and 18k three-operator trees parse with ECMAScript precedence (value, "
      "structure, min-vs-full parentheses); 120k single trivia insertions never change the outcome; literal spellings agree; "
      "every bracket/quote/comment deletion and non-reference target is rejected.", _V8)
claim("C14", "exploration",
      "systematic scale sweep: 26 templates with closed-form results x n across the operand (255/256) and jump (65535/65536) "
      "encoding boundaries located on the real compiler output",
      "For 26 templates x 13 scale values and every n within +-3 of the 255- and 65535-byte boundaries (plus 2x, 4x) the "
      "program yields the closed form or is refused by a JSError before its first statement runs.",
      "Closed forms are hand-derived; sizes beyond 4x the boundary are not explored.")
claim("C15", "exploration",
      "enumeration over configurations: every program of a closure-heavy corpus in N separate interpreters with "
      "PYTHONHASHSEED 0..N-1, all 24 orders of 4-program batches, cold vs warm process",
      "1700+ closure programs give identical log/value/error under 16 (thorough 64) hash seeds, in every evaluation order "
      "of 4-program batches, and after 1000 unrelated evaluations with a shifted clock.",
      "Seeds beyond the range are not explored; the programs avoid Math.random/Date.now.")
claim("C17", "model_checking",
      "bounded exhaustive call grid (method x receiver x index/callback grid), exhaustive enumeration of all mutation "
      "histories to depth 3-4 over aliased arrays, typed-array value/view grids; V8-derived tables",
      "Every implemented Array method over 14 receivers x index grid x 23 callback forms, all 24^3 (and a 24^4 stratum) "
      "mutation histories on two aliases, 9 typed-array kinds x 48 values and 81 view pairs agree with V8 after every step.", _V8)
claim("C18", "exploration",
      "bounded exhaustive grids: doubles (exponent x mantissa patterns, powers of ten, thresholds) x printing forms, numeric "
      "string grammar x parsers, Math functions x special values; V8-derived tables (1 ulp for Math)",
      "148k cases (thorough 567k): number-to-string in all forms and radices, toFixed/toPrecision/toExponential digit grids, "
      "Number/unary plus/parseFloat/parseInt over a string grammar and radix grid, Math at special points agree with V8.", _V8)
claim("C19", "exploration",
      "bounded exhaustive enumeration of JSON token sequences (length <= 4, 5 in strata) and value trees (depth <= 2, 3 in "
      "strata) through parse/stringify/round trip; V8-derived tables",
      "All 204k four-token texts are accepted iff V8 accepts them with equal values; all value trees of depth <= 2 stringify, "
      "re-parse and canonicalise like V8; non-representable positions and cycles behave as specified.", _V8)
claim("C20", "model_checking",
      "exhaustive enumeration of lastIndex histories (exec/test/assign/read) over flag sets and patterns with the state after "
      "every step compared with the reference; product grid for regex-driven string methods; V8-derived tables",
      "All histories to depth 3 over 12 operations (depth 4 over 8, deeper in strata) x 36 pattern/flag pairs and 118 "
      "patterns x 4 flag sets x 31 subjects through match/replace/replaceAll/split/search (templates, function replacers, "
      "limits, preset lastIndex) agree with V8 after every step.", _V8)


# what was added after these texts were written (spaces listed in DESIGN.md 0.6; counts in EVIDENCE_SUMMARY.md)
ADDENDA = {
    "C01": " Later additions: tree recursions through eval / Function / callbacks where no single activation runs long, a regex family of 25 000 short attempts, regexes kept across contexts, error names shadowed by script globals.",
    "C02": " Later additions: all 205 try shapes, 58 degenerate statements and two-level constructs inside handler blocks in up to 5 placements; native re-entry and callback-base depths are measured too; 3000-iteration long runs.",
    "C03": " Later additions: every built-in method on 35 receiver kinds x 20 argument vectors, every operator on all pairs of 19 special operands, built-ins standing in as getter / setter / callback, and 10 kinds of Python callable are walked the same way.",
    "C04": " Later additions: 19 earlier steps that leave and re-enter the interpreter x 49 later callback-taking built-ins give what the later call gives alone; counts around the one-byte operand limit are refused or run; assign-special-property-then-call sequences; mutating callbacks as arguments.",
    "C05": " Later additions: multi-labelled loops, control structures inside handler blocks, functions defined in statement positions, loop targets that are not fresh variables and all 20 245 switch shapes of 0..3 clauses x exits x enclosings.",
    "C06": " Later additions: 17 further assignment-target kinds (captured, parameter, arguments and typed-array elements, accessors, inherited members ...) x 46 forms x 12 initial values.",
    "C07": " Later additions: 2 016 mid-expression throws, 391 uncaught throws, 15 x 15 nested built-ins with the handler between / outside / inside, depth-limit recovery, break / continue inside finally with a pending completion, 20 error objects x 17 renderings, line / column under shifts and multi-line preludes.",
    "C08": " Later additions: object literals with colliding definitions, three-level accessor chains, bind chains, the Object.* API over receivers x keys x descriptors, apply argument lists, enumerability of built-ins and the prototype chain of values by provenance, all against V8.",
    "C09": " Later additions: class escapes and case mapping over 58 characters, counted quantifiers, many groups and multi-digit back-references.",
    "C10": " Later additions: lookaround scan families, deep backtrack stacks, many-short-matches, and lastIndex positions x flags x subjects x calls.",
    "C11": " Later additions: integers beyond 2^53 round-trip exactly and are usable in 107 numeric positions without a host exception; host containers arrive as ordinary arrays / objects of the context; 10 kinds of Python callable and 18 call forms deliver the listed arguments; a callable returning the same mutable object.",
    "C12": " Later additions: the alphabet has ~36 operations (kept arrays / regexes / methods, redeclared globals, labels after syntax errors ...) and 13 probes; a brand-new context answers 19 probes identically before and after every operation was repeated up to 250 times elsewhere.",
    "C13": " Later additions: compound primaries in delimited positions, all small trees of nested blocks in 16 positions, two redundant parenthesis pairs at once, 43 characters x all escape spellings, every two spellings of one character compared inside the engine.",
    "C14": " Later additions: 71 templates in all (one variable kind at a time; small constructs placed AFTER n statements), the 32767-byte boundary, 11 numeric-literal spellings x 53 lengths, a too-large program refused n times inside eval / Function.",
    "C15": " Later additions: 1 860+ programs incl. key-order programs with a self-check, each failing program repeated 110 times with its context kept alive, 22 observers of built-in objects unchanged after each of 35 mutators ran on another context, built-ins on inputs beyond 1024 elements under every seed.",
    "C16": " Later additions: regular-expression arguments to 13 methods, arguments whose conversion throws the first time only, replacer results containing $-patterns.",
    "C17": " Later additions: copies built from views, 25 typed-array construction sources x 10 uses, keys that are / are not canonical indices (read, write, in, hasOwnProperty, descriptors), callbacks that replace the element list, array-to-string answers before / after k failed conversions.",
    "C18": " Later additions: numeric literals as property names, numeric strings of up to 5000 characters at 19 conversion sites, parse functions applied to number values over the doubles grid.",
    "C19": " Later additions: 72 non-representable things x 8 positions (non-finite typed elements, surrogate arrangements, accessor-object key order) and 14 re-entrant calls.",
    "C20": " Later additions: 7 200 histories on subjects with a character outside the BMP, lastIndex in the middle of a surrogate pair, and the RegExp object API (constructor arguments, renderings, accessors, missing arguments).",
}
