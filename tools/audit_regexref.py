#!/venv/bin/python
"""Build-time audit: the reference matcher (mc/oracle/regexref.py) against V8 for the hand-written pattern lists of C09
(hard cores x wrappers, counted quantifiers, many-group patterns) on their subject sets. Uses node; never run by a check.

    tools/audit_regexref.py            -> prints the number of (pattern, subject) pairs compared and every difference
"""
import json
import os
import subprocess
import sys

HERE = os.path.dirname(os.path.dirname(os.path.abspath(__file__)))
sys.path.insert(0, HERE)
NODE = "/root/.nvm/versions/node/v20.20.2/bin/node"
JS = r"""
const jobs = JSON.parse(require('fs').readFileSync(process.argv[2], 'utf8'));
const out = [];
for (const [p, f, subjects] of jobs) {
  let re; try { re = new RegExp(p, f); } catch (e) { out.push('ctor'); continue; }
  const row = [];
  for (const s of subjects) {
    re.lastIndex = 0; const m = re.exec(s);
    row.push(m === null ? '-' : m.index + ':' + Array.from(m).map(g => g === undefined ? '~' : g.replace(/\n/g, '\\n')).join(','));
  }
  out.push(row.join(' '));
}
console.log(JSON.stringify(out));
"""


def main():
    from mc.props import c09
    from mc.oracle.regexref import Matcher
    jobs, exp = [], []
    seen = set()
    for fn in (lambda: c09._core_cases("abc_5"), lambda: c09._core_cases("abz1_4"), lambda: c09._core_cases("mix_3", "i"),
               lambda: c09._core_cases("mix_3", "m"), getattr(c09, "_counted_cases", lambda: []), getattr(c09, "_manygroup_cases", lambda: [])):
        for cid, p in fn():
            key = (p["p"], p["f"], p["s"])
            if key in seen:
                continue
            seen.add(key)
            S = c09.subj(p["s"])
            m = Matcher(c09._tup(p["ast"]), p["f"])
            row = []
            for s in S:
                r = m.search(s)
                row.append("-" if r is None else c09.fmt(r[0], r[2]))
            jobs.append([p["p"], p["f"], S])
            exp.append(" ".join(row))
    tmp = "/tmp/audit_regexref.json"
    json.dump(jobs, open(tmp, "w"))
    open("/tmp/audit_regexref.js", "w").write(JS)
    got = json.loads(subprocess.run([NODE, "/tmp/audit_regexref.js", tmp], capture_output=True, text=True, check=True).stdout)
    bad = 0
    pairs = 0
    for (p, f, S), e, g in zip(jobs, exp, got):
        pairs += len(S)
        if e != g:
            bad += 1
            es, gs = e.split(" "), g.split(" ")
            i = next((k for k in range(min(len(es), len(gs))) if es[k] != gs[k]), 0)
            print("DIFF /%s/%s on %r: reference %s, V8 %s" % (p, f, S[i] if i < len(S) else "?", es[i] if i < len(es) else "?", gs[i] if i < len(gs) else g[:40]))
    print("%d patterns, %d (pattern, subject) pairs, %d patterns differ" % (len(jobs), pairs, bad))
    os.remove(tmp)
    os.remove("/tmp/audit_regexref.js")
    return 1 if bad else 0


if __name__ == "__main__":
    sys.exit(main())
