#!/venv/bin/python
"""Isolated probe:  tools/probe.py [--repo DIR] [--tl N] [--ml N] 'js source' ...   (one child per source)"""
import os, sys, subprocess, json
HERE = os.path.dirname(os.path.dirname(os.path.abspath(__file__)))
if len(sys.argv) > 1 and sys.argv[1] == "--child":
    import resource
    resource.setrlimit(resource.RLIMIT_AS, (3 << 30, 3 << 30))
    sys.path.insert(0, HERE)
    from mc.core import engine as e
    a = json.loads(sys.argv[2])
    print(e.run_program(a["src"], tl=a["tl"], ml=a["ml"]))
    sys.exit(0)
args = sys.argv[1:]
opt = {"tl": 200, "ml": None}
env = dict(os.environ, PYTHONHASHSEED="0")
while args and args[0].startswith("--"):
    k = args.pop(0)
    v = args.pop(0)
    if k == "--repo":
        env["VERIF_REPO"] = os.path.abspath(v)
    else:
        opt[k[2:]] = int(v)
for src in args:
    try:
        r = subprocess.run([sys.executable, __file__, "--child", json.dumps(dict(opt, src=src))], env=env,
                           capture_output=True, text=True, timeout=30)
        print("%-60s => %s %s" % (src[:60], r.stdout.strip(), r.stderr.strip()[-300:]))
    except subprocess.TimeoutExpired:
        print("%-60s => HOST HANG (30 s)" % src[:60])
