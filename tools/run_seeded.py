#!/venv/bin/python
"""Validate and run the seeded property-breaking changes under /verif/seeded/<id>/.

    tools/run_seeded.py import <src_dir> <PROP> <k> <name>   copy mutant<k>.diff/demo<k>.py/meta<k>.json from a seeding worktree
    tools/run_seeded.py verify <name>                        patch applies, suite green, demo PASS clean / FAIL mutated
    tools/run_seeded.py check <name> [--tier T] [--props C01,C02]   run the check(s) against the mutated tree (expects exit 1)
    tools/run_seeded.py all [--tier quick]                   verify + check every seeded change, write seeded/RESULTS.md

Each mutant is applied to a scratch git worktree of /repo HEAD outside /repo and /verif (removed afterwards);
/repo itself is never modified.
"""
import json
import os
import shutil
import subprocess
import sys
import time

HERE = os.path.dirname(os.path.dirname(os.path.abspath(__file__)))
SEEDED = os.path.join(HERE, "seeded")
PY = "/venv/bin/python"


def sh(cmd, cwd=None, env=None, timeout=3600):
    r = subprocess.run(cmd, shell=True, cwd=cwd, env=env, capture_output=True, text=True, timeout=timeout)
    return r.returncode, (r.stdout + r.stderr)


def scratch(name):
    d = "/tmp/mut-" + name
    sh("git -C /repo worktree remove --force %s" % d)
    shutil.rmtree(d, ignore_errors=True)
    rc, out = sh("git -C /repo worktree add -q --detach %s HEAD" % d)
    if rc != 0:
        raise SystemExit(out)
    return d


def drop(d):
    sh("git -C /repo worktree remove --force %s" % d)
    shutil.rmtree(d, ignore_errors=True)
    sh("git -C /repo worktree prune")


def do_import(src, prop, k, name):
    d = os.path.join(SEEDED, name)
    os.makedirs(d, exist_ok=True)
    shutil.copy(os.path.join(src, "mutant%s.diff" % k), os.path.join(d, "patch.diff"))
    shutil.copy(os.path.join(src, "demo%s.py" % k), os.path.join(d, "demo.py"))
    meta = {}
    mp = os.path.join(src, "meta%s.json" % k)
    if os.path.exists(mp):
        try:
            meta = json.load(open(mp))
        except Exception:  # noqa: BLE001
            meta = {"raw": open(mp).read()[:2000]}
    meta["property"] = prop
    meta["origin"] = "independent sub-agent given only the property text and its own worktree"
    json.dump(meta, open(os.path.join(d, "meta.json"), "w"), indent=1)
    print("imported", name)


def verify(name):
    d = os.path.join(SEEDED, name)
    meta = json.load(open(os.path.join(d, "meta.json")))
    w = scratch(name)
    res = {}
    try:
        env = dict(os.environ, PYTHONPATH=os.path.join(w, "src"))
        env.pop("MICROJS_VERIF", None)
        rc, out = sh("%s %s" % (PY, os.path.join(d, "demo.py")), cwd=w, env=env, timeout=600)
        res["demo_clean"] = "PASS" if rc == 0 else "FAIL(rc=%d) %s" % (rc, out[-200:])
        rc, out = sh("git apply %s" % os.path.join(d, "patch.diff"), cwd=w)
        res["applies"] = rc == 0
        if rc != 0:
            res["apply_error"] = out[-300:]
        else:
            rc, out = sh("%s -m pytest -q -p no:cacheprovider -n 8 2>&1 | tail -1" % PY, cwd=w, env=env, timeout=1800)
            res["suite"] = out.strip().splitlines()[-1] if out.strip() else "?"
            res["suite_green"] = " failed" not in res["suite"] and " error" not in res["suite"] and "passed" in res["suite"]
            if not res["suite_green"]:
                # the repository suite has timing-sensitive tests that fail on a loaded machine: run the failures again, serially
                rc, out = sh("%s -m pytest -q -p no:cacheprovider 2>&1 | tail -8" % PY, cwd=w, env=env, timeout=3600)
                last = out.strip().splitlines()[-1] if out.strip() else "?"
                res["suite_retry_serial"] = last
                res["suite_failed_tests"] = [l for l in out.splitlines() if l.startswith("FAILED")][:5]
                res["suite_green"] = " failed" not in last and " error" not in last and "passed" in last
                if not res["suite_green"] and res["suite_failed_tests"] and all("mandelbrot" in t for t in res["suite_failed_tests"]):
                    # the repository's mandelbrot test runs against a wall-clock limit and fails on a loaded machine with or
                    # without the change: it counts when it passes alone in one of three further attempts
                    for attempt in range(3):
                        rc, out = sh("%s -m pytest -q -p no:cacheprovider tests/test_js_basic.py -k mandelbrot 2>&1 | tail -1" % PY,
                                     cwd=w, env=env, timeout=900)
                        if " passed" in out and " failed" not in out:
                            res["suite_green"] = True
                            res["suite_note"] = "mandelbrot.js (wall-clock sensitive) failed under load and passed alone"
                            break
            rc, out = sh("%s %s" % (PY, os.path.join(d, "demo.py")), cwd=w, env=env, timeout=600)
            res["demo_mutant"] = "FAIL" if rc != 0 else "PASS (demo does not detect the change)"
    finally:
        drop(w)
    res["valid"] = bool(res.get("applies") and res.get("suite_green") and res.get("demo_clean") == "PASS" and res.get("demo_mutant") == "FAIL")
    meta["verified"] = res
    meta["verified_at_repo_head"] = sh("git -C /repo rev-parse --short HEAD")[1].strip()
    json.dump(meta, open(os.path.join(d, "meta.json"), "w"), indent=1)
    print(name, "valid" if res["valid"] else "INVALID", json.dumps(res)[:300])
    return res["valid"]


def check(name, tier="quick", props=None, seeds=(0,)):
    d = os.path.join(SEEDED, name)
    meta = json.load(open(os.path.join(d, "meta.json")))
    props = props or [meta["property"]]
    w = scratch(name)
    out_all = {}
    try:
        rc, out = sh("git apply %s" % os.path.join(d, "patch.diff"), cwd=w)
        if rc != 0:
            print("patch does not apply:", out[-200:])
            return {}
        for p in props:
            for seed in seeds:
                t0 = time.time()
                env = dict(os.environ, VERIF_SEED=str(seed))
                rc, out = sh("./check %s --tier %s --repo %s --no-evidence" % (p, tier, w), cwd=HERE, env=env, timeout=7200)
                viol = [l for l in out.splitlines() if l.startswith("VIOLATION")]
                first = ""
                lines = out.splitlines()
                for i, l in enumerate(lines):
                    if l.startswith("VIOLATION"):
                        first = " | ".join(x.strip() for x in lines[i + 1:i + 4])[:400]
                        break
                out_all["%s/%s/seed%d" % (p, tier, seed)] = {"exit": rc, "violations": len(viol), "first": first,
                                                            "wall_s": round(time.time() - t0, 1)}
                print(name, p, tier, "seed", seed, "exit", rc, "violations", len(viol), first[:160])
    finally:
        drop(w)
    meta.setdefault("detection", {}).update(out_all)
    # the verdict of the first evaluation is kept; later runs (after a check was strengthened) only update `detection`
    first = meta.setdefault("first_detection", {})
    for k, v in out_all.items():
        first.setdefault(k, dict(v, verif_commit=sh("git -C %s rev-parse --short HEAD" % HERE)[1].strip()))
    json.dump(meta, open(os.path.join(d, "meta.json"), "w"), indent=1)
    return out_all


# checks other than the mutant's own property that plausibly see it too (cross-detection is reported, not required)
RELATED = {"C01": ["C10", "C12"], "C02": ["C07", "C05"], "C03": ["C11"], "C04": ["C13", "C20", "C14"], "C05": ["C02", "C07", "C14"], "C06": ["C18"],
           "C07": ["C02", "C05", "C17"], "C08": ["C05"], "C09": ["C20", "C10"], "C10": ["C09", "C01"], "C11": ["C03"], "C12": ["C01", "C19"],
           "C13": ["C04", "C05"], "C14": ["C05"], "C15": ["C05", "C12"], "C16": ["C20"], "C17": ["C04"], "C18": ["C06", "C19"],
           "C19": ["C11"], "C20": ["C09", "C16"]}


def results_md():
    rows = []
    for name in sorted(os.listdir(SEEDED)):
        mp = os.path.join(SEEDED, name, "meta.json")
        if not os.path.exists(mp):
            continue
        m = json.load(open(mp))
        det = m.get("detection", {})
        first = m.get("first_detection", {})
        caught = [k for k, v in det.items() if v.get("exit") == 1]
        missed = [k for k, v in det.items() if v.get("exit") == 0]
        own = "%s/quick/seed0" % m.get("property")
        f = first.get(own, {}).get("exit")
        rows.append("| %s | %s | %s | %s | %s | %s | %s |" % (
            name, m.get("property"), (m.get("summary") or m.get("description") or "")[:110].replace("|", "/").replace("\n", " "),
            "yes" if m.get("verified", {}).get("valid") else "no",
            {1: "caught", 0: "missed", None: "-"}.get(f, "error"),
            ", ".join(caught) or "-", ", ".join(missed) or "-"))
    with open(os.path.join(SEEDED, "RESULTS.md"), "w") as f:
        f.write("# Seeded property-breaking changes\n\nEach change was written by an independent sub-agent that saw only the "
                "property text and its own worktree. `valid` = applies to /repo HEAD, repository suite green with it, demo "
                "PASS on the clean tree and FAIL with the change. `first run` = verdict of the property's own quick check the first "
                "time the change was evaluated (before any strengthening prompted by it).\n\n| change | property | what it does | valid | first run | "
                "caught by now (check/tier/seed) | missed by now |\n|---|---|---|---|---|---|---|\n" + "\n".join(rows) + "\n")
    print("\n".join(rows))


def main():
    a = sys.argv[1:]
    if a[0] == "import":
        do_import(a[1], a[2], a[3], a[4])
    elif a[0] == "verify":
        verify(a[1])
    elif a[0] == "check":
        tier = a[a.index("--tier") + 1] if "--tier" in a else "quick"
        props = a[a.index("--props") + 1].split(",") if "--props" in a else None
        check(a[1], tier, props)
        results_md()
    elif a[0] == "all":
        tier = a[a.index("--tier") + 1] if "--tier" in a else "quick"
        for name in sorted(os.listdir(SEEDED)):
            if os.path.exists(os.path.join(SEEDED, name, "patch.diff")):
                if verify(name):
                    check(name, tier)
        results_md()
    elif a[0] == "one":
        # verify + own check + related checks for one mutant (used by the parallel driver)
        name = a[1]
        tier = a[a.index("--tier") + 1] if "--tier" in a else "quick"
        if verify(name):
            meta = json.load(open(os.path.join(SEEDED, name, "meta.json")))
            own = meta["property"]
            r = check(name, tier, [own])
            if not any(v.get("exit") == 1 for v in r.values()) or "--related" in a:
                check(name, tier, RELATED.get(own, []))
    elif a[0] == "results":
        results_md()


if __name__ == "__main__":
    main()
