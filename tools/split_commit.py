#!/usr/bin/env python3
"""Commit the working-tree changes of /repo as several `fix:` commits, one per defect.

    tools/split_commit.py spec.json

spec.json = [{"message": "fix: ...", "match": ["substring of a changed line", ...], "prop": "C06", "what": "..."}, ...]
Every hunk of `git diff` goes to the first entry one of whose substrings occurs in the hunk's changed lines; a hunk
nobody claims is an error (nothing is committed). After each commit the fix is recorded with tools/record_fix.py.
"""
import json
import os
import re
import subprocess
import sys

REPO = "/repo"
HERE = os.path.dirname(os.path.abspath(__file__))


def sh(*a, **k):
    return subprocess.run(a, cwd=REPO, capture_output=True, text=True, **k)


def main():
    spec = json.load(open(sys.argv[1]))
    diff = sh("git", "diff", "-U3").stdout
    files = re.split(r"(?m)^(?=diff --git )", diff)
    groups = [[] for _ in spec]
    for f in files:
        if not f.strip():
            continue
        header, *hunks = re.split(r"(?m)^(?=@@ )", f)
        for h in hunks:
            changed = "\n".join(l for l in h.splitlines() if l[:1] in "+-")
            for i, e in enumerate(spec):
                if any(m in changed for m in e["match"]):
                    groups[i].append((header, h))
                    break
            else:
                raise SystemExit("unclaimed hunk:\n" + h[:600])
    for e, g in zip(spec, groups):
        if not g:
            raise SystemExit("no hunk for: " + e["message"])
    for e, g in zip(spec, groups):
        byfile = {}
        for header, h in g:
            byfile.setdefault(header, []).append(h)
        patch = "".join(header + "".join(hs) for header, hs in byfile.items())
        r = subprocess.run(["git", "apply", "--cached", "--recount", "-"], cwd=REPO, input=patch, text=True, capture_output=True)
        if r.returncode != 0:
            raise SystemExit("git apply --cached failed for %s:\n%s" % (e["message"], r.stderr))
        r = sh("git", "commit", "-q", "-m", e["message"])
        if r.returncode != 0:
            raise SystemExit(r.stdout + r.stderr)
        h = sh("git", "rev-parse", "--short", "HEAD").stdout.strip()
        subprocess.run([sys.executable, os.path.join(HERE, "record_fix.py"), e["prop"], h, e["what"]])
    left = sh("git", "diff", "--stat").stdout
    if left.strip():
        print("still uncommitted:\n" + left)


if __name__ == "__main__":
    main()
