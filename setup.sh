#!/bin/sh
# setup_cmd: nothing to build (pure Python run by /venv/bin/python); byte-compile the framework and
# check that committed tables/ledgers are readable. Runs offline.
set -e
cd "$(dirname "$0")"
/venv/bin/python -m compileall -q mc tools >/dev/null
/venv/bin/python - <<'PY'
import glob, gzip, json
n = 0
for p in glob.glob("tables/*.json.gz") + glob.glob("known/*.json.gz"):
    with gzip.open(p, "rt") as f:
        json.load(f)
    n += 1
print("setup ok: %d committed data files readable" % n)
PY
mkdir -p evidence replays
