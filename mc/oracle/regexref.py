"""ECMAScript regex matcher (spec-style, continuation passing) over a tuple AST.

AST:
  ('char', c) ('dot',) ('class', negated, [(lo,hi)|('esc','d')...]) ('esc', 'd'|'D'|'w'|'W'|'s'|'S')
  ('bol',) ('eol',) ('wb',) ('nwb',) ('backref', n)
  ('group', n, body)  ('ncgroup', body)
  ('look', ahead:bool, positive:bool, body)
  ('quant', min, max|None, greedy, body)
  ('cat', [terms]) ('alt', [alts]) ('empty',)
"""
import sys
sys.setrecursionlimit(100000)

WS = set(' \t\n\v\f\r      　﻿') | {chr(c) for c in range(0x2000, 0x200b)}


def is_word(ch):
    return ch.isascii() and (ch.isalnum() or ch == '_')


def esc_match(kind, ch):
    k = kind.lower()
    if k == 'd':
        r = ch.isascii() and ch.isdigit()
    elif k == 'w':
        r = is_word(ch)
    else:
        r = ch in WS
    return r if kind.islower() else not r


def canon(ch, icase):
    if not icase:
        return ch
    # non-unicode Canonicalize: toUpperCase, single char, don't map non-ASCII to ASCII
    u = ch.upper()
    if len(u) != 1:
        return ch
    if ord(ch) >= 128 and ord(u) < 128:
        return ch
    return u


def count_groups(node):
    t = node[0]
    if t == 'group':
        return 1 + count_groups(node[2])
    if t == 'ncgroup':
        return count_groups(node[1])
    if t == 'look':
        return count_groups(node[3])
    if t == 'quant':
        return count_groups(node[4])
    if t in ('cat', 'alt'):
        return sum(count_groups(x) for x in node[1])
    return 0


def group_indices(node, acc):
    t = node[0]
    if t == 'group':
        acc.append(node[1]); group_indices(node[2], acc)
    elif t == 'ncgroup':
        group_indices(node[1], acc)
    elif t == 'look':
        group_indices(node[3], acc)
    elif t == 'quant':
        group_indices(node[4], acc)
    elif t in ('cat', 'alt'):
        for x in node[1]:
            group_indices(x, acc)
    return acc


class Matcher:
    def __init__(self, ast, flags=''):
        self.ast = ast
        self.icase = 'i' in flags
        self.multiline = 'm' in flags
        self.dotall = 's' in flags
        self.ncap = count_groups(ast)
        self.steps = 0

    def compile(self, node, direction):
        """Return m(x, c) where x=(end, caps tuple) and c continuation -> result or None."""
        t = node[0]
        inp = None
        if t == 'empty':
            return lambda s, x, c: c(x)
        if t == 'char':
            ch = canon(node[1], self.icase)
            return self.char_matcher(lambda c: canon(c, self.icase) == ch, direction)
        if t == 'dot':
            if self.dotall:
                return self.char_matcher(lambda c: True, direction)
            return self.char_matcher(lambda c: c not in '\n\r  ', direction)
        if t == 'esc':
            k = node[1]
            return self.char_matcher(lambda c: esc_match(k, c), direction)
        if t == 'class':
            neg, items = node[1], node[2]
            ic = self.icase
            def test(c):
                cc = canon(c, ic)
                hit = False
                for it in items:
                    if it[0] == 'esc':
                        if esc_match(it[1], c):
                            hit = True; break
                    else:
                        lo, hi = it
                        if ic:
                            # spec: exists member a of set with Canonicalize(a) == cc
                            for o in range(ord(lo), ord(hi) + 1):
                                if canon(chr(o), True) == cc:
                                    hit = True; break
                            if hit:
                                break
                        elif lo <= c <= hi:
                            hit = True; break
                return hit != neg
            return self.char_matcher(test, direction)
        if t == 'bol':
            ml = self.multiline
            def m(s, x, c):
                e = x[0]
                if e == 0 or (ml and s[e - 1] in '\n\r  '):
                    return c(x)
                return None
            return m
        if t == 'eol':
            ml = self.multiline
            def m(s, x, c):
                e = x[0]
                if e == len(s) or (ml and s[e] in '\n\r  '):
                    return c(x)
                return None
            return m
        if t in ('wb', 'nwb'):
            want = t == 'wb'
            def m(s, x, c):
                e = x[0]
                a = e > 0 and is_word(s[e - 1])
                b = e < len(s) and is_word(s[e])
                if (a != b) == want:
                    return c(x)
                return None
            return m
        if t == 'backref':
            n = node[1]
            ic = self.icase
            def m(s, x, c):
                e, caps = x
                cap = caps[n - 1]
                if cap is None:
                    return c(x)
                a, b = cap
                ln = b - a
                f = e + ln if direction == 1 else e - ln
                if f < 0 or f > len(s):
                    return None
                g = min(e, f)
                for i in range(ln):
                    if canon(s[a + i], ic) != canon(s[g + i], ic):
                        return None
                return c((f, caps))
            return m
        if t == 'group':
            n = node[1]
            inner = self.compile(node[2], direction)
            def m(s, x, c):
                xe = x[0]
                def d(y):
                    ye, ycaps = y
                    if direction == 1:
                        r = (xe, ye)
                    else:
                        r = (ye, xe)
                    caps = list(ycaps); caps[n - 1] = r
                    return c((ye, tuple(caps)))
                return inner(s, x, d)
            return m
        if t == 'ncgroup':
            return self.compile(node[1], direction)
        if t == 'look':
            ahead, positive, body = node[1], node[2], node[3]
            inner = self.compile(body, 1 if ahead else -1)
            def m(s, x, c):
                r = inner(s, x, lambda y: y)
                if positive:
                    if r is None:
                        return None
                    return c((x[0], r[1]))
                else:
                    if r is not None:
                        return None
                    return c(x)
            return m
        if t == 'quant':
            mn, mx, greedy, body = node[1], node[2], node[3], node[4]
            inner = self.compile(body, direction)
            gidx = group_indices(body, [])
            def repeat(s, mn, mx, x, c):
                self.steps += 1
                if mx == 0:
                    return c(x)
                def d(y):
                    if mn == 0 and y[0] == x[0]:
                        return None
                    mn2 = 0 if mn == 0 else mn - 1
                    mx2 = None if mx is None else mx - 1
                    return repeat(s, mn2, mx2, y, c)
                caps = x[1]
                if gidx:
                    caps = list(caps)
                    for k in gidx:
                        caps[k - 1] = None
                    caps = tuple(caps)
                xr = (x[0], caps)
                if mn != 0:
                    return inner(s, xr, d)
                if not greedy:
                    z = c(x)
                    if z is not None:
                        return z
                    return inner(s, xr, d)
                z = inner(s, xr, d)
                if z is not None:
                    return z
                return c(x)
            return lambda s, x, c: repeat(s, mn, mx, x, c)
        if t == 'cat':
            ms = [self.compile(n, direction) for n in node[1]]
            if direction == -1:
                ms = ms[::-1]
            def m(s, x, c, ms=ms):
                def run(i, x):
                    if i == len(ms):
                        return c(x)
                    return ms[i](s, x, lambda y: run(i + 1, y))
                return run(0, x)
            return m
        if t == 'alt':
            ms = [self.compile(n, direction) for n in node[1]]
            def m(s, x, c):
                for a in ms:
                    r = a(s, x, c)
                    if r is not None:
                        return r
                return None
            return m
        raise ValueError(t)

    def char_matcher(self, test, direction):
        def m(s, x, c):
            self.steps += 1
            e, caps = x
            f = e + direction
            if f < 0 or f > len(s):
                return None
            ch = s[min(e, f)]
            if not test(ch):
                return None
            return c((f, caps))
        return m

    def exec_at(self, s, i):
        if not hasattr(self, '_m'):
            self._m = self.compile(self.ast, 1)
        r = self._m(s, (i, (None,) * self.ncap), lambda y: y)
        return r

    def search(self, s, start=0, sticky=False):
        i = start
        while i <= len(s):
            r = self.exec_at(s, i)
            if r is not None:
                e, caps = r
                return (i, e, [s[i:e]] + [None if c is None else s[c[0]:c[1]] for c in caps])
            if sticky:
                return None
            i += 1
        return None


# ---- printer: AST -> pattern source ----
def to_src(node, ctx='alt'):
    t = node[0]
    if t == 'empty':
        return ''
    if t == 'char':
        c = node[1]
        return '\\' + c if c in '.*+?^${}[]()|\\/' else ('\\n' if c == '\n' else c)
    if t == 'dot':
        return '.'
    if t == 'esc':
        return '\\' + node[1]
    if t == 'class':
        out = '[' + ('^' if node[1] else '')
        for it in node[2]:
            if it[0] == 'esc':
                out += '\\' + it[1]
            elif it[0] == it[1]:
                out += it[0]
            else:
                out += it[0] + '-' + it[1]
        return out + ']'
    if t == 'bol':
        return '^'
    if t == 'eol':
        return '$'
    if t == 'wb':
        return '\\b'
    if t == 'nwb':
        return '\\B'
    if t == 'backref':
        return '\\%d' % node[1]
    if t == 'group':
        return '(' + to_src(node[2]) + ')'
    if t == 'ncgroup':
        return '(?:' + to_src(node[1]) + ')'
    if t == 'look':
        return '(?' + ('' if node[1] else '<') + ('=' if node[2] else '!') + to_src(node[3]) + ')'
    if t == 'quant':
        mn, mx, greedy, body = node[1:]
        b = to_src(body, 'quant')
        if body[0] in ('cat', 'alt', 'quant', 'empty') :
            b = '(?:' + to_src(body) + ')'
        if (mn, mx) == (0, None): q = '*'
        elif (mn, mx) == (1, None): q = '+'
        elif (mn, mx) == (0, 1): q = '?'
        elif mx is None: q = '{%d,}' % mn
        elif mn == mx: q = '{%d}' % mn
        else: q = '{%d,%d}' % (mn, mx)
        return b + q + ('' if greedy else '?')
    if t == 'cat':
        return ''.join('(?:' + to_src(x) + ')' if x[0] == 'alt' else to_src(x) for x in node[1])
    if t == 'alt':
        return '|'.join(to_src(x) for x in node[1])
    raise ValueError(t)


# ---- parser: pattern source -> AST (the supported syntax only; raises ValueError otherwise) ----
def _count_capturing(src):
    """Number of capturing groups in a pattern source (escapes and classes skipped)."""
    n, i, in_class = 0, 0, False
    while i < len(src):
        c = src[i]
        if c == "\\":
            i += 2
            continue
        if in_class:
            in_class = c != "]"
        elif c == "[":
            in_class = True
        elif c == "(" and src[i + 1:i + 2] != "?":
            n += 1
        i += 1
    return n


def parse(src):
    pos = [0]
    ngroups = [0]

    def peek():
        return src[pos[0]] if pos[0] < len(src) else None

    def eat(ch=None):
        c = peek()
        if c is None or (ch is not None and c != ch):
            raise ValueError("unexpected %r at %d in %r" % (c, pos[0], src))
        pos[0] += 1
        return c

    def disjunction():
        alts = [alternative()]
        while peek() == "|":
            eat("|")
            alts.append(alternative())
        return alts[0] if len(alts) == 1 else ("alt", alts)

    def alternative():
        terms = []
        while peek() is not None and peek() not in "|)":
            terms.append(term())
        if not terms:
            return ("empty",)
        return terms[0] if len(terms) == 1 else ("cat", terms)

    def term():
        c = peek()
        if c == "^":
            eat()
            return ("bol",)
        if c == "$":
            eat()
            return ("eol",)
        if c == "(":
            eat()
            if src.startswith("?:", pos[0]):
                pos[0] += 2
                body = disjunction()
                eat(")")
                node = ("ncgroup", body) if body[0] in ("alt", "cat", "empty") else body
                if body[0] == "empty":
                    node = ("empty",)
            elif src.startswith("?=", pos[0]) or src.startswith("?!", pos[0]):
                positive = src[pos[0] + 1] == "="
                pos[0] += 2
                body = disjunction()
                eat(")")
                return ("look", True, positive, body)
            elif src.startswith("?<=", pos[0]) or src.startswith("?<!", pos[0]):
                positive = src[pos[0] + 2] == "="
                pos[0] += 3
                body = disjunction()
                eat(")")
                return ("look", False, positive, body)
            else:
                ngroups[0] += 1
                n = ngroups[0]
                body = disjunction()
                eat(")")
                node = ("group", n, body)
            return quantified(node)
        if c == "\\":
            eat()
            e = eat()
            if e == "b":
                return ("wb",)
            if e == "B":
                return ("nwb",)
            if e in "dDwWsS":
                return quantified(("esc", e))
            if e.isdigit() and e != "0":
                # DecimalEscape: all following digits belong to the number; it is a back-reference when the pattern has
                # that many groups in total (anything else is a legacy octal escape, which the generators do not produce)
                while peek() is not None and peek().isdigit():
                    e += eat()
                total = _count_capturing(src)
                if int(e) > total:
                    raise ValueError("\\%s with only %d groups in %r (legacy octal escapes are not modelled)" % (e, total, src))
                return quantified(("backref", int(e)))
            if e == "n":
                return quantified(("char", "\n"))
            if e == "t":
                return quantified(("char", "\t"))
            return quantified(("char", e))
        if c == ".":
            eat()
            return quantified(("dot",))
        if c == "[":
            return quantified(char_class())
        if c in "*+?{":
            raise ValueError("nothing to repeat at %d in %r" % (pos[0], src))
        eat()
        return quantified(("char", c))

    def char_class():
        eat("[")
        neg = False
        if peek() == "^":
            eat()
            neg = True
        items = []

        def atom():
            c = eat()
            if c == "\\":
                e = eat()
                if e in "dDwWsS":
                    return ("esc", e)
                return {"n": "\n", "t": "\t", "b": "\b"}.get(e, e)
            return c
        while peek() != "]":
            a = atom()
            if peek() == "-" and pos[0] + 1 < len(src) and src[pos[0] + 1] != "]" and not isinstance(a, tuple):
                eat("-")
                b = atom()
                if isinstance(b, tuple):
                    raise ValueError("class range to a shorthand escape")
                items.append((a, b))
            elif isinstance(a, tuple):
                items.append(a)
            else:
                items.append((a, a))
        eat("]")
        return ("class", neg, items)

    def quantified(node):
        c = peek()
        mn = mx = None
        if c == "*":
            eat()
            mn, mx = 0, None
        elif c == "+":
            eat()
            mn, mx = 1, None
        elif c == "?":
            eat()
            mn, mx = 0, 1
        elif c == "{":
            j = src.find("}", pos[0])
            body = src[pos[0] + 1:j] if j > 0 else ""
            import re as _re
            m = _re.fullmatch(r"(\d+)(,(\d*))?", body)
            if not m:
                raise ValueError("literal brace at %d in %r" % (pos[0], src))
            pos[0] = j + 1
            mn = int(m.group(1))
            mx = mn if m.group(2) is None else (int(m.group(3)) if m.group(3) else None)
        else:
            return node
        greedy = True
        if peek() == "?":
            eat()
            greedy = False
        return ("quant", mn, mx, greedy, node)

    ast = disjunction()
    if pos[0] != len(src):
        raise ValueError("unbalanced ) at %d in %r" % (pos[0], src))
    return ast
