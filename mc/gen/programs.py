"""Tiny JavaScript program AST (nested tuples), printer, early-error validator and the
control-flow skeleton enumerators shared by the statement-level drivers (C05, C07, C02, C13, C15).

Everything here is plain data + pure functions (no engine, no node).

Expressions
    str                         verbatim source text (opaque)
    int / float                 numeric literal
    ("id", name)  ("str", text)
    ("call", callee, [args])    ("new", callee, [args])
    ("bin", op, a, b)           ("un", op, a)          ("post", op, a)       ("pre", op, a)
    ("assign", op, target, v)   ("cond", t, a, b)      ("seq", [e, ...])
    ("dot", obj, name)          ("idx", obj, key)
    ("arr", [e, ...])           ("obj", [(key, e), ...])
    ("fn", name|None, [params], [stmts])               ("arrow", [params], expr | [stmts])
    ("log", k, e)               the logging operand  (__out(k), e)

Statements
    ("expr", e)  ("var", [(name, e|None), ...])  ("block", [s])  ("empty",)  ("raw", text)
    ("if", e, [s], [s]|None)
    ("for", init_stmt|None, e|None, e|None, [s])   ("while", e, [s])   ("dowhile", [s], e)
    ("forin", name, e, [s])   ("forof", name, e, [s])            (always `for (var name in|of e)`)
    ("switch", e, [(e|None, [s]), ...])                           (test None = default clause)
    ("label", name, s)  ("break", label|None)  ("continue", label|None)
    ("return", e|None)  ("throw", e)
    ("try", [s], (param, [s])|None, [s]|None)
    ("func", name, [params], [s])
"""

_ATOMIC = ("id", "str", "call", "dot", "idx", "arr", "log")


def expr(e, nested=False):
    """Source text of an expression; `nested` parenthesises anything that is not atomic."""
    if isinstance(e, str):
        return e
    if isinstance(e, bool):
        return "true" if e else "false"
    if isinstance(e, (int, float)):
        s = repr(e)
        return "(" + s + ")" if e < 0 else s
    k = e[0]
    if k == "id":
        return e[1]
    if k == "str":
        return '"' + e[1].replace("\\", "\\\\").replace('"', '\\"') + '"'
    if k == "log":
        return "(__out(%d), %s)" % (e[1], expr(e[2], True))
    if k == "call":
        return "%s(%s)" % (expr(e[1], True), ", ".join(expr(a) for a in e[2]))
    if k == "dot":
        return "%s.%s" % (expr(e[1], True), e[2])
    if k == "idx":
        return "%s[%s]" % (expr(e[1], True), expr(e[2]))
    if k == "arr":
        return "[" + ", ".join(expr(a) for a in e[1]) + "]"
    if k == "new":
        s = "new %s(%s)" % (expr(e[1], True), ", ".join(expr(a) for a in e[2]))
    elif k == "bin":
        s = "%s %s %s" % (expr(e[2], True), e[1], expr(e[3], True))
    elif k == "un":
        s = "%s%s%s" % (e[1], " " if e[1].isalpha() else "", expr(e[2], True))
    elif k == "pre":
        s = "%s%s" % (e[1], expr(e[2], True))
    elif k == "post":
        s = "%s%s" % (expr(e[2], True), e[1])
    elif k == "assign":
        s = "%s %s %s" % (expr(e[2], True), e[1], expr(e[3], True))
    elif k == "cond":
        s = "%s ? %s : %s" % (expr(e[1], True), expr(e[2], True), expr(e[3], True))
    elif k == "seq":
        s = ", ".join(expr(a, True) for a in e[1])
    elif k == "obj":
        s = "{" + ", ".join("%s: %s" % (key, expr(v)) for key, v in e[1]) + "}"
    elif k == "fn":
        s = "function %s(%s) { %s }" % (e[1] or "", ", ".join(e[2]), stmts(e[3]))
    elif k == "arrow":
        body = "{ %s }" % stmts(e[2]) if isinstance(e[2], list) else expr(e[2], True)
        s = "(%s) => %s" % (", ".join(e[1]), body)
    else:
        raise ValueError("unknown expression node %r" % (k,))
    return "(" + s + ")" if nested else s


def block(body):
    return "{ " + stmts(body) + " }" if body else "{ }"


def stmt(s):
    k = s[0]
    if k == "expr":
        t = expr(s[1])
        if t.startswith("{") or t.startswith("function"):
            t = "(" + t + ")"
        return t + ";"
    if k == "var":
        return "var " + ", ".join(n if v is None else "%s = %s" % (n, expr(v)) for n, v in s[1]) + ";"
    if k == "block":
        return block(s[1])
    if k == "empty":
        return ";"
    if k == "raw":
        return s[1]
    if k == "if":
        t = "if (%s) %s" % (expr(s[1]), block(s[2]))
        return t if s[3] is None else t + " else " + block(s[3])
    if k == "for":
        init = "" if s[1] is None else stmt(s[1]).rstrip(";")
        return "for (%s; %s; %s) %s" % (init, "" if s[2] is None else expr(s[2]),
                                       "" if s[3] is None else expr(s[3]), block(s[4]))
    if k == "while":
        return "while (%s) %s" % (expr(s[1]), block(s[2]))
    if k == "dowhile":
        return "do %s while (%s);" % (block(s[1]), expr(s[2]))
    if k == "forin":
        return "for (var %s in %s) %s" % (s[1], expr(s[2]), block(s[3]))
    if k == "forof":
        return "for (var %s of %s) %s" % (s[1], expr(s[2]), block(s[3]))
    if k == "switch":
        cl = []
        for test, body in s[2]:
            head = "default:" if test is None else "case %s:" % expr(test)
            cl.append(head + (" " + stmts(body) if body else ""))
        return "switch (%s) { %s }" % (expr(s[1]), " ".join(cl))
    if k == "label":
        return "%s: %s" % (s[1], stmt(s[2]))
    if k in ("break", "continue"):
        return k + (" " + s[1] if s[1] else "") + ";"
    if k == "return":
        return "return;" if s[1] is None else "return %s;" % expr(s[1])
    if k == "throw":
        return "throw %s;" % expr(s[1])
    if k == "try":
        t = "try " + block(s[1])
        if s[2] is not None:
            t += " catch (%s) %s" % (s[2][0], block(s[2][1]))
        if s[3] is not None:
            t += " finally " + block(s[3])
        return t
    if k == "func":
        return "function %s(%s) %s" % (s[1], ", ".join(s[2]), block(s[3]))
    raise ValueError("unknown statement node %r" % (k,))


def stmts(body):
    return " ".join(stmt(s) for s in body)


def render(ast):
    """Source text of a statement list, a single statement, or an expression."""
    if isinstance(ast, list):
        return stmts(ast)
    if isinstance(ast, tuple) and ast and ast[0] in _STMT_KINDS:
        return stmt(ast)
    return expr(ast)


_STMT_KINDS = {"expr", "var", "block", "empty", "raw", "if", "for", "while", "dowhile", "forin", "forof",
               "switch", "label", "break", "continue", "return", "throw", "try", "func"}
_LOOP_KINDS = {"for", "while", "dowhile", "forin", "forof"}


# ------------------------------------------------------------------ early errors

def early_error(body, in_function=False):
    """First ECMAScript early error concerning jumps in a statement list, or None.

    Rules (ECMA-262 13.8.1, 13.9.1, 13.10.1, 13.13.1): `break` without label needs an enclosing
    loop or switch, `continue` an enclosing loop; a labelled `break` needs that label on an enclosing
    statement, a labelled `continue` needs it on an enclosing *loop*; labels do not cross function
    boundaries and may not be nested twice; `return` needs a function. Verbatim text is opaque."""
    return _ee_list(body, {}, False, False, in_function)


def _ee_list(body, labels, in_loop, in_switch, in_fn):
    for s in body:
        r = _ee(s, labels, in_loop, in_switch, in_fn)
        if r:
            return r
    return None


def _ee_expr(e):
    if not isinstance(e, tuple):
        return None
    if e[0] == "fn":
        return _ee_list(e[3], {}, False, False, True)
    if e[0] == "arrow":
        return _ee_list(e[2], {}, False, False, True) if isinstance(e[2], list) else _ee_expr(e[2])
    for x in e[1:]:
        if isinstance(x, tuple):
            r = _ee_expr(x)
            if r:
                return r
        elif isinstance(x, list):
            for y in x:
                r = _ee_expr(y[1] if (e[0] == "obj") else y)
                if r:
                    return r
    return None


def _ee(s, labels, in_loop, in_switch, in_fn):
    k = s[0]
    if k in ("expr", "throw"):
        return _ee_expr(s[1])
    if k == "var":
        for _, v in s[1]:
            r = _ee_expr(v)
            if r:
                return r
        return None
    if k in ("empty", "raw"):
        return None
    if k == "block":
        return _ee_list(s[1], labels, in_loop, in_switch, in_fn)
    if k == "if":
        return (_ee_expr(s[1]) or _ee_list(s[2], labels, in_loop, in_switch, in_fn)
                or (_ee_list(s[3], labels, in_loop, in_switch, in_fn) if s[3] is not None else None))
    if k == "for":
        return ((_ee(s[1], labels, in_loop, in_switch, in_fn) if s[1] is not None else None)
                or _ee_expr(s[2]) or _ee_expr(s[3]) or _ee_list(s[4], labels, True, in_switch, in_fn))
    if k == "while":
        return _ee_expr(s[1]) or _ee_list(s[2], labels, True, in_switch, in_fn)
    if k == "dowhile":
        return _ee_list(s[1], labels, True, in_switch, in_fn) or _ee_expr(s[2])
    if k in ("forin", "forof"):
        return _ee_expr(s[2]) or _ee_list(s[3], labels, True, in_switch, in_fn)
    if k == "switch":
        r = _ee_expr(s[1])
        for test, body in s[2]:
            r = r or _ee_expr(test) or _ee_list(body, labels, in_loop, True, in_fn)
        return r
    if k == "label":
        if s[1] in labels:
            return "duplicate label " + s[1]
        inner = s[2]
        while inner[0] == "label":
            inner = inner[2]
        lab = dict(labels)
        lab[s[1]] = inner[0] in _LOOP_KINDS
        return _ee(s[2], lab, in_loop, in_switch, in_fn)
    if k == "break":
        if s[1] is None:
            return None if (in_loop or in_switch) else "break outside loop/switch"
        return None if s[1] in labels else "undefined label " + s[1]
    if k == "continue":
        if s[1] is None:
            return None if in_loop else "continue outside loop"
        if s[1] not in labels:
            return "undefined label " + s[1]
        return None if labels[s[1]] else "continue to non-loop label " + s[1]
    if k == "return":
        return _ee_expr(s[1]) or (None if in_fn else "return outside function")
    if k == "try":
        return (_ee_list(s[1], labels, in_loop, in_switch, in_fn)
                or (_ee_list(s[2][1], labels, in_loop, in_switch, in_fn) if s[2] is not None else None)
                or (_ee_list(s[3], labels, in_loop, in_switch, in_fn) if s[3] is not None else None))
    if k == "func":
        return _ee_list(s[3], {}, False, False, True)
    raise ValueError("unknown statement node %r" % (k,))


# ------------------------------------------------------------------ control-flow skeletons

def out(k):
    return ("expr", "__out(%d)" % k)


def outv(name):
    return ("expr", "__out(%s)" % name)


EXIT_MARK = 777          # logged immediately before the exit statement
LOOPS = ("for", "while", "dowhile", "forin", "forof")
SWITCHES = ("switch", "sw_df_fall", "sw_df_hit", "sw_dm_fall", "sw_dm_hit", "sw_dl")
CONSTRUCTS = LOOPS + SWITCHES + ("label", "if", "trycatch", "tryfinally", "block", "func")
CONSTRUCT_TEXT = {
    "for": "for", "while": "while", "dowhile": "do-while", "forin": "for-in", "forof": "for-of",
    "switch": "switch (matching case)", "sw_df_fall": "switch default-first (no case matches)",
    "sw_df_hit": "switch default-before-case (default first)", "sw_dm_fall": "switch default-middle (no case matches)",
    "sw_dm_hit": "switch default-before-case (default middle)", "sw_dl": "switch default-last",
    "label": "labelled block", "if": "if/else", "trycatch": "try-catch", "tryfinally": "try-finally",
    "block": "block", "func": "function body",
}
EXITS2 = ("none", "break", "continue", "lbreak0", "lbreak1", "lcontinue0", "lcontinue1", "return", "throw")
EXITS3 = ("none", "break", "continue", "lbreak0", "lbreak1", "lbreak2", "lcontinue0", "lcontinue1", "lcontinue2",
          "return", "throw")
POSITIONS = ("bare", "iter1", "iter2")
CONTEXTS = ("f();", "r = 1 + f();", "r = f() + 1;", "r = [0, f(), 2];", "r = g(0, f());", "r = ({a: f()}).a;",
            "r = c ? f() : 0;", "r = a[f()];")
PRELUDE = ("var c = true, s = 1, z = 9, a = [5, 6, 7, 8], n0 = 0, n1 = 0, n2 = 0, r; "
           "function g(x, y) { __out(x); __out(y); return x + y; } ")
EPILOGUE = " __out(r); n0 * 100 + n1 * 10 + n2"


def construct(kind, lvl, body, label=None):
    """Statements of one construct at nesting level `lvl` (0 = outermost) around `body`.

    Log ids are (lvl+1)*100 + k so that every entry/exit point of every level is distinct; every
    loop counts its iterations in the local j<lvl> (reset at loop entry, bounded at 3) and in the
    global n<lvl> (used by the completion value). `label` is put on the construct statement itself."""
    B = (lvl + 1) * 100
    j, n = "j%d" % lvl, "n%d" % lvl
    tick = [("expr", j + "++"), ("expr", n + "++"), out(B + 1)]
    pre, post = [], [out(B + 9)]
    if kind == "for":
        i = "i%d" % lvl
        pre = [("var", [(j, 0)])]
        main = ("for", ("var", [(i, 0)]), "%s < 3" % i, i + "++", tick + [outv(i)] + body + [out(B + 2)])
    elif kind == "while":
        pre = [("var", [(j, 0)])]
        main = ("while", "%s < 3" % j, tick + body + [out(B + 2)])
    elif kind == "dowhile":
        pre = [("var", [(j, 0)])]
        main = ("dowhile", tick + body + [out(B + 2)], "%s < 3" % j)
    elif kind == "forin":
        pre = [("var", [(j, 0)])]
        main = ("forin", "k%d" % lvl, "{a: 1, b: 2, c: 3}", tick + [outv("k%d" % lvl)] + body + [out(B + 2)])
    elif kind == "forof":
        pre = [("var", [(j, 0)])]
        main = ("forof", "v%d" % lvl, "[10, 20, 30]", tick + [outv("v%d" % lvl)] + body + [out(B + 2)])
    elif kind == "switch":
        main = ("switch", "s", [(0, [out(B + 1)]), (1, [out(B + 2)] + body + [out(B + 3)]),
                                (2, [out(B + 4), ("break", None)]), (None, [out(B + 5)])])
    elif kind == "sw_df_fall":
        main = ("switch", "z", [(None, [out(B + 1)]), (5, [out(B + 2)] + body + [out(B + 3), ("break", None)]),
                                (1, [out(B + 4)])])
    elif kind == "sw_df_hit":
        main = ("switch", "s", [(None, [out(B + 1)]), (5, [out(B + 2), ("break", None)]),
                                (1, [out(B + 3)] + body + [out(B + 4)]), (2, [out(B + 5)])])
    elif kind == "sw_dm_fall":
        main = ("switch", "z", [(0, [out(B + 1)]), (None, [out(B + 2)] + body + [out(B + 3)]),
                                (5, [out(B + 4), ("break", None)]), (1, [out(B + 5)])])
    elif kind == "sw_dm_hit":
        main = ("switch", "s", [(0, [out(B + 1)]), (None, [out(B + 2), ("break", None)]),
                                (1, [out(B + 3)] + body + [out(B + 4)])])
    elif kind == "sw_dl":
        main = ("switch", "z", [(0, [out(B + 1), ("break", None)]), (5, [out(B + 2)]),
                                (None, [out(B + 3)] + body + [out(B + 4)])])
    elif kind == "label":
        main = ("block", [out(B + 1)] + body + [out(B + 2)])
        if label is None:
            label = "M%d" % lvl
    elif kind == "if":
        if lvl % 2 == 0:
            main = ("if", "c", [out(B + 1)] + body + [out(B + 2)], [out(B + 3)])
        else:
            main = ("if", "!c", [out(B + 3)], [out(B + 1)] + body + [out(B + 2)])
    elif kind == "trycatch":
        e = "e%d" % lvl
        main = ("try", [out(B + 1)] + body + [out(B + 2)], (e, [out(B + 3), outv(e)]), None)
    elif kind == "tryfinally":
        main = ("try", [out(B + 1)] + body + [out(B + 2)], None, [out(B + 3)])
    elif kind == "block":
        main = ("block", [out(B + 1)] + body + [out(B + 2)])
    elif kind == "func":
        h = "h%d" % lvl
        main = ("var", [(h, ("fn", None, [], [out(B + 1)] + body + [out(B + 2), ("return", B + 8)]))])
        post = [outv(h + "()")] + post
    else:
        raise ValueError(kind)
    if label is not None:
        main = ("label", label, main)
    return pre + [main] + post


def exit_stmt(kind):
    if kind == "break":
        return ("break", None)
    if kind == "continue":
        return ("continue", None)
    if kind.startswith("lbreak"):
        return ("break", "L" + kind[6:])
    if kind.startswith("lcontinue"):
        return ("continue", "L" + kind[9:])
    if kind == "return":
        return ("return", 1)
    if kind == "throw":
        return ("throw", 55)
    raise ValueError(kind)


def skeleton_body(chain, exit_kind, pos):
    """Body of f() for a chain of constructs (outermost first), or None when the combination is
    not expressible (iteration positions without a loop) or is an ECMAScript early error."""
    loop_lvls = [i for i, k in enumerate(chain) if k in LOOPS]
    if exit_kind == "none":
        if pos != "bare":
            return None
        inner = [out(500)]
    else:
        ex = [out(EXIT_MARK), exit_stmt(exit_kind)]
        if pos == "bare":
            inner = ex + [out(501)]
        elif pos == "iter1":
            guard = ("j%d === 1" % loop_lvls[-1]) if loop_lvls else "c"
            inner = [out(500), ("if", guard, ex, None), out(501)]
        else:
            if not loop_lvls:
                return None
            inner = [out(500), ("if", "j%d === 2" % loop_lvls[-1], ex, None), out(501)]
    target = None
    if exit_kind.startswith("lbreak") or exit_kind.startswith("lcontinue"):
        target = int(exit_kind[-1])
        if target >= len(chain) or chain[target] == "block":   # a labelled plain block is the construct "label"
            return None
    body = inner
    for lvl in range(len(chain) - 1, -1, -1):
        body = construct(chain[lvl], lvl, body, "L%d" % lvl if lvl == target else None)
    if exit_kind == "throw":
        body = [("try", body, ("e9", [out(900), outv("e9")]), None)]
    body = [out(1)] + body + [out(2), ("return", 2)]
    if early_error(body, in_function=True):
        return None
    return body


def skeleton_source(body, ctx):
    return PRELUDE + stmt(("func", "f", [], body)) + " " + ctx + EPILOGUE


def skeleton_id(chain, exit_kind, pos, ctx):
    return "d%d|%s|%s|%s|%s" % (len(chain), ">".join(chain), exit_kind, pos, ctx)


def skeletons(chains, exits, positions=POSITIONS, contexts=CONTEXTS):
    """Yield (case_id, source) for every valid combination."""
    for chain in chains:
        for ex in exits:
            for pos in positions:
                body = skeleton_body(chain, ex, pos)
                if body is None:
                    continue
                fsrc = stmt(("func", "f", [], body))
                for ctx in contexts:
                    yield skeleton_id(chain, ex, pos, ctx), PRELUDE + fsrc + " " + ctx + EPILOGUE


def parse_skeleton_id(cid):
    d, chain, ex, pos, ctx = cid.split("|", 4)
    return chain.split(">"), ex, pos, ctx


def crossed(chain, exit_kind):
    """Constructs that the exit statement leaves abruptly (innermost first), for diagnostics."""
    n = len(chain)
    if exit_kind == "none":
        return []
    if exit_kind == "break":
        for i in range(n - 1, -1, -1):
            if chain[i] in LOOPS or chain[i] in SWITCHES:
                return list(reversed(chain[i:]))
        return []
    if exit_kind == "continue":
        for i in range(n - 1, -1, -1):
            if chain[i] in LOOPS:
                return list(reversed(chain[i + 1:]))
        return []
    if exit_kind.startswith("lbreak"):
        return list(reversed(chain[int(exit_kind[-1]):]))
    if exit_kind.startswith("lcontinue"):
        return list(reversed(chain[int(exit_kind[-1]) + 1:]))
    if exit_kind == "return":
        for i in range(n - 1, -1, -1):
            if chain[i] == "func":
                return list(reversed(chain[i + 1:]))
        return list(reversed(chain))
    if exit_kind == "throw":
        for i in range(n - 1, -1, -1):
            if chain[i] == "trycatch":
                return list(reversed(chain[i:]))
            if chain[i] == "func":
                pass
        return list(reversed(chain))
    return []
