"""Regex pattern AST enumeration by size (E1 grammar enumeration) for C09/C10/C20.

ASTs are the tuples of mc/oracle/regexref.py. `patterns(maxsize, atoms)` yields (size, source, ast)
for every distinct pattern source with at most `maxsize` AST nodes, smallest first.
"""
import itertools

from mc.oracle.regexref import to_src

ATOMS12 = [('char', 'a'), ('char', 'b'), ('dot',), ('class', False, [('a', 'b')]), ('class', True, [('a', 'a')]),
           ('esc', 'w'), ('esc', 'd'), ('bol',), ('eol',), ('wb',), ('nwb',), ('backref', 1)]
ATOMS16 = ATOMS12 + [('char', '1'), ('class', False, [('a', 'c')]), ('esc', 's'), ('backref', 2)]
QUANTS = [(0, None, True), (1, None, True), (0, 1, True), (0, None, False), (1, None, False), (0, 1, False),
          (2, 2, True), (1, 2, True), (0, 2, False), (2, None, True)]
WRAPS = ['group', 'ncgroup', 'la+', 'la-', 'lb+', 'lb-']
QUANTIFIABLE = {'char', 'dot', 'class', 'esc', 'group', 'ncgroup', 'backref'}


def _gen(size, atoms, memo):
    if size in memo:
        return memo[size]
    out = []
    if size == 1:
        out = list(atoms)
    else:
        for body in _gen(size - 1, atoms, memo):
            if body[0] in QUANTIFIABLE:
                for q in QUANTS:
                    out.append(('quant', q[0], q[1], q[2], body))
            out.append(('group', 0, body))
            if body[0] in ('alt', 'cat'):
                out.append(('ncgroup', body))
            out.append(('look', True, True, body))
            out.append(('look', True, False, body))
            out.append(('look', False, True, body))
            out.append(('look', False, False, body))
        for k in range(1, size - 1):
            for l in _gen(k, atoms, memo):
                for r in _gen(size - 1 - k, atoms, memo):
                    if l[0] != 'cat':
                        out.append(('cat', [l] + (r[1] if r[0] == 'cat' else [r])))
                    if l[0] != 'alt':
                        out.append(('alt', [l] + (r[1] if r[0] == 'alt' else [r])))
    memo[size] = out
    return out


def number(node, counter):
    t = node[0]
    if t == 'group':
        counter[0] += 1
        n = counter[0]
        return ('group', n, number(node[2], counter))
    if t == 'ncgroup':
        return ('ncgroup', number(node[1], counter))
    if t == 'look':
        return ('look', node[1], node[2], number(node[3], counter))
    if t == 'quant':
        return ('quant', node[1], node[2], node[3], number(node[4], counter))
    if t in ('cat', 'alt'):
        return (t, [number(x, counter) for x in node[1]])
    return node


def max_backref(node):
    t = node[0]
    if t == 'backref':
        return node[1]
    if t == 'group':
        return max_backref(node[2])
    if t == 'ncgroup':
        return max_backref(node[1])
    if t == 'look':
        return max_backref(node[3])
    if t == 'quant':
        return max_backref(node[4])
    if t in ('cat', 'alt'):
        return max([max_backref(x) for x in node[1]] or [0])
    return 0


def has_look(node):
    t = node[0]
    if t == 'look':
        return True
    if t == 'group':
        return has_look(node[2])
    if t == 'ncgroup':
        return has_look(node[1])
    if t == 'quant':
        return has_look(node[4])
    if t in ('cat', 'alt'):
        return any(has_look(x) for x in node[1])
    return False


def patterns(maxsize, atoms=ATOMS12, minsize=1):
    seen = set()
    memo = {}
    for sz in range(1, maxsize + 1):
        for ast in _gen(sz, atoms, memo):
            c = [0]
            a = number(ast, c)
            if max_backref(a) > c[0]:
                continue  # \n without group n is Annex B octal: outside the supported syntax
            src = to_src(a)
            if src in seen:
                continue
            seen.add(src)
            if sz >= minsize:
                yield sz, src, a


def subjects(alpha, maxlen):
    for n in range(maxlen + 1):
        for t in itertools.product(alpha, repeat=n):
            yield ''.join(t)
