"""Expression trees (nested tuples), an ECMA-262 minimal-parenthesis printer, a fully
parenthesised printer, a canonical S-expression rendering and a bounded enumerator.

Node forms
    ('v', name)                        leaf (identifier)
    ('bin', op, l, r)                  binary / logical / comma
    ('asg', op, target, value)         = and compound assignment
    ('cond', t, c, a)
    ('un', op, x)                      - + ! ~ typeof void delete
    ('pre', op, x)  ('post', op, x)    ++ --
    ('mem', x, name)  ('idx', x, e)
    ('call', f, (args...))  ('new', f, (args...) | None)      None = `new f` without argument list

Levels (ECMA-262 13.x grammar, higher binds tighter)
    20 primary   19 MemberExpression   18 CallExpression   17 `new` without arguments
    16 postfix (UpdateExpression)      15 prefix/unary      14 **   13 * / %   12 + -   11 shifts
    10 relational/in/instanceof   9 equality   8 &   7 ^   6 |   5 &&   4 ||   3 ?:   2 assignment   1 comma
"""

BIN_LEVEL = {",": 1, "||": 4, "&&": 5, "|": 6, "^": 7, "&": 8,
             "==": 9, "!=": 9, "===": 9, "!==": 9,
             "<": 10, "<=": 10, ">": 10, ">=": 10, "instanceof": 10, "in": 10,
             "<<": 11, ">>": 11, ">>>": 11, "+": 12, "-": 12, "*": 13, "/": 13, "%": 13, "**": 14}
BINOPS = list(BIN_LEVEL)
UNOPS = ["-", "+", "!", "~", "typeof", "void", "delete"]
ASGOPS = ["=", "+="]


def level(n):
    k = n[0]
    if k == "v":
        return 20
    if k == "bin":
        return BIN_LEVEL[n[1]]
    if k == "asg":
        return 2
    if k == "cond":
        return 3
    if k in ("un", "pre"):
        return 15
    if k == "post":
        return 16
    if k in ("mem", "idx"):
        return 18 if level(n[1]) == 18 else 19
    if k == "call":
        return 18
    if k == "new":
        return 17 if n[2] is None else 19
    raise ValueError(n)


def _p(n, minlevel):
    s = minimal(n)
    return s if level(n) >= minlevel else "(" + s + ")"


def _prefix(op, s):
    if op[0].isalpha() or s[:1] in "+-":
        return op + " " + s
    return op + s


def minimal(n):
    """Source text with the fewest parentheses the ECMA-262 expression grammar allows."""
    k = n[0]
    if k == "v":
        return n[1]
    if k == "bin":
        op, lv = n[1], BIN_LEVEL[n[1]]
        if op == "**":          # UpdateExpression ** ExponentiationExpression (right associative)
            return _p(n[2], 16) + " ** " + _p(n[3], 14)
        if op == ",":
            return _p(n[2], 1) + ", " + _p(n[3], 2)
        return _p(n[2], lv) + " " + op + " " + _p(n[3], lv + 1)
    if k == "asg":
        return _p(n[2], 17) + " " + n[1] + " " + _p(n[3], 2)
    if k == "cond":
        return _p(n[1], 4) + " ? " + _p(n[2], 2) + " : " + _p(n[3], 2)
    if k == "un":
        return _prefix(n[1], _p(n[2], 15))
    if k == "pre":
        return _prefix(n[1], _p(n[2], 15))
    if k == "post":
        return _p(n[2], 17) + n[1]
    if k == "mem":
        return _p(n[1], 18) + "." + n[2]
    if k == "idx":
        return _p(n[1], 18) + "[" + _p(n[2], 1) + "]"
    if k == "call":
        return _p(n[1], 18) + "(" + ", ".join(_p(a, 2) for a in n[2]) + ")"
    if k == "new":
        if n[2] is None:        # new NewExpression: operand is a MemberExpression or another arg-less new
            c = n[1]
            ok = level(c) >= 19 or (c[0] == "new" and c[2] is None)
            return "new " + (minimal(c) if ok else "(" + minimal(c) + ")")
        return "new " + _p(n[1], 19) + "(" + ", ".join(_p(a, 2) for a in n[2]) + ")"
    raise ValueError(n)


def full(n):
    """Every operator application wrapped in parentheses (leaves stay bare)."""
    k = n[0]
    if k == "v":
        return n[1]
    if k == "bin":
        return "(" + full(n[2]) + " " + n[1] + " " + full(n[3]) + ")"
    if k == "asg":
        return "(" + full(n[2]) + " " + n[1] + " " + full(n[3]) + ")"
    if k == "cond":
        return "(" + full(n[1]) + " ? " + full(n[2]) + " : " + full(n[3]) + ")"
    if k in ("un", "pre"):
        return "(" + _prefix(n[1], full(n[2])) + ")"
    if k == "post":
        return "(" + full(n[2]) + n[1] + ")"
    if k == "mem":
        return "(" + full(n[1]) + "." + n[2] + ")"
    if k == "idx":
        return "(" + full(n[1]) + "[" + full(n[2]) + "])"
    if k == "call":
        return "(" + full(n[1]) + "(" + ", ".join(full(a) for a in n[2]) + "))"
    if k == "new":
        c = full(n[1])
        if n[2] is None:
            return "(new " + c + ")"
        return "(new " + c + "(" + ", ".join(full(a) for a in n[2]) + "))"
    raise ValueError(n)


def sexp(n):
    """Canonical rendering used to compare trees ( `new f` and `new f()` are the same tree )."""
    k = n[0]
    if k == "v":
        return n[1]
    if k in ("bin", "asg"):
        return "(" + n[1] + " " + sexp(n[2]) + " " + sexp(n[3]) + ")"
    if k == "cond":
        return "(?: " + sexp(n[1]) + " " + sexp(n[2]) + " " + sexp(n[3]) + ")"
    if k == "un":
        return "(u" + n[1] + " " + sexp(n[2]) + ")"
    if k == "pre":
        return "(pre" + n[1] + " " + sexp(n[2]) + ")"
    if k == "post":
        return "(post" + n[1] + " " + sexp(n[2]) + ")"
    if k == "mem":
        return "(. " + sexp(n[1]) + " " + n[2] + ")"
    if k == "idx":
        return "([] " + sexp(n[1]) + " " + sexp(n[2]) + ")"
    if k in ("call", "new"):
        return "(" + k + " " + " ".join(sexp(a) for a in (n[1],) + tuple(n[2] or ())) + ")"
    raise ValueError(n)


def subexprs(n, path=()):
    """All (path, node) pairs of operator applications and leaves, pre-order."""
    yield path, n
    k = n[0]
    if k == "v":
        return
    if k in ("bin", "asg"):
        kids = [(2, n[2]), (3, n[3])]
    elif k == "cond":
        kids = [(1, n[1]), (2, n[2]), (3, n[3])]
    elif k in ("un", "pre", "post"):
        kids = [(2, n[2])]
    elif k == "mem":
        kids = [(1, n[1])]
    elif k == "idx":
        kids = [(1, n[1]), (2, n[2])]
    else:
        kids = [(1, n[1])]
    for i, c in kids:
        yield from subexprs(c, path + (i,))
    if k in ("call", "new") and n[2]:
        for j, a in enumerate(n[2]):
            yield from subexprs(a, path + (2, j))


# ---------------------------------------------------------------------------------------------
# Enumeration.  An operator is (name, slots, build); a slot kind says which leaf fills the slot when
# no operator is nested there and which operators may be nested there (generator rule: an
# assignment / update target is a variable or a property reference).
#   n    numeric variable          ref  numeric variable; only mem/idx may nest
#   fn   callee of a call (f)      K    callee of new (K)        obj object (o)     arr array (r)
#   key  left side of `in` (s)     del  operand of delete: o.p as an atomic leaf (identifier is a strict-mode error)

NUMVARS = ["a", "b", "c", "d", "e", "g", "h"]
LEAF = {"fn": ("v", "f"), "K": ("v", "K"), "obj": ("v", "o"), "arr": ("v", "r"), "key": ("v", "s"),
        "del": ("mem", ("v", "o"), "p")}


def _ops():
    ops = []
    for op in BINOPS:
        slots = ("n", "n")
        if op == "in":
            slots = ("key", "obj")
        elif op == "instanceof":
            slots = ("obj", "K")
        ops.append((op, slots, lambda k, op=op: ("bin", op, k[0], k[1])))
    for op in ASGOPS:
        ops.append((op, ("ref", "n"), lambda k, op=op: ("asg", op, k[0], k[1])))
    ops.append(("?:", ("n", "n", "n"), lambda k: ("cond", k[0], k[1], k[2])))
    for op in UNOPS:
        ops.append(("u" + op, ("del",) if op == "delete" else ("n",), lambda k, op=op: ("un", op, k[0])))
    for op in ("++", "--"):
        ops.append(("pre" + op, ("ref",), lambda k, op=op: ("pre", op, k[0])))
    for op in ("++", "--"):
        ops.append(("post" + op, ("ref",), lambda k, op=op: ("post", op, k[0])))
    ops.append(("new", ("K",), lambda k: ("new", k[0], None)))
    ops.append(("new()", ("K", "n"), lambda k: ("new", k[0], (k[1],))))
    ops.append(("call", ("fn", "n"), lambda k: ("call", k[0], (k[1],))))
    ops.append(("mem", ("obj",), lambda k: ("mem", k[0], "p")))
    ops.append(("idx", ("arr", "n"), lambda k: ("idx", k[0], k[1])))
    return ops


OPS = _ops()
OPNAMES = [o[0] for o in OPS]
OPBY = {o[0]: o for o in OPS}
# reduced set used for the quick-tier triples (one or two representatives per precedence family)
REDUCED = [",", "=", "?:", "||", "&&", "==", "<", "in", "+", "*", "**", "u-", "utypeof", "post++", "new()", "call", "mem"]


def _allowed(slot, opname):
    if slot.endswith("!"):      # object of a property reference used as assignment / update target: a leaf
        return False            # ((a + b).p = c is a TypeError in strict mode: primitives have no settable properties)
    if slot == "ref":
        return opname in ("mem", "idx")
    return True


class _Hole:
    def __init__(self, slot):
        self.slot = slot


def shapes(names, depth_ops, root_names=None):
    """All trees with exactly depth_ops operators from `names` (as nested (opname, kids) with _Hole leaves);
    root_names restricts the operator at the root."""
    out = []

    def build(nops, slot):
        """Yield (tree, used_ops) for a sub-tree in a slot with exactly nops operators."""
        if nops == 0:
            yield _Hole(slot)
            return
        for name in (names if (root_names is None or nops < depth_ops) else root_names):
            if not _allowed(slot, name):
                continue
            _, slots, _ = OPBY[name]
            if slot == "ref":
                slots = (slots[0] + "!",) + slots[1:]
            for dist in _distribute(nops - 1, len(slots)):
                yield from _fill(name, slots, dist, 0, [])

    def _fill(name, slots, dist, i, acc):
        if i == len(slots):
            yield (name, tuple(acc))
            return
        for sub in build(dist[i], slots[i]):
            yield from _fill(name, slots, dist, i + 1, acc + [sub])

    for t in build(depth_ops, "n"):
        out.append(t)
    return out


def _distribute(n, k):
    if k == 1:
        yield (n,)
        return
    for i in range(n + 1):
        for rest in _distribute(n - i, k - 1):
            yield (i,) + rest


def realise(shape):
    """Turn a shape into a concrete tree: numeric holes get a, b, c ... in source order; a member
    used as callee of a call is .q (a method), as callee of new is .K (a constructor)."""
    counter = [0]

    def go(t):
        if isinstance(t, _Hole):
            if t.slot in ("n", "ref"):
                v = ("v", NUMVARS[counter[0]])
                counter[0] += 1
                return v
            return LEAF[t.slot.rstrip("!")]
        name, kids = t
        built = [go(c) for c in kids]
        node = OPBY[name][2](built)
        if node[0] == "call" and node[1][0] == "mem":
            node = ("call", ("mem", node[1][1], "q"), node[2])
        if node[0] == "new" and node[1][0] == "mem":
            node = ("new", ("mem", node[1][1], "K"), node[2])
        return node

    return go(shape)


def shape_ops(shape):
    """Operator names of a shape in pre-order (root first)."""
    if isinstance(shape, _Hole):
        return []
    out = [shape[0]]
    for c in shape[1]:
        out.extend(shape_ops(c))
    return out


def trees(names, nops, root_names=None):
    """[(label, tree)] for every tree with nops operators; label = operator names root-first plus shape path."""
    res = []
    for sh in shapes(names, nops, root_names):
        res.append((shape_label(sh), realise(sh)))
    return res


def shape_label(sh):
    if isinstance(sh, _Hole):
        return "_"
    return sh[0] + "(" + " ".join(shape_label(c) for c in sh[1]) + ")"


import re as _re

NUMVAL = {"a": 2, "b": 3, "c": 5, "d": 7, "e": 11, "g": 13, "h": 17}
_ident = _re.compile(r"[A-Za-z]+")


def prelude_epilogue(expr_src):
    """Declarations of exactly the operands the expression mentions, and the state log after it."""
    used = set(_ident.findall(expr_src))
    nums = [v for v in NUMVARS if v in used]
    decl = ["%s=%d" % (v, NUMVAL[v]) for v in nums]
    if "s" in used:
        decl.append('s="p"')
    if "r" in used:
        decl.append("r=[43,47,53,59,61,67,71,73,79]")
    pre = ("var " + ",".join(decl) + ";") if decl else ""
    if "f" in used:
        pre += "function f(x){return x*23}"
    if "K" in used or "o" in used:
        pre += "function K(x){this.p=x+31}"
    if "o" in used:
        pre += "var o=new K(6);o.q=function(x){return this.p+x};o.K=K;"
    log = nums + (["o.p"] if "o" in used else [])
    epi = ";__out([" + ",".join(log) + "]);" + ("__out(r);" if "r" in used else "")
    return pre, epi


PRELUDE, EPILOGUE = prelude_epilogue("a b c d e g h s r f K o")


def program(expr_src):
    pre, epi = prelude_epilogue(expr_src)
    return pre + "__out(" + expr_src + ")" + epi
