"""A small independent JavaScript tokenizer (ES5 subset + arrows, ** and 0b/0o literals) used by the
C13 layout and rejection families. It is NOT the engine's lexer.

tokenize(src) -> list of (kind, text) with kinds
    ws  (whitespace run without line terminator)   nl (whitespace run containing a line terminator)
    lc  (// comment, without the newline)          bc (/* comment */)
    id  kw  num  str  re  p (punctuator)
Every character of the source belongs to exactly one token: "".join(text) == src.
Raises TokError on anything it does not understand (such programs are left out of the corpus).
"""
import re


class TokError(Exception):
    pass


KEYWORDS = set("break case catch continue debugger default delete do else finally for function if in instanceof "
               "new return switch this throw try typeof var void while with null true false of".split())
# a `/` after one of these keywords starts a regular expression
RE_AFTER_KW = set("return typeof instanceof in of new delete void throw case do else".split())
PUNCT = [">>>=", "...", "===", "!==", "**=", "<<=", ">>=", ">>>", "=>", "==", "!=", "<=", ">=", "&&", "||", "++", "--",
         "+=", "-=", "*=", "/=", "%=", "&=", "|=", "^=", "<<", ">>", "**", "{", "}", "(", ")", "[", "]", ";", ",", "<", ">",
         "+", "-", "*", "/", "%", "&", "|", "^", "!", "~", "?", ":", "=", "."]
_num = re.compile(r"0[xX][0-9a-fA-F]+|0[oO][0-7]+|0[bB][01]+|(?:\d+\.?\d*|\.\d+)(?:[eE][+-]?\d+)?")
_id = re.compile(r"[A-Za-z_$][A-Za-z0-9_$]*")
_ws = re.compile(r"[ \t\r\n\v\f]+")


def tokenize(src):
    out = []
    i, n = 0, len(src)
    prev = None          # last significant token (kind, text)
    while i < n:
        ch = src[i]
        m = _ws.match(src, i)
        if m:
            t = m.group()
            out.append(("nl" if ("\n" in t or "\r" in t) else "ws", t))
            i = m.end()
            continue
        if src.startswith("//", i):
            j = src.find("\n", i)
            j = n if j < 0 else j
            out.append(("lc", src[i:j]))
            i = j
            continue
        if src.startswith("/*", i):
            j = src.find("*/", i + 2)
            if j < 0:
                raise TokError("unterminated comment")
            out.append(("bc", src[i:j + 2]))
            i = j + 2
            continue
        if ch in "'\"":
            j = i + 1
            while True:
                if j >= n or src[j] == "\n":
                    raise TokError("unterminated string")
                if src[j] == "\\":
                    j += 2
                    continue
                if src[j] == ch:
                    break
                j += 1
            tok = ("str", src[i:j + 1])
        elif ch.isdigit() or (ch == "." and i + 1 < n and src[i + 1].isdigit()):
            m = _num.match(src, i)
            j = m.end() - 1
            if j + 1 < n and (src[j + 1].isalnum() or src[j + 1] in "_$"):
                raise TokError("identifier directly after number")
            tok = ("num", m.group())
        elif ch == "`":
            raise TokError("template literal")
        elif _id.match(src, i):
            t = _id.match(src, i).group()
            j = i + len(t) - 1
            tok = ("kw" if t in KEYWORDS else "id", t)
        elif ch == "/" and _regex_allowed(prev):
            j = i + 1
            incls = False
            while True:
                if j >= n or src[j] == "\n":
                    raise TokError("unterminated regex")
                c = src[j]
                if c == "\\":
                    j += 2
                    continue
                if c == "[":
                    incls = True
                elif c == "]":
                    incls = False
                elif c == "/" and not incls:
                    break
                j += 1
            while j + 1 < n and src[j + 1].isalpha():
                j += 1
            tok = ("re", src[i:j + 1])
        else:
            for p in PUNCT:
                if src.startswith(p, i):
                    j = i + len(p) - 1
                    tok = ("p", p)
                    break
            else:
                raise TokError("unexpected character %r" % ch)
        out.append(tok)
        prev = tok
        i = j + 1
    return out


def _regex_allowed(prev):
    if prev is None:
        return True
    k, t = prev
    if k in ("id", "num", "str", "re"):
        return False
    if k == "kw":
        return t in RE_AFTER_KW
    return t not in (")", "]", "}", "++", "--")


def significant(toks):
    return [t for t in toks if t[0] not in ("ws", "nl", "lc", "bc")]
