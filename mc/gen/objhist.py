"""Generators for C08: operation histories over a small object graph, and the call-form product.

A *history program* declares the state variables, defines one observation function `obs()` and then
executes the statements of the history one by one; after every statement it logs ONE array of
primitives: [result of the statement, probe_1, ..., probe_N]. The same text runs on V8 (reference)
and on the engine under test.
"""

KEYS = ["a", "b", "c", "d", "f", "g", "k", "m"]

# ------------------------------------------------------------------ alphabet
# (label == statement text; every statement is an expression so that its value is observed too)
FULL = [
    # creation
    "o1 = {}",
    "o1 = {a: 1, get b(){ return this.a }, set b(v){ this.c = v }}",
    "o2 = {d: 4, __proto__: o1}",
    "o2 = {get a(){ return 5 }}",
    "o2 = Object.create(o1)",
    "o3 = Object.create(null)",
    "o3 = Object.create(o2)",
    "o2 = new F1()",
    "o3 = new F2()",
    "o1 = new F2()",
    "o3 = o1",
    # set (identifier, string, computed key; data, own setter, inherited setter)
    "o1.a = 1",
    "o2.a = 2",
    "o3.a = 3",
    'o1["b"] = 3',
    "o2[k] = 4",
    "o1.b = 9",
    "o2.b = 8",
    "o2.c = 6",
    "o3.k = 3",
    "o1.d = o2",
    "o3.g += 1",
    "o2.m = F1.prototype.m",
    # delete
    "delete o1.a",
    "delete o2.a",
    "delete o1.b",
    "delete o3[k]",
    "delete F1.prototype.m",
    # define
    'Object.defineProperty(o1, "d", {get: function(){ return 7 }, enumerable: true, configurable: true})',
    'Object.defineProperty(o2, "a", {get: function(){ return this.g }, set: function(v){ this.d = v }, '
    'enumerable: true, configurable: true})',
    'Object.defineProperty(o1, "c", {value: 8, writable: true, enumerable: true, configurable: true})',
    # enumerability: hidden data property, hidden by default, made visible again
    'Object.defineProperty(o1, "a", {value: 2, writable: true, enumerable: false, configurable: true})',
    'Object.defineProperty(o1, "a", {value: 2, writable: true, enumerable: true, configurable: true})',
    'Object.defineProperty(o2, "k", {value: 3, writable: true, configurable: true})',
    # re-link
    "Object.setPrototypeOf(o2, o1)",
    "Object.setPrototypeOf(o2, null)",
    "Object.setPrototypeOf(o3, o2)",
    "Object.setPrototypeOf(o1, o3)",
    "Object.setPrototypeOf(o3, arr)",
    # constructors' prototype objects
    "F1.prototype = o1",
    "F1.prototype.k = 5",
    "F2.prototype = Object.create(F1.prototype)",
    "F2.prototype.a = 7",
    "F1.prototype = 5",
    'F2.prototype = "str"',
    "F2.prototype = null",
    # copy
    "Object.assign(o3, o1)",
    "Object.assign(o1, o2)",
    # the array
    "arr.a = 5",
]

CORE = [
    "o1 = {a: 1, get b(){ return this.a }, set b(v){ this.c = v }}",
    "o2 = Object.create(o1)",
    "o3 = Object.create(null)",
    "o2 = new F1()",
    "o3 = new F2()",
    "o1.a = 1",
    "o2.a = 2",
    "o1.b = 9",
    "o2.b = 8",
    "delete o1.a",
    "delete o2.a",
    'Object.defineProperty(o1, "d", {get: function(){ return 7 }, enumerable: true, configurable: true})',
    "Object.setPrototypeOf(o2, o1)",
    "Object.setPrototypeOf(o2, null)",
    "Object.setPrototypeOf(o3, o2)",
    "F1.prototype = o1",
    "F1.prototype.k = 5",
    "F2.prototype = Object.create(F1.prototype)",
    "Object.assign(o3, o1)",
    "o2.m = F1.prototype.m",
    'Object.defineProperty(o1, "a", {value: 2, writable: true, enumerable: false, configurable: true})',
    'Object.defineProperty(o1, "a", {value: 2, writable: true, enumerable: true, configurable: true})',
]
assert all(c in FULL for c in CORE) and len(set(FULL)) == len(FULL)

# ------------------------------------------------------------------ observation
PER_OBJECT = 4 * len(KEYS) + 9


def probe_names():
    """Names of the positions of one observation vector (position 0 = value of the statement)."""
    names = ["statement result"]
    for o in ("o1", "o2", "o3"):
        for k in KEYS:
            names += ["read %s.%s" % (o, k), '"%s" in %s' % (k, o), 'hasOwnProperty.call(%s,"%s")' % (o, k),
                      'getOwnPropertyDescriptor(%s,"%s") kind' % (o, k)]
        names += ["Object.keys(%s)" % o, "for-in %s (own keys)" % o, "Object.entries(%s)" % o,
                  "getPrototypeOf(%s) identity" % o, "%s instanceof F1" % o, "%s instanceof F2" % o,
                  "%s.constructor" % o, "typeof %s.hasOwnProperty" % o, "%s.m() this" % o]
    names += ["F1.prototype identity", "F2.prototype identity", "getPrototypeOf(F1.prototype)",
              "getPrototypeOf(F2.prototype)", "F1.prototype.constructor",
              "getPrototypeOf(new F1)", "new F1 instanceof F1", "new F1 instanceof F2", "read (new F1).a",
              "read (new F1).k", "read (new F1).f", "typeof (new F1).m", "Object.keys(new F1)",
              "getPrototypeOf(new F2)", "new F2 instanceof F1", "read (new F2).k", "typeof (new F2).m",
              "read (new F2).g", "read arr.a", "Object.keys(arr)"]
    return names


N_GLOBAL = 20
N_PROBES = 1 + 3 * PER_OBJECT + N_GLOBAL

PROLOGUE = """var o1 = {}, o2 = {}, o3 = {};
function F1(){ this.f = 1 }
function F2(){ this.g = 2 }
F1.prototype.m = function(){ return this };
var arr = [];
var k = "a";
var KEYS = ["a","b","c","d","f","g","k","m"];
var OP = Object.prototype, HOP = OP.hasOwnProperty, AP = Array.prototype, P1 = F1.prototype, P2 = F2.prototype;
function ids(v) {
  if (v === null) return "null";
  var s = "";
  if (v === o1) s += "+o1";
  if (v === o2) s += "+o2";
  if (v === o3) s += "+o3";
  if (v === OP) s += "+OP";
  if (v === P1) s += "+P1";
  if (v === P2) s += "+P2";
  if (v === F1.prototype) s += "+F1p";
  if (v === F2.prototype) s += "+F2p";
  if (v === arr) s += "+arr";
  if (v === AP) s += "+AP";
  return s === "" ? "other" : s;
}
function rd(v) {
  var t = typeof v;
  if (t === "function") return v === F1 ? "F1" : v === F2 ? "F2" : v === Object ? "Object" : "fn";
  if (t === "object") return ids(v);
  return v;
}
function str(v) {
  var t = typeof v;
  if (t === "string") return v;
  if (t === "number" || t === "boolean") return "" + v;
  if (t === "undefined") return "u";
  return rd(v);
}
function one(r, o) {
  var base = r.length, i, key, d, q, s, en;
  try {
    for (i = 0; i < 8; i++) {
      key = KEYS[i];
      r.push(rd(o[key]));
      r.push(key in o);
      r.push(HOP.call(o, key));
      d = Object.getOwnPropertyDescriptor(o, key);
      r.push(d === undefined ? "none" : (typeof d.get === "function" || typeof d.set === "function") ? "acc" : "data");
    }
    r.push(Object.keys(o).join("."));
    s = [];
    for (q in o) { if (HOP.call(o, q)) s.push(q) }
    r.push(s.join("."));
    en = Object.entries(o);
    s = [];
    for (i = 0; i < en.length; i++) s.push(en[i][0] + "=" + str(en[i][1]));
    r.push(s.join("."));
    r.push(ids(Object.getPrototypeOf(o)));
    r.push(o instanceof F1);
    r.push(o instanceof F2);
    r.push(rd(o.constructor));
    r.push(typeof o.hasOwnProperty);
    r.push(typeof o.m === "function" ? ids(o.m()) : "nofn");
  } catch (ex) { while (r.length < base + %(per)d) r.push("throw:" + ex.name) }
}
function isobj(v) { return (typeof v === "object" && v !== null) || typeof v === "function" }
function obs(st) {
  var r = [st], base, x, y;
  one(r, o1); one(r, o2); one(r, o3);
  base = r.length;
  try {
    r.push(ids(F1.prototype));
    r.push(ids(F2.prototype));
    r.push(isobj(F1.prototype) ? ids(Object.getPrototypeOf(F1.prototype)) : "prim:" + typeof F1.prototype);
    r.push(isobj(F2.prototype) ? ids(Object.getPrototypeOf(F2.prototype)) : "prim:" + typeof F2.prototype);
    r.push(isobj(F1.prototype) ? rd(F1.prototype.constructor) : "prim:" + typeof F1.prototype);
    x = new F1();
    r.push(ids(Object.getPrototypeOf(x)));
    r.push(x instanceof F1);
    r.push(x instanceof F2);
    r.push(rd(x.a));
    r.push(rd(x.k));
    r.push(rd(x.f));
    r.push(typeof x.m);
    r.push(Object.keys(x).join("."));
    y = new F2();
    r.push(ids(Object.getPrototypeOf(y)));
    r.push(y instanceof F1);
    r.push(rd(y.k));
    r.push(typeof y.m);
    r.push(rd(y.g));
    r.push(rd(arr.a));
    r.push(Object.keys(arr).join("."));
  } catch (ex) { while (r.length < base + %(glob)d) r.push("throw:" + ex.name) }
  return r;
}
var st;
""" % {"per": PER_OBJECT, "glob": N_GLOBAL}

STEP_OBS = 'try { st = rd(%s) } catch (ex) { st = "throw:" + ex.name }\n__out(obs(st));\n'
STEP_SILENT = 'try { st = rd(%s) } catch (ex) { st = "throw:" + ex.name }\n'

SEP = " ;; "
EMPTY = "(empty history)"


def program(history, every=True):
    """every=True : log the initial observation and one observation after every statement.
    every=False: log only the observation after the LAST statement (the new transition of a BFS
    path whose prefixes are explored as cases of their own)."""
    if every:
        body = '__out(obs("init"));\n' + "".join(STEP_OBS % s for s in history)
    else:
        body = "".join(STEP_SILENT % s for s in history[:-1]) + STEP_OBS % history[-1]
    return PROLOGUE + body + "0"


def case_id(history):
    return SEP.join(history) if history else EMPTY


def product(alpha, depth):
    hs = [()]
    for _ in range(depth):
        hs = [h + (a,) for h in hs for a in alpha]
    return hs


def upto(alpha, depth):
    out = []
    for d in range(depth + 1):
        out += product(alpha, d)
    return out


def vectors(outcome):
    """outcome string -> (list of vectors, each a list of serialised probes; tail).
    No probe value contains ',' ';' '[' or ']' (joins use '.'), so plain splitting is exact."""
    log, _, tail = outcome.rpartition("|")
    vecs = []
    for ent in log.split(";"):
        if ent.startswith("[") and ent.endswith("]"):
            vecs.append(ent[1:-1].split(","))
        elif ent:
            vecs.append([ent])
    return vecs, tail


# ================================================================== call forms
# (label, call expression, callee expression whose length/name is read, setup)
CALL_FORMS = [
    ("plain", "f(ARGS)", "f", ""),
    ("method", "o.f(ARGS)", "o.f", ""),
    ("computed", 'o["f"](ARGS)', 'o["f"]', ""),
    ("call", "f.call(t, ARGS)", "f", ""),
    ("apply", "f.apply(t, [ARGS])", "f", ""),
    ("bind", "f.bind(t)(ARGS)", "f.bind(t)", ""),
    ("bind_call", "f.bind(t).call(u, ARGS)", "f.bind(t)", ""),
    ("bind_partial", "f.bind(t, 7)(ARGS)", "f.bind(t, 7)", ""),
    ("new", "new f(ARGS)", "f", ""),
    ("callback", "[1].map(f)[0]", "f", ""),
    ("getter", "o.gp", "f", 'Object.defineProperty(o, "gp", {get: f, enumerable: true, configurable: true});\n'),
    ("setter", "(o.sp = 1)", "f", 'Object.defineProperty(o, "sp", {set: f, enumerable: true, configurable: true});\n'),
]

FUNCTION_KINDS = [
    ("declaration", "function f(a, b) { BODY }"),
    ("expression", "var f = function (a, b) { BODY };"),
    ("named_expression", "var f = function g(a, b) { BODY };"),
    ("arrow_top_level", "var f = (a, b) => { BODY };"),
    ("arrow_in_method", "var holder = {mk: function () { return (a, b) => { BODY } }}; var f = holder.mk(9, 8, 6);"),
    ("arrow_in_constructor", "function C() { this.af = (a, b) => { BODY } } var inst = new C(9); var f = inst.af;"),
    ("arrow_in_arrow_in_method", "var holder = {mk: function () { return () => (a, b) => { BODY } }}; var f = holder.mk(9, 8, 6)();"),
    ("arrow_in_arrow_in_arrow_in_function", "function mk3() { return () => () => (a, b) => { BODY } } var f = mk3.call(w, 9, 8, 6)()();"),
    ("arrow_in_callback_in_method", "var holder = {mk: function () { return [1].map(() => (a, b) => { BODY })[0] }}; var f = holder.mk(9, 8, 6);"),
    ("getter_returning_arrow", "var holder = {get mk() { return (a, b) => { BODY } }}; var f = holder.mk;"),
    ("method_shorthand", "var holder = {f(a, b) { BODY }}; var f = holder.f;"),
    ("bound", "function f0(a, b) { BODY } var f = f0.bind(w);"),
]

# (label, body, post-call pushes, primitive thisArgs?)
CALL_PROBES = [
    ("this_identity", "L.push(who(this)); return 0", "", False),
    ("this_primitive", "L.push(typeof this); return 0", "", True),
    ("arguments_length", "L.push(arguments.length); return 0", "", False),
    ("arguments_values", "L.push(p(arguments[0])); L.push(p(arguments[1])); L.push(p(arguments[2])); return 0", "", False),
    ("parameters", "L.push(p(a)); L.push(p(b)); return 0", "", False),
    ("function_length", "return 0", "L.push(CALLEE.length);", False),
    ("function_name", "return 0", "L.push(CALLEE.name);", False),
    ("prototype_property", "return 0", "L.push(typeof CALLEE.prototype);", False),
    ("returns_object", "return RO", "", False),
    ("returns_primitive", "return 5", "", False),
]

CALL_PROLOGUE = """var TOP = this, L = [];
var t = %(t)s, u = %(u)s, w = {}, o = {}, RO = {}, holder, inst;
function who(x) {
  %(top)sif (x === undefined) return "undefined";
  if (x === null) return "null";
  if (typeof x !== "object" && typeof x !== "function") return typeof x;
  if (x === t) return "t";
  if (x === u) return "u";
  if (x === w) return "w";
  if (x === o) return "o";
  if (x === RO) return "RO";
  if (x === holder) return "holder";
  if (x === inst) return "inst";
  if (x === TOP) return "top";
  return typeof x;
}
function p(x) { return (typeof x === "object" || typeof x === "function") ? who(x) : x }
"""

NEW_EXTRA = ("  try { L.push(res instanceof f) } catch (ex) { L.push(\"throw:\" + ex.name) }\n"
             "  try { L.push(Object.getPrototypeOf(res) === f.prototype) } catch (ex) { L.push(\"throw:\" + ex.name) }\n")


def call_program(form, kind, probe):
    flabel, call, callee, setup = form
    klabel, kdef = kind
    plabel, body, post, prim = probe
    src = CALL_PROLOGUE % {"t": "5" if prim else "{}", "u": '"s"' if prim else "{}",
                           "top": 'if (x === TOP) return "top";\n  ' if klabel == "arrow_top_level" else ""}
    if klabel == "arrow_top_level" and plabel == "this_primitive":
        # the script-level this is host defined (the engine has undefined, V8 the global object): neutralised
        body = body.replace("typeof this", '(this === TOP ? "top" : typeof this)')
    src += kdef.replace("BODY", body) + "\no.f = f;\n" + setup
    src += "var res;\ntry {\n  res = " + call.replace("ARGS", "1, 2") + ";\n  L.push(p(res));\n"
    if flabel == "new":
        src += NEW_EXTRA
    src += '} catch (ex) { L.push("throw:" + ex.name) }\n'
    if post:
        src += 'try { ' + post.replace("CALLEE", callee) + ' } catch (ex) { L.push("throw:" + ex.name) }\n'
    return src + "__out(L);\n0"


def call_cases():
    out = []
    for form in CALL_FORMS:
        for kind in FUNCTION_KINDS:
            for probe in CALL_PROBES:
                cid = "call form=%s kind=%s probe=%s" % (form[0], kind[0], probe[0])
                out.append((cid, {"src": call_program(form, kind, probe), "tl": 30,
                                  "form": form[0], "kind": kind[0], "probe": probe[0]}))
    return out


# natives: (label, definition, args, t, u, o, record after the call)
NATIVES = [
    ("Array.prototype.push", "var f = [].push;", "1, 2", "[]", "[]", "[]",
     "L.push(t.length); L.push(u.length); L.push(o.length);"),
    ("Math.max", "var f = Math.max;", "1, 2", "{}", "{}", "{}", ""),
    ("Object.prototype.hasOwnProperty", "var f = Object.prototype.hasOwnProperty;", '"x", 2', "{x: 1}", "{}", "{y: 1}", ""),
    ("Array.prototype.join", "var f = [].join;", '"-", 2', "[1, 2]", "[4]", "[3]", ""),
]
NATIVE_FORMS = [f for f in CALL_FORMS if f[0] not in ("callback", "getter", "setter")]
NATIVE_PROBES = [("effect", ""), ("function_length", "L.push(CALLEE.length);"), ("function_name", "L.push(CALLEE.name);"),
                 ("typeof", "L.push(typeof CALLEE);")]

NATIVE_PROLOGUE = """var L = [];
var t = %s, u = %s, o = %s;
function p(x) { return (typeof x === "object" && x !== null) ? (x === t ? "t" : x === u ? "u" : x === o ? "o" : "object") : typeof x === "function" ? "function" : x }
"""


def native_program(form, nat, probe):
    flabel, call, callee, _ = form
    nlabel, ndef, args, t, u, o, rec = nat
    plabel, post = probe
    src = NATIVE_PROLOGUE % (t, u, o) + ndef + "\no.f = f;\nvar res;\n"
    src += "try {\n  res = " + call.replace("ARGS", args) + ";\n  L.push(p(res));\n  " + rec + "\n"
    src += '} catch (ex) { L.push("throw:" + ex.name) }\n'
    if post:
        src += 'try { ' + post.replace("CALLEE", callee) + ' } catch (ex) { L.push("throw:" + ex.name) }\n'
    return src + "__out(L);\n0"


def native_cases():
    out = []
    for form in NATIVE_FORMS:
        for nat in NATIVES:
            for probe in NATIVE_PROBES:
                cid = "call form=%s kind=native:%s probe=%s" % (form[0], nat[0], probe[0])
                out.append((cid, {"src": native_program(form, nat, probe), "tl": 30,
                                  "form": form[0], "kind": "native:" + nat[0], "probe": probe[0]}))
    return out
