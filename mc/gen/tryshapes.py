"""Program generators for C07 (exceptions / try-catch-finally). Self-contained.

Family A  throw sites x handler placement x expression context x handler form x tail
Family B  try shapes {try exit} x {catch exit} x {finally exit} x {enclosing}, and two-deep nesting

All generated programs are strict-mode clean, terminate, and log only primitives or small tagged
arrays of primitives.  A "\\x01" byte marks the start of the line on which the throw happens (used by the
shift-invariance family); `strip()` removes it.
"""

MARK = "\x01"


def strip(src):
    return src.replace(MARK, "")


# ------------------------------------------------------------------------------------------------
# Family A: throw sites
# ------------------------------------------------------------------------------------------------

def _chk_prim(lit):
    return ['__out(["ty", typeof e]);', '__out(["id", e === %s]);' % lit]


def _chk_ident(var, extra=()):
    return ['__out(["ty", typeof e]);', '__out(["id", e === %s]);' % var] + list(extra)


def _chk_err(ctor, msg=None, ident=None):
    out = ['__out(["ty", typeof e]);', '__out(["isE", e instanceof Error]);',
           '__out(["isC", e instanceof %s]);' % ctor, '__out(["nm", e.name]);', '__out(["tm", typeof e.message]);']
    if msg is not None:
        out.append('__out(["msg", e.message === "%s"]);' % msg)
    if ident is not None:
        out.append('__out(["id", e === %s]);' % ident)
    return out


class Site:
    __slots__ = ("name", "kind", "code", "setup", "check", "mark", "ctor", "group")

    def __init__(self, name, kind, code, setup=(), check=(), mark="site", ctor=None, group=""):
        self.name = name      # stable label
        self.kind = kind      # 'stmt' (a statement) or 'expr' (an expression that throws when evaluated)
        self.code = code
        self.setup = list(setup)
        self.check = list(check)
        self.mark = mark      # 'site': the throw happens on the line of `code`; 'setup': on the last setup line
        self.ctor = ctor      # expected error constructor (None for thrown non-errors)
        self.group = group    # throw-statement | runtime | builtin | callback | accessor | conversion | call


def _sites():
    S = []
    # --- throw statements
    S.append(Site("throw_num", "stmt", "throw 1;", check=_chk_prim("1"), group="throw-statement"))
    S.append(Site("throw_str", "stmt", 'throw "s";', check=_chk_prim('"s"'), group="throw-statement"))
    S.append(Site("throw_null", "stmt", "throw null;", check=_chk_prim("null"), group="throw-statement"))
    S.append(Site("throw_undefined", "stmt", "throw undefined;", check=_chk_prim("undefined"), group="throw-statement"))
    S.append(Site("throw_true", "stmt", "throw true;", check=_chk_prim("true"), group="throw-statement"))
    S.append(Site("throw_objlit", "stmt", "throw {k: 1};", check=['__out(["ty", typeof e]);', '__out(["k", e.k]);'],
                  group="throw-statement"))
    S.append(Site("throw_obj", "stmt", "throw T;", setup=["var T = {k: 1};"],
                  check=_chk_ident("T", ['__out(["k", e.k]);']), group="throw-statement"))
    S.append(Site("throw_arr", "stmt", "throw TA;", setup=["var TA = [1, 2];"],
                  check=_chk_ident("TA", ['__out(["k", e.length]);']), group="throw-statement"))
    S.append(Site("throw_fn", "stmt", "throw TF;", setup=["function TF() {}"], check=_chk_ident("TF"),
                  group="throw-statement"))
    S.append(Site("throw_new_Error", "stmt", 'throw new Error("m");', check=_chk_err("Error", "m"), ctor="Error",
                  group="throw-statement"))
    S.append(Site("throw_new_TypeError", "stmt", 'throw new TypeError("m");', check=_chk_err("TypeError", "m"),
                  ctor="TypeError", group="throw-statement"))
    S.append(Site("throw_new_RangeError", "stmt", 'throw new RangeError("m");', check=_chk_err("RangeError", "m"),
                  ctor="RangeError", group="throw-statement"))
    S.append(Site("throw_errobj", "stmt", "throw TE;", setup=['var TE = new Error("m");'],
                  check=_chk_err("Error", "m", "TE"), ctor="Error", group="throw-statement"))

    # --- runtime errors raised by operators
    def rt(name, code, ctor, setup=(), group="runtime"):
        S.append(Site(name, "expr", code, setup=setup, check=_chk_err(ctor), ctor=ctor, group=group))
    rt("null_get", "null.x", "TypeError")
    rt("undefined_get", "undefined.x", "TypeError")
    rt("null_index", "null[0]", "TypeError")
    rt("undefined_call", "undefined()", "TypeError")
    rt("void0_call", "(void 0)()", "TypeError")
    rt("number_call", "(5)()", "TypeError")
    rt("unknown_ident", "zzz", "ReferenceError")
    rt("unknown_ident_call", "zzz()", "ReferenceError")
    rt("new_5", "new 5", "TypeError")
    rt("in_5", '"a" in 5', "TypeError")
    rt("instanceof_2", "1 instanceof 2", "TypeError")
    rt("null_set", "null.x = 1", "TypeError")
    rt("deep_get", "X.y.z", "TypeError", setup=["var X = {};"])
    rt("missing_method", "X.m()", "TypeError", setup=["var X = {};"])
    # --- built-ins that raise
    rt("reduce_empty", "[].reduce(function (a, b) { return a; })", "TypeError", group="builtin")
    rt("repeat_neg", '"a".repeat(-1)', "RangeError", group="builtin")
    rt("toFixed_101", "(1).toFixed(101)", "RangeError", group="builtin")
    rt("toString_radix1", "(1).toString(1)", "RangeError", group="builtin")
    rt("new_Array_neg", "new Array(-1)", "RangeError", group="builtin")
    rt("array_length_neg", "AR.length = -1", "RangeError", setup=["var AR = [];"], group="builtin")
    rt("RegExp_bad", 'new RegExp("(")', "SyntaxError", group="builtin")
    rt("JSON_parse_bad", 'JSON.parse("{")', "SyntaxError", group="builtin")
    rt("JSON_stringify_cyclic", "JSON.stringify(CY)", "TypeError", setup=["var CY = {}; CY.self = CY;"],
       group="builtin")
    rt("decodeURIComponent_bad", 'decodeURIComponent("%")', "URIError", group="builtin")

    # --- script code run by a built-in / accessor / conversion / call helper throws
    inners = [("T", "throw T;", _chk_ident("T", ['__out(["k", e.k]);']), None),
              ("E", "null.x;", _chk_err("TypeError"), "TypeError")]
    for tag, inner, check, ctor in inners:
        base_setup = ["var T = {k: 1};"] if tag == "T" else []

        def w(name, code, setup=(), mark="site", group="callback"):
            S.append(Site("%s_%s" % (name, tag), "expr", code, setup=base_setup + list(setup), check=check, mark=mark,
                          ctor=ctor, group=group))
        for m in ("forEach", "map", "filter", "some", "every", "find", "findIndex"):
            w("cb_" + m, "[1, 2].%s(function (v) { __out(20); %s })" % (m, inner))
        w("cb_reduce", "[1, 2].reduce(function (a, v) { __out(20); %s }, 0)" % inner)
        w("cb_sort", "[2, 1].sort(function (a, b) { __out(20); %s })" % inner)
        w("cb_replace", '"a".replace(/a/, function (m0) { __out(20); %s })' % inner)
        w("cb_replacer", "JSON.stringify({a: 1}, function (k, v) { __out(20); %s })" % inner)
        w("cb_reviver", 'JSON.parse("[1]", function (k, v) { __out(20); %s })' % inner)
        w("cb_toJSON", "JSON.stringify({toJSON: function () { __out(20); %s }})" % inner)
        w("getter", "G.p", ["var G = {get p() { __out(20); %s }};" % inner], "setup", "accessor")
        w("setter", "G.p = 1", ["var G = {set p(v) { __out(20); %s }};" % inner], "setup", "accessor")
        vo = ["var V = {valueOf: function () { __out(20); %s }};" % inner]
        w("valueOf_plus", "+V", vo, "setup", "conversion")
        w("valueOf_add", "V + 1", vo, "setup", "conversion")
        w("valueOf_mul", "2 * V", vo, "setup", "conversion")
        w("valueOf_lt", "V < 1", vo, "setup", "conversion")
        ts = ["var W = {toString: function () { __out(20); %s }};" % inner]
        w("toString_concat", '"" + W', ts, "setup", "conversion")
        w("toString_String", "String(W)", ts, "setup", "conversion")
        w("toString_join", "[W].join()", ts, "setup", "conversion")
        w("toString_key", "KO[W]", ["var KO = {};"] + ts, "setup", "conversion")
        th = ["function TH() { __out(20); %s }" % inner]
        w("fn_call", "TH.call(null)", th, "setup", "call")
        w("fn_apply", "TH.apply(null, [])", th, "setup", "call")
        w("fn_bind", "TH.bind(null)()", th, "setup", "call")
        w("fn_new", "new TH()", th, "setup", "call")
        w("fn_depth2", "TH2()", ["function TH2() { return 1 + TH(); }"] + th, "setup", "call")
    return S


SITES = _sites()
SITE_BY_NAME = {s.name: s for s in SITES}

# expression contexts of the throwing expression `@`.  p is assigned before, q would be assigned after.
CONTEXTS = [
    ("stmt", "p = 1; @; q = 2;"),
    ("add_r", "r = (p = 1) + @;"),
    ("add_l", "r = @ + (q = 2);"),
    ("array", "r = [(p = 1), @, (q = 2)];"),
    ("arg", "r = g((p = 1), @);"),
    ("objlit", "r = ({a0: (p = 1), a: @, b: (q = 2)}).a;"),
    ("cond", "r = (p = 1, c) ? @ : 0;"),
    ("index", "r = (p = 1, arr)[@];"),
    # extra contexts (thorough)
    ("deep", "r = (p = 1) + (2 * (3 - @));"),
    ("method_arg", "r = M.m((p = 1), @);"),
    ("new_arg", "r = new K((p = 1), @);"),
    ("cond_test", "r = @ ? (p = 1) : (q = 2);"),
    ("and_r", "r = (p = 1) && @;"),
    ("loop", "for (var j = 0; j < 2; j++) { p = p + 1; r = j + @; }"),
]
CORE_CONTEXTS = [c[0] for c in CONTEXTS[:8]]
EXTRA_CONTEXTS = [c[0] for c in CONTEXTS[8:]]
CTX = dict(CONTEXTS)

# native frames between the handler and the function whose body evaluates the context
NATIVES = [
    ("forEach", "[1, 2].forEach(function (v) { __out(3); h(); })", []),
    ("map", "[1, 2].map(function (v) { __out(3); return h(); })", []),
    ("reduce", "[1, 2].reduce(function (a, v) { __out(3); return a + h(); }, 0)", []),
    ("sort", "[2, 1].sort(function (a, b) { __out(3); return h(); })", []),
    ("call", "h.call(null)", []),
    ("apply", "h.apply(null, [])", []),
    ("bind", "h.bind(null)()", []),
    ("getter", "NG.p", ["var NG = {get p() { __out(3); return h(); }};"]),
    ("valueOf", "+NV", ["var NV = {valueOf: function () { __out(3); return h(); }};"]),
    ("toString", "String(NW)", ["var NW = {toString: function () { __out(3); return h(); }};"]),
    ("toJSON", "JSON.stringify({toJSON: function () { __out(3); return h(); }})", []),
    ("replace", '"a".replace(/a/, function (m0) { __out(3); return h(); })', []),
    ("new", "new NH()", ["function NH() { __out(3); this.v = h(); }"]),
    ("forEach_map", "[1].forEach(function (v) { __out(3); [1].map(function (w) { __out(4); return h(); }); })", []),
]
NATIVE = {n[0]: n for n in NATIVES}
PLACEMENTS = ["inline", "top", "same", "caller"] + ["native_" + n[0] for n in NATIVES] + ["none"]
HFORMS = ["catch", "catch_finally", "finally_in_catch"]
TAILS = ["v", "t"]

TAIL_COMMON = [
    "__out(90);",
    "var u = 0;",
    "function thrower() { throw 77; }",
    "function k(x) { return x + 2; }",
    "try { try { u = 1; } finally { u = u + 1; } u = k(u) + thrower(); __out(-7); } catch (e2) { __out(e2 === 77); }",
    "__out(u);",
    "__out(k(40));",
]


def tail_lines(tail):
    return TAIL_COMMON + (["u * 100 + 7"] if tail == "v" else ["throw 98;"])


def _handler(hform, body, catch_log):
    """Lines of the try statement."""
    cl = ["__out(80);"] + catch_log
    if hform == "catch":
        return ["try {"] + body + ["} catch (e) {"] + cl + ["}"]
    if hform == "catch_finally":
        return ["try {"] + body + ["} catch (e) {"] + cl + ["} finally {", "__out(70);", "}"]
    if hform == "finally_in_catch":
        return ["try {", "try {"] + body + ["} finally {", "__out(71);", "}", "__out(-4);", "} catch (e) {"] + cl + ["}"]
    raise ValueError(hform)


def _par(code):
    """Parenthesise, except when the code already starts with a parenthesis (it is then a call/member
    expression; `((1).toFixed(2))` is rejected by the engine's parser, which is not this property's business)."""
    return code if code.startswith("(") else "(" + code + ")"


def site_applicable(site, pl, ctx):
    if site.kind == "stmt" and pl == "inline" and ctx != "stmt":
        return False
    return True


def build_a(site, pl, ctx, hform="catch", tail="v", loc=False):
    """Source text (with MARK) of one family-A program."""
    L = ["var p = 0, q = 0, s = 0, r = 0, c = true, arr = [7, 8, 9];"]
    setup = list(site.setup)
    if site.mark == "setup":
        setup[-1] = MARK + setup[-1]
    L += setup
    if ctx == "arg":
        L.append("function g(a, b) { return a + b; }")
    elif ctx == "method_arg":
        L.append("var M = {m: function (a, b) { return a + b; }};")
    elif ctx == "new_arg":
        L.append("function K(a, b) { this.v = b; }")
    mk = MARK if site.mark == "site" else ""
    tmpl = CTX[ctx]
    if pl == "inline":
        if site.kind == "stmt":
            ctx_line = mk + "p = 1; %s q = 2;" % site.code
        else:
            ctx_line = mk + tmpl.replace("@", _par(site.code))
    else:
        if site.kind == "stmt":
            L += ["function f() {", "__out(1);", mk + site.code, "__out(-1);", "return 5;", "}"]
        else:
            L += ["function f() {", "__out(1);", mk + "return " + _par(site.code) + ";", "}"]
        ctx_line = tmpl.replace("@", "f()")
    native = None
    if pl.startswith("native_"):
        native = NATIVE[pl[7:]]
    if pl == "caller" or native:
        L += ["function h() {", "var m2 = 4;", ctx_line, "s = 3;", "__out(-2);", "return m2;", "}"]
        if native:
            L += native[2]
            body = ["__out(2);", "m = 10 + %s;" % native[1], "__out(-3);"]
        else:
            body = ["__out(2);", "m = 10 + h();", "__out(-3);"]
    else:
        body = ["__out(2);", ctx_line, "s = 3;", "__out(-3);"]
    catch_log = list(site.check)
    if loc:
        catch_log.append('__out(["L", e.lineNumber, e.columnNumber]);')
    after = ["__out(89);", "__out([p, q, s]);", "__out(r);", "__out(m);"]
    if pl == "none":
        L += ["var m = 5;"] + body
        return "\n".join(L)
    if pl == "top":
        L += ["var m = 5;"] + _handler(hform, body, catch_log) + after
    else:
        L += ["function main() {", "var m = 5;"] + _handler(hform, body, catch_log) + after + ["return m + 1;", "}",
                                                                                                  "__out(main());"]
    L += tail_lines(tail)
    return "\n".join(L)


def a_id(site, pl, ctx, hform, tail):
    return "A|site=%s|pl=%s|ctx=%s|h=%s|tail=%s" % (site.name, pl, ctx, hform, tail)


def a_cases(sites, placements, contexts, hforms=("catch",), tails=("v",)):
    out = []
    for site in sites:
        for pl in placements:
            for ctx in contexts:
                if not site_applicable(site, pl, ctx):
                    continue
                if pl == "none":
                    out.append((a_id(site, pl, ctx, "-", "-"),
                                {"src": strip(build_a(site, pl, ctx)), "tl": 30, "nt": False}))
                    continue
                for hf in hforms:
                    for tail in tails:
                        out.append((a_id(site, pl, ctx, hf, tail),
                                    {"src": strip(build_a(site, pl, ctx, hf, tail)), "tl": 30, "nt": True}))
    return out


def parse_id(cid):
    parts = cid.split("|")
    d = {"family": parts[0]}
    for p in parts[1:]:
        k, _, v = p.partition("=")
        d[k] = v
    return d


# ------------------------------------------------------------------------------------------------
# Family B: try shapes
# ------------------------------------------------------------------------------------------------
T_EXITS = ["normal", "break", "continue", "return", "throw"]
C_EXITS = ["absent", "normal", "break", "continue", "return", "rethrow", "thrownew"]
F_EXITS = ["absent", "normal", "break", "continue", "return", "throw"]


def all_shapes():
    out = []
    for t in T_EXITS:
        for c in C_EXITS:
            for f in F_EXITS:
                if c == "absent" and f == "absent":
                    continue
                out.append((t, c, f))
    return out


SHAPES = all_shapes()


def shape_size(sh):
    t, c, f = sh
    w = 0 if t == "normal" else 1
    w += 0 if c == "absent" else (1 if c == "normal" else 2)
    w += 0 if f == "absent" else (1 if f == "normal" else 2)
    return w


def smallest(n=60):
    idx = sorted(range(len(SHAPES)), key=lambda i: (shape_size(SHAPES[i]), 0 if SHAPES[i][0] != "normal" else 1, i))
    return [SHAPES[i] for i in idx[:n]]


def needs(sh):
    """(needs_loop, needs_function) for legality of the exits."""
    loop = any(x in ("break", "continue") for x in sh)
    fn = any(x == "return" for x in sh)
    return loop, fn


def shape_src(sh, base, lvl, inner=None, pos=None):
    t, c, f = sh
    ev = "e%d" % lvl

    def ins(where):
        return (inner + " ") if (inner is not None and pos == where) else ""
    s = "try { __out(%d); %s" % (base + 1, ins("try"))
    s += {"normal": "", "break": "break; ", "continue": "continue; ", "return": "return %d; " % (base + 11),
          "throw": "throw %d; " % (base + 21)}[t] + "}"
    if c != "absent":
        s += " catch (%s) { __out(%d); __out(%s); %s" % (ev, base + 2, ev, ins("catch"))
        s += {"normal": "", "break": "break; ", "continue": "continue; ", "return": "return %d; " % (base + 12),
              "rethrow": "throw %s; " % ev, "thrownew": "throw %d; " % (base + 22)}[c] + "}"
    if f != "absent":
        s += " finally { __out(%d); %s" % (base + 3, ins("finally"))
        s += {"normal": "", "break": "break; ", "continue": "continue; ", "return": "return %d; " % (base + 13),
              "throw": "throw %d; " % (base + 23)}[f] + "}"
    s += " __out(%d);" % (base + 4)
    return s


LOOP_OPEN = "for (var i = 0; i < 2; i++) { __out(100 + i);"
OUTER_CLOSE = "} catch (eo) { __out(8); __out(eo); } finally { __out(9); }"
CALL_FN = "try { __out(fn()); } catch (ez) { __out(-9); __out(ez); }"
# name -> (provides_loop, provides_function, template with @)
ENCLOSINGS = {
    "none": (False, False, "@"),
    "loop": (True, False, LOOP_OPEN + "\n@\n}\n__out(5);"),
    "func": (False, True, "function fn() {\n@\nreturn 6;\n}\n" + CALL_FN),
    "funcloop": (True, True, "function fn() {\n" + LOOP_OPEN + "\n@\n}\n__out(5);\nreturn 6;\n}\n" + CALL_FN),
    "outer": (False, False, "try { __out(7);\n@\n" + OUTER_CLOSE),
    "outer_funcloop": (True, True, "function fn() {\n" + LOOP_OPEN + "\ntry { __out(7);\n@\n" + OUTER_CLOSE +
                       "\n__out(10);\n}\n__out(5);\nreturn 6;\n}\n" + CALL_FN),
    "loop_in_outer": (True, True, "function fn() {\ntry { __out(7);\n" + LOOP_OPEN + "\n@\n}\n__out(5);\n" + OUTER_CLOSE +
                      "\nreturn 6;\n}\n" + CALL_FN),
}
ENC_NAMES = list(ENCLOSINGS)


def legal(enc, *shapes):
    pl, pf, _ = ENCLOSINGS[enc]
    for sh in shapes:
        nl, nf = needs(sh)
        if (nl and not pl) or (nf and not pf):
            return False
    return True


def sh_name(sh):
    return ".".join(sh)


def build_b(enc, sh, tail="v", inner=None, pos=None):
    isrc = shape_src(inner, 50, 2) if inner is not None else None
    body = shape_src(sh, 0, 1, isrc, pos)
    src = ENCLOSINGS[enc][2].replace("@", body)
    return src + "\n" + "\n".join(tail_lines(tail))


def shape_nontrivial(sh, inner=None):
    def nt(x):
        return x[0] != "normal" or x[2] != "absent"
    return nt(sh) or (inner is not None and nt(inner))


def b_cases(encs, shapes, tails=("v",)):
    out = []
    for enc in encs:
        for sh in shapes:
            if not legal(enc, sh):
                continue
            for tail in tails:
                out.append(("B|enc=%s|shape=%s|tail=%s" % (enc, sh_name(sh), tail),
                            {"src": build_b(enc, sh, tail), "tl": 30, "nt": shape_nontrivial(sh)}))
    return out


def nest_cases(encs, outers, inners, tails=("v",), positions=("try", "catch", "finally")):
    out = []
    for enc in encs:
        for o in outers:
            for pos in positions:
                if pos == "catch" and o[1] == "absent":
                    continue
                if pos == "finally" and o[2] == "absent":
                    continue
                for i in inners:
                    if not legal(enc, o, i):
                        continue
                    for tail in tails:
                        out.append(("B2|enc=%s|outer=%s|pos=%s|inner=%s|tail=%s" % (enc, sh_name(o), pos, sh_name(i), tail),
                                    {"src": build_b(enc, o, tail, i, pos), "tl": 30, "nt": shape_nontrivial(o, i)}))
    return out
