"""Small hand-written statement programs covering every statement kind and literal kind the engine
parses, and deterministic compositions of them. All are valid strict-mode ECMAScript, terminate at
once and log primitives with __out. Used by the C13 layout and rejection families."""

FRAGMENTS = [
    # declarations and expression statements
    ("var", 'var v1 = 1, v2 = "two", v3; __out(v1); __out(v2); __out(v3);'),
    ("var-asi", 'var n1 = 4\nvar n2 = n1 * 2\n__out(n1 + n2)\n'),
    ("fdecl", 'function add(p, q) { return p + q; } __out(add(2, 3));'),
    ("fdecl-hoist", '__out(early(1)); function early(z) { return z + 1; }'),
    ("fexpr", 'var sq = function (t) { return t * t; }; __out(sq(5));'),
    ("fexpr-named", 'var fac = function self(k) { return k < 2 ? 1 : k * self(k - 1); }; __out(fac(5));'),
    ("iife", '(function () { var hid = 3; __out(hid); })();'),
    ("arrow0", 'var z0 = () => 7; __out(z0());'),
    ("arrow1", 'var z1 = w => w + 1; __out(z1(1));'),
    ("arrow2", 'var z2 = (m, k) => m * k; __out(z2(3, 4));'),
    ("arrow-block", 'var z3 = (m) => { var t = m + 1; return t * 2; }; __out(z3(2));'),
    ("closure", 'function mk() { var cnt = 0; return function () { cnt += 1; return cnt; }; } var nx = mk(); nx(); __out(nx());'),
    ("empty", ';;; __out(0); ;'),
    ("block", '{ var inb = 1; { inb = inb + 1; } __out(inb); }'),
    # control flow
    ("if", 'var c1 = 3; if (c1 > 2) __out("big");'),
    ("if-else", 'var c2 = 1; if (c2 > 2) { __out("big"); } else { __out("small"); }'),
    ("if-chain", 'var c3 = 2; if (c3 == 1) __out(1); else if (c3 == 2) __out(2); else __out(3);'),
    ("dangling-else", 'var c4 = 1, c5 = 0; if (c4) if (c5) __out("a"); else __out("b");'),
    ("while", 'var w1 = 0; while (w1 < 3) { w1++; } __out(w1);'),
    ("do-while", 'var d1 = 0; do { d1 += 2; } while (d1 < 5); __out(d1);'),
    ("for", 'var acc = 0; for (var i1 = 0; i1 < 4; i1++) { acc += i1; } __out(acc);'),
    ("for-expr-init", 'var i2, s2 = 0; for (i2 = 3; i2 > 0; i2--) s2 += i2; __out(s2);'),
    ("for-empty", 'var i3 = 0; for (;;) { if (++i3 > 2) break; } __out(i3);'),
    ("for-comma", 'var lo, hi; for (lo = 0, hi = 5; lo < hi; lo++, hi--) ; __out(lo); __out(hi);'),
    ("for-in", 'var keys = []; var src1 = {ka: 1, kb: 2}; for (var kk in src1) { keys.push(kk); } __out(keys.length);'),
    ("for-in-expr", 'var kx, kn = 0; for (kx in {u: 1, v: 2, w: 3}) kn++; __out(kn);'),
    ("for-of", 'var tot = 0; for (var el of [1, 2, 3]) { tot += el; } __out(tot);'),
    ("break", 'var b1 = 0; while (true) { b1++; if (b1 == 3) break; } __out(b1);'),
    ("continue", 'var odd = 0; for (var j1 = 0; j1 < 6; j1++) { if (j1 % 2 == 0) continue; odd += j1; } __out(odd);'),
    ("label-break", 'var hits = 0; outer: for (var x1 = 0; x1 < 3; x1++) { for (var y1 = 0; y1 < 3; y1++) { if (y1 == 1) break outer; hits++; } } __out(hits);'),
    ("label-continue", 'var seen = 0; up: for (var x2 = 0; x2 < 3; x2++) { for (var y2 = 0; y2 < 3; y2++) { if (y2 == 1) continue up; seen++; } } __out(seen);'),
    ("label-block", 'blk: { __out("in"); break blk; }'),
    ("switch", 'var sw = 2; switch (sw) { case 1: __out("one"); break; case 2: __out("two"); break; default: __out("other"); }'),
    ("switch-fall", 'var sf = 1, tr = ""; switch (sf) { case 1: tr += "a"; case 2: tr += "b"; break; case 3: tr += "c"; } __out(tr);'),
    ("switch-default", 'switch ("q") { default: __out("d"); }'),
    ("return", 'function early2(r1) { if (r1) return "yes"; return; } __out(early2(1)); __out(early2(0));'),
    ("throw-catch", 'try { throw 42; } catch (ex) { __out(ex); }'),
    ("try-finally", 'var fin = ""; try { fin += "t"; } finally { fin += "f"; } __out(fin);'),
    ("try-catch-finally", 'var tcf = ""; try { tcf += "t"; throw "boom"; } catch (e2) { tcf += e2; } finally { tcf += "f"; } __out(tcf);'),
    ("catch-type", 'try { null.prop; } catch (e3) { __out(e3 instanceof TypeError); }'),
    ("throw-fn", 'function thrower() { throw "up"; } try { thrower(); } catch (e4) { __out(e4); }'),
    # expressions and literals
    ("object", 'var ob = {ka: 1, "kb": 2, 3: "three", kd: {inner: true}}; __out(ob.ka + ob.kb); __out(ob[3]); __out(ob.kd.inner);'),
    ("object-accessor", 'var oa = {_v: 1, get val() { return this._v; }, set val(nv) { this._v = nv * 2; }}; oa.val = 5; __out(oa.val);'),
    ("object-method", 'var om = {twice(q1) { return q1 * 2; }, ["co" + "mp"]: 9}; __out(om.twice(4)); __out(om.comp);'),
    ("object-shorthand", 'var sh1 = 1, sh2 = 2; var osh = {sh1, sh2}; __out(osh.sh1 + osh.sh2);'),
    ("object-keyword-keys", 'var okw = {if: 1, new: 2, typeof: 3}; __out(okw.if + okw.new + okw.typeof);'),
    ("array", 'var ar = [1, [2, 3], [], "s"]; __out(ar.length); __out(ar[1][1]); __out(ar[3]);'),
    ("array-nested", 'var an = [[[1]], [[2], [3]]]; __out(an[1][1][0]);'),
    ("strings", '__out("dq"); __out(\'sq\'); __out("it\'s"); __out(\'say "hi"\'); __out("a\\tb\\n"); __out("\\x41\\u0042");'),
    ("numbers", '__out(10); __out(1.5); __out(.25); __out(1e3); __out(2E-2); __out(0x1F); __out(0o17); __out(0b101);'),
    ("regex", 'var re1 = /a[/]b+/g; __out(re1.test("xa/bb")); __out("a1b22".replace(/[0-9]+/g, "#"));'),
    ("regex-div", 'var q2 = 8, r2 = 2, g = 1; __out(q2 / r2 / g); __out(/2/.test("12"));'),
    ("member-call", 'var mc = {f: function () { return this.k; }, k: 6, deep: {g: function (q) { return q; }}}; __out(mc.f()); __out(mc["f"]()); __out(mc.deep.g(1));'),
    ("new", 'function Pt(px, py) { this.px = px; this.py = py; } Pt.prototype.sum = function () { return this.px + this.py; }; var pt = new Pt(1, 2); __out(pt.sum()); __out(pt instanceof Pt); __out(new Pt(3, 4).px);'),
    ("this", 'var holder = {v: 5, get: function () { return this.v; }}; __out(holder.get());'),
    ("conditional", 'var t1 = 5; __out(t1 > 3 ? "hi" : "lo"); __out(t1 > 9 ? 1 : t1 > 4 ? 2 : 3);'),
    ("comma", 'var cm = (1, 2, 3); __out(cm); var ca = 0, cb = 0; ca = 1, cb = 2; __out(ca + cb);'),
    ("unary", 'var u1 = 3; __out(-u1); __out(+"4"); __out(!u1); __out(~u1); __out(typeof u1); __out(void u1);'),
    ("update", 'var up1 = 1; up1++; ++up1; up1--; __out(up1); __out(up1++ + ++up1);'),
    ("assign-ops", 'var as = 2; as += 3; as -= 1; as *= 4; as /= 2; as %= 5; as <<= 2; as >>= 1; as |= 8; as &= 12; as ^= 5; as **= 2; __out(as);'),
    ("logical", 'var l1 = 0, l2 = "x"; __out(l1 || l2); __out(l1 && l2); __out(l2 && l1 || 7);'),
    ("relational", '__out(1 < 2); __out(2 <= 2); __out("a" > "b"); __out(3 >= 4); __out(1 == "1"); __out(1 === "1"); __out(1 != 2); __out(1 !== 1);'),
    ("in-instanceof", 'var io = {pk: 1}; __out("pk" in io); __out("zz" in io); __out([] instanceof Array);'),
    ("delete", 'var dl = {gone: 1, stay: 2}; delete dl.gone; __out("gone" in dl); __out(delete dl["stay"]);'),
    ("typeof-forms", '__out(typeof undefinedName); __out(typeof null); __out(typeof function () {}); __out(typeof "s");'),
    ("arith", '__out(1 + 2 * 3); __out((1 + 2) * 3); __out(2 ** 3 ** 2); __out(7 % 4 - 1); __out(1 << 2 + 1); __out(5 & 3 | 8 ^ 2);'),
    ("chain", 'var chn = {a: {b: {c: function () { return [10, 20]; }}}}; __out(chn.a.b.c()[1]); __out(chn["a"].b["c"]().length);'),
    ("comments", '/* lead */ var cmt = 1; // trailing\n/* multi\n line */ cmt += 1; __out(cmt); /* end */'),
    ("comment-in-expr", 'var cie = 1 /* one */ + /* two */ 2; __out(cie); // done'),
    ("string-with-comment-chars", '__out("/* not a comment */"); __out("// neither"); __out(\'*/\');'),
    ("json-ish", 'var js = {"a": [1, 2, {"b": null}], "c": true, "d": false}; __out(js.a[2].b); __out(js.c); __out(js.d);'),
    ("nested-fn", 'function outerf(a1) { function innerf(b1) { return a1 + b1; } return innerf(a1 * 2); } __out(outerf(2));'),
    ("args-object", 'function cnt() { return arguments.length; } __out(cnt()); __out(cnt(1, 2, 3));'),
    ("callbacks", '__out([1, 2, 3].map(function (q3) { return q3 * 2; }).join("-")); __out([3, 1, 2].sort().join(""));'),
    ("arrow-in-call", '__out([1, 2, 3].filter(k1 => k1 > 1).length); __out([1, 2].reduce((s3, k2) => s3 + k2, 0));'),
    ("while-complex", 'var wc = 10, steps = 0; while (wc > 1 && steps < 20) { wc = wc % 2 == 0 ? wc / 2 : 3 * wc + 1; steps++; } __out(steps);'),
    ("paren-heavy", 'var ph = ((1 + 2) * (3 + (4 - 1))); __out(ph); __out(((ph)));'),
    ("getter-call", 'var gc = {get g() { return function () { return 5; }; }}; __out(gc.g());'),
    ("string-methods", '__out("abc".toUpperCase()); __out("a,b".split(",").length); __out("abc".charAt(1)); __out("abc"[2]);'),
    ("number-methods", '__out((255).toString(16)); __out(1.5.toFixed(1)); __out(3 .toString());'),
]

FRAG = dict(FRAGMENTS)


def corpus():
    """[(name, source)]: every fragment alone, then each fragment followed by three others (fixed
    strides), separated by a newline. About 320 programs."""
    names = [n for n, _ in FRAGMENTS]
    out = [(n, s) for n, s in FRAGMENTS]
    N = len(names)
    for i, n in enumerate(names):
        for k, stride in enumerate((1, 7, 23)):
            j = (i + stride) % N
            out.append((n + "+" + names[j], FRAG[n] + "\n" + FRAG[names[j]]))
    return out
