"""Committed data read by checks: expected-outcome tables and the known-findings ledger.

Nothing in this module writes at check time; the write_* functions are used only by
tools/gen_tables.py and by `./check --triage` (developer actions whose output is committed).
"""
import gzip
import hashlib
import json
import os

ROOT = os.path.dirname(os.path.dirname(os.path.dirname(os.path.abspath(__file__))))
TABLES = os.path.join(ROOT, "tables")
KNOWN = os.path.join(ROOT, "known")


def case_key(case_id):
    return hashlib.sha1(case_id.encode("utf-8", "surrogatepass")).hexdigest()[:16]


def obs_key(observed):
    return hashlib.sha1(observed.encode("utf-8", "surrogatepass")).hexdigest()[:8]


def ids_digest(case_ids):
    h = hashlib.sha256()
    for c in case_ids:
        h.update(c.encode("utf-8", "surrogatepass"))
        h.update(b"\x00")
    return h.hexdigest()


class TableError(Exception):
    pass


def table_path(space_name):
    return os.path.join(TABLES, space_name + ".json.gz")


def load_table(space_name, case_ids):
    """Return list of expected outcomes aligned with case_ids (verifies the pinned digest)."""
    p = table_path(space_name)
    if not os.path.exists(p):
        raise TableError("no expected-outcome table for space %s (%s)" % (space_name, p))
    with gzip.open(p, "rt", encoding="utf-8") as f:
        t = json.load(f)
    if t["n"] != len(case_ids) or t["ids_sha256"] != ids_digest(case_ids):
        raise TableError("table %s does not belong to the enumerated space (generator changed? "
                         "regenerate with tools/gen_tables.py)" % space_name)
    outs = t["outcomes"]
    return [outs[i] for i in t["idx"]]


def write_table(space_name, case_ids, expected, meta=None):
    outs, index, idx = [], {}, []
    for e in expected:
        k = index.get(e)
        if k is None:
            k = index[e] = len(outs)
            outs.append(e)
        idx.append(k)
    t = {"n": len(case_ids), "ids_sha256": ids_digest(case_ids), "outcomes": outs, "idx": idx,
         "meta": meta or {}}
    os.makedirs(TABLES, exist_ok=True)
    with gzip.GzipFile(table_path(space_name), "wb", mtime=0) as g:
        g.write(json.dumps(t, separators=(",", ":")).encode("utf-8"))


# ---------------------------------------------------------------- ledger

class Ledger:
    """Known findings of one property. A case is *listed* iff its case key is present; it is
    *the listed failure* iff the observed-outcome key also equals the recorded one ('*' accepts
    any wrong outcome: used only for resource-class outcomes that are inherently unstable)."""

    def __init__(self, prop):
        self.prop = prop
        self.findings = []
        self.index = {}
        p = os.path.join(KNOWN, prop + ".json.gz")
        if os.path.exists(p):
            with gzip.open(p, "rt", encoding="utf-8") as f:
                d = json.load(f)
            self.findings = d["findings"]
            for fi, fd in enumerate(self.findings):
                if fd.get("status", "known") != "known":
                    continue
                for ck, ok in fd["cases"].items():
                    self.index[ck] = (fi, ok)

    def lookup(self, case_id, observed):
        """-> (finding or None, same_failure: bool)"""
        e = self.index.get(case_key(case_id))
        if e is None:
            return None, False
        fi, ok = e
        return self.findings[fi], (ok == "*" or ok == obs_key(observed))


def write_ledger(prop, findings):
    os.makedirs(KNOWN, exist_ok=True)
    with gzip.GzipFile(os.path.join(KNOWN, prop + ".json.gz"), "wb", mtime=0) as g:
        g.write(json.dumps({"property": prop, "findings": findings}, separators=(",", ":"),
                           sort_keys=True).encode("utf-8"))
