"""Canonical, engine-independent serialisation of JavaScript values.

The same format is produced by tools/node_oracle.js (V8 side) and by `ser()` below from
*raw* microjs values, so observations never pass through the engine's own conversions.

  u  n  t  f            undefined null true false
  d<16 hex>             number as IEEE-754 bits (NaN canonical)
  s"..."                string; everything outside printable ASCII and `"` `\\` as \\uXXXX (UTF-16 units)
  [v,v,...]             array
  {"k":v,...}           plain object: own enumerable data properties in insertion order
  F                     any callable
  R/src/flags           RegExp
  T<Kind>[...]          typed array, B<n> ArrayBuffer of n bytes
  I<decimal>            engine holds an integer that is not a double (always a disagreement)
  X<python type>        a value that is not a JavaScript value at all (host leak)
"""
import math
import struct

_NAN = "d7ff8000000000000"


def ser_num(v):
    if isinstance(v, int):
        try:
            f = float(v)
        except OverflowError:
            return "I" + str(v)[:40]
        if int(f) != v:
            return "I" + str(v)[:40]
        v = f
    if v != v:
        return _NAN
    return "d" + struct.pack(">d", v).hex()


def ser_str(s):
    out = ['"']
    for ch in s:
        o = ord(ch)
        if 0x20 <= o < 0x7F and ch not in '"\\':
            out.append(ch)
        elif o > 0xFFFF:
            o -= 0x10000
            out.append("\\u%04x\\u%04x" % (0xD800 + (o >> 10), 0xDC00 + (o & 0x3FF)))
        else:
            out.append("\\u%04x" % o)
    out.append('"')
    return "".join(out)


def num_of(tok):
    """Inverse of ser_num for display: 'd<hex>' -> float."""
    return struct.unpack(">d", bytes.fromhex(tok[1:17]))[0]


def make_ser(values_mod):
    """Build ser() bound to the microjs.values module of the tree under test."""
    UNDEFINED = values_mod.UNDEFINED
    NULL = values_mod.NULL
    JSObject = values_mod.JSObject
    JSArray = values_mod.JSArray
    JSFunction = values_mod.JSFunction
    JSRegExp = getattr(values_mod, "JSRegExp", ())
    JSTypedArray = getattr(values_mod, "JSTypedArray", ())
    JSArrayBuffer = getattr(values_mod, "JSArrayBuffer", ())
    JSCallableObject = getattr(values_mod, "JSCallableObject", ())

    def ser(v, depth=0):
        if v is UNDEFINED:
            return "u"
        if v is NULL:
            return "n"
        if v is True:
            return "t"
        if v is False:
            return "f"
        if isinstance(v, (int, float)):
            return ser_num(v)
        if isinstance(v, str):
            return "s" + ser_str(v)
        if depth > 6:
            return "..."
        if isinstance(v, JSRegExp):
            try:
                return "R/" + str(v._pattern) + "/" + "".join(sorted(str(v._flags)))
            except Exception:
                return "R"
        if isinstance(v, JSTypedArray):
            try:
                return "T" + type(v).__name__.replace("JS", "") + "[" + ",".join(
                    ser(v.get_index(i), depth + 1) for i in range(v.length)) + "]"
            except Exception:
                return "T?"
        if isinstance(v, JSArrayBuffer):
            return "B"
        if isinstance(v, JSArray):
            return "[" + ",".join(ser(e, depth + 1) for e in v._elements) + "]"
        if isinstance(v, JSFunction) or isinstance(v, JSCallableObject):
            return "F"
        if isinstance(v, JSObject):
            return "{" + ",".join(ser_str(k if isinstance(k, str) else repr(k)) + ":" + ser(x, depth + 1)
                                  for k, x in v._properties.items()) + "}"
        if callable(v) and not isinstance(v, type):
            return "F"
        return "X" + type(v).__name__

    return ser
