"""Isolated worker pool.

Long-lived forked workers, each under RLIMIT_AS, each importing the tree under test on its own.
The parent never imports microjs. Every case result is streamed back as soon as it is known, so
when a worker stops making progress (host-level loop inside a C call, runaway allocation) the
parent knows exactly which case it was on, kills it, records `|Ehost_resource` for that case,
respawns the worker and resumes the batch after it.
"""
import importlib
import multiprocessing as mp
import multiprocessing.connection as mpc
import os
import resource
import signal
import sys
import time
import traceback

HOST_RESOURCE = "|Ehost_resource"
FRAMEWORK = "!FRAMEWORK:"

_ctx = mp.get_context("fork")


def _resolve(ref):
    mod, _, name = ref.partition(":")
    return getattr(importlib.import_module(mod), name)


def _worker_main(conn, mem_bytes, env):
    signal.signal(signal.SIGINT, signal.SIG_IGN)
    os.environ.update(env)
    try:
        resource.setrlimit(resource.RLIMIT_AS, (mem_bytes, mem_bytes))
    except Exception:
        pass
    sys.setrecursionlimit(1000)
    # results travel over the pipe; whatever scripts print (console.log) is noise
    try:
        sys.stdout = open(os.devnull, "w")
    except Exception:
        pass
    cache = {}
    while True:
        try:
            msg = conn.recv()
        except EOFError:
            return
        if msg is None:
            return
        ref, items = msg
        try:
            fn = cache.get(ref)
            if fn is None:
                fn = cache[ref] = _resolve(ref)
        except BaseException:
            conn.send(("fatal", FRAMEWORK + traceback.format_exc()))
            return
        for idx, payload in items:
            try:
                res = fn(payload)
            except MemoryError:
                res = HOST_RESOURCE
            except RecursionError:
                res = FRAMEWORK + "RecursionError in runner\n" + traceback.format_exc()[-1500:]
            except BaseException:
                res = FRAMEWORK + traceback.format_exc()[-3000:]
            conn.send((idx, res))
        conn.send(("done", None))


class _W:
    __slots__ = ("proc", "conn", "items", "pos", "t_last", "ref")


class Pool:
    def __init__(self, nworkers=None, watchdog=20.0, mem_gib=4.0, env=None):
        self.n = nworkers or int(os.environ.get("VERIF_WORKERS", "0")) or min(16, os.cpu_count() or 4)
        self.watchdog = watchdog
        self.mem = int(mem_gib * (1 << 30))
        self.env = dict(env or {})
        self.workers = []
        self.killed = 0

    def _spawn(self):
        w = _W()
        parent, child = _ctx.Pipe()
        w.proc = _ctx.Process(target=_worker_main, args=(child, self.mem, self.env), daemon=True)
        w.proc.start()
        child.close()
        w.conn = parent
        w.items = None
        w.pos = 0
        w.t_last = time.time()
        w.ref = None
        return w

    def close(self):
        for w in self.workers:
            try:
                w.conn.send(None)
            except Exception:
                pass
        for w in self.workers:
            w.proc.join(timeout=1)
            if w.proc.is_alive():
                w.proc.kill()
        self.workers = []

    def abort(self):
        """Kill every worker (they may be stuck in cases that will never finish); the next run() starts fresh ones."""
        for w in self.workers:
            try:
                w.proc.kill()
            except Exception:
                pass
        for w in self.workers:
            w.proc.join(timeout=2)
        self.workers = []

    def __enter__(self):
        return self

    def __exit__(self, *a):
        self.close()

    def run(self, ref, items, batch=100, watchdog=None):
        """items: iterable of (idx, payload). Yields (idx, result) in completion order."""
        wd = watchdog or self.watchdog
        it = iter(items)
        exhausted = False
        backlog = []  # batches to re-issue after a kill

        def next_batch():
            nonlocal exhausted
            if backlog:
                return backlog.pop()
            if exhausted:
                return None
            b = []
            for x in it:
                b.append(x)
                if len(b) >= batch:
                    break
            if len(b) < batch:
                exhausted = True
            return b or None

        while len(self.workers) < self.n:
            self.workers.append(self._spawn())
        busy = 0
        for w in self.workers:
            w.items = None
        while True:
            for i, w in enumerate(self.workers):
                if w.items is None:
                    b = next_batch()
                    if b is None:
                        continue
                    w.items, w.pos, w.t_last, w.ref = b, 0, time.time(), ref
                    w.conn.send((ref, b))
                    busy += 1
            if busy == 0:
                return
            ready = mpc.wait([w.conn for w in self.workers if w.items is not None], timeout=0.5)
            now = time.time()
            for w in list(self.workers):
                if w.items is None:
                    continue
                dead = False
                if w.conn in ready:
                    try:
                        while w.conn.poll():
                            tag, res = w.conn.recv()
                            w.t_last = now
                            if tag == "done":
                                w.items = None
                                busy -= 1
                                break
                            if tag == "fatal":
                                raise RuntimeError(res)
                            w.pos += 1
                            yield tag, res
                    except (EOFError, ConnectionResetError, BrokenPipeError):
                        dead = True
                if w.items is not None and (dead or now - w.t_last > wd or not w.proc.is_alive()):
                    # the case at w.pos never reported: host-level hang or hard crash
                    try:
                        w.proc.kill()
                    except Exception:
                        pass
                    w.proc.join(timeout=2)
                    self.killed += 1
                    items, pos = w.items, w.pos
                    k = self.workers.index(w)
                    self.workers[k] = self._spawn()
                    busy -= 1
                    if pos < len(items):
                        yield items[pos][0], HOST_RESOURCE
                        rest = items[pos + 1:]
                        if rest:
                            backlog.append(rest)
