import argparse
import importlib
import json
import os
import sys
import time

from . import store
from .pool import Pool
from . import runner as R


def _load(prop):
    return importlib.import_module("mc.props." + prop.lower())


def do_replay(path):
    with open(path) as f:
        v = json.load(f)
    mod = _load(v["property"])
    payload = v["payload"] if v["payload"] is not None else v["case_id"]
    with Pool(nworkers=1) as pool:
        outs = [o for _, o in pool.run(v["runner"], [(0, payload)], batch=1)]
    out = outs[0]
    obs, _, exp2 = out.partition("\x00")
    exp = v["expected"]
    agree = getattr(mod, "agree_for_space", lambda name: None)(v["space"]) or (lambda e, o, c: e == o)
    print("case:     %s" % v["case_id"][:400])
    print("expected: %s" % exp[:400])
    print("observed: %s" % obs[:400])
    if agree(exp, obs, v["case_id"]):
        print("replay: the case now agrees with the oracle")
        return 0
    print("VIOLATION property=%s replay=%s" % (v["property"], path))
    return 1


def do_triage(prop, mod, res, dry=False):
    groups = {}
    for sp, cid, payload, exp, obs in res.triage:
        key, what = mod.signature(sp, cid, payload, exp, obs)
        g = groups.setdefault(key, {"what": what, "cases": {}, "example": None})
        unstable = obs == R.HOST_RESOURCE
        g["cases"][store.case_key(cid)] = "*" if unstable else store.obs_key(obs)
        if g["example"] is None or len(cid) < len(g["example"]["case"]):
            g["example"] = {"space": sp.name, "case": cid, "expected": exp[:300], "observed": obs[:300]}
    findings = []
    for n, key in enumerate(sorted(groups), 1):
        g = groups[key]
        findings.append({"id": "%s-F%02d" % (prop, n), "signature": key, "what": g["what"],
                         "status": "known", "n_cases": len(g["cases"]), "example": g["example"],
                         "cases": g["cases"]})
    if dry:
        print("triage (dry run, --only given: nothing written): %d disagreements, %d groups" % (len(res.triage), len(findings)))
        for fd in findings:
            print("  n=%d %s | e.g. %r -> exp %s obs %s" % (fd["n_cases"], fd["what"][:100], fd["example"]["case"][:100],
                                                           fd["example"]["expected"][:60], fd["example"]["observed"][:60]))
        return
    store.write_ledger(prop, findings)
    # human-readable summary (no case maps); tools/build_known_findings.py merges these
    with open(os.path.join(store.KNOWN, prop + ".summary.json"), "w") as f:
        json.dump([{k: v for k, v in fd.items() if k != "cases"} for fd in findings], f, indent=1, sort_keys=True)
    print("triage: %d disagreements -> %d findings written to known/%s.json.gz" % (
        len(res.triage), len(findings), prop))
    for fd in findings:
        print("  %s n=%d %s | e.g. %r" % (fd["id"], fd["n_cases"], fd["what"][:100], fd["example"]["case"][:80]))


def main(argv):
    ap = argparse.ArgumentParser()
    ap.add_argument("prop", nargs="?")
    ap.add_argument("--tier", default=os.environ.get("VERIF_TIER", "quick"))
    ap.add_argument("--seed", type=int, default=int(os.environ.get("VERIF_SEED", "0") or 0))
    ap.add_argument("--replay")
    ap.add_argument("--repo")
    ap.add_argument("--triage", action="store_true")
    ap.add_argument("--no-evidence", action="store_true")
    ap.add_argument("--only", help="only spaces whose name contains this substring")
    a = ap.parse_args(argv)
    if a.repo:
        os.environ["VERIF_REPO"] = os.path.abspath(a.repo)
        if os.path.realpath(a.repo) != os.path.realpath("/repo"):
            a.no_evidence = True        # evidence files describe runs against /repo itself, never a scratch tree
    if a.replay:
        return do_replay(a.replay)
    if a.tier not in ("quick", "thorough"):
        a.tier = "quick"
    prop = a.prop.upper()
    mod = _load(prop)
    t0 = time.time()
    ledger = store.Ledger(prop)
    try:
        with Pool() as pool:
            res = R.Result()
            spaces = mod.spaces(a.tier, a.seed, all_strata=a.triage)
            if a.only:
                spaces = [s for s in spaces if a.only in s.name]
            R.run_spaces(prop, spaces, ledger, pool, triage=a.triage, res=res)
            if hasattr(mod, "custom") and not a.only:
                mod.custom(a.tier, a.seed, pool, ledger, res, a.triage)
            flaky = [] if a.triage else R.confirm_violations(res, pool, spaces)
    except store.TableError as e:
        print("FRAMEWORK-ERROR %s" % e, file=sys.stderr)
        return 2
    if a.triage:
        if res.framework_errors:
            return R.report(prop, res)
        do_triage(prop, mod, res, dry=bool(a.only))
        return 0
    extra = mod.extra_coverage(res) if hasattr(mod, "extra_coverage") else None
    if not a.no_evidence and not a.only:
        R.write_evidence(prop, mod.LEVEL, a.tier, a.seed, res, time.time() - t0,
                         list(getattr(mod, "ASSUMPTIONS", [])), extra)
    rc = R.report(prop, res, flaky)
    print("%s tier=%s seed=%d: %d cases (%d distinct, %d non-trivial, %d distinct outcomes), "
          "%d disagreements of which %d listed; %d violations; %.1fs" % (
              prop, a.tier, a.seed, res.evaluations, len(res.distinct), len(res.nontrivial), len(res.outcomes),
              res.disagreements, sum(res.known_hits.values()), len(res.violations), time.time() - t0))
    return rc
