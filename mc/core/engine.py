"""Worker-side binding to the tree under test.

Imports `microjs` from $VERIF_REPO/src (default /repo/src) with MICROJS_VERIF=1, installs the
virtual clock, and offers `run_program` which evaluates one source text on a fresh Context and
returns a normalised, engine-independent outcome string.
"""
import os
import sys
import types

REPO = os.environ.get("VERIF_REPO", "/repo")
os.environ["MICROJS_VERIF"] = "1"
_src = os.path.join(REPO, "src")
if _src not in sys.path:
    sys.path.insert(0, _src)

import time as _real_time  # noqa: E402

import microjs  # noqa: E402
import microjs.vm as _vm  # noqa: E402
import microjs.context as _context  # noqa: E402
import microjs.values as _values  # noqa: E402
import microjs.errors as _errors  # noqa: E402
import microjs.regex.vm as _rvm  # noqa: E402
from microjs import Context  # noqa: E402

from .ser import make_ser  # noqa: E402

assert os.path.realpath(microjs.__file__).startswith(os.path.realpath(_src)), (
    "microjs imported from %s, expected under %s" % (microjs.__file__, _src))

ser = make_ser(_values)
UNDEFINED = _values.UNDEFINED
NULL = _values.NULL


class Abort(BaseException):
    """Raised by the harness itself (never by the engine) to stop a runaway case."""


class VClock:
    """Virtual clock. Two drive modes, both deterministic:

    poll mode (default): every call of monotonic() advances time by 1. The engine reads the clock
      once per 1000 interpreter steps and once per 100 regex steps, so time_limit=N stops a
      diverging script after about N polls whatever the host speed, at zero per-step cost.
    step mode: time only advances when the harness advances `now` (C01 does so by 1 per interpreter
      step / regex step through the verification hooks, to place the deadline at an exact step and to
      count the overrun).
    real mode: the host clock (only for C01's deliberately loose real-time smoke subset).
    """

    def __init__(self):
        self.now = 0.0
        self.mode = "poll"
        self.polls = 0

    def reset(self, mode="poll"):
        self.now = 0.0
        self.mode = mode
        self.polls = 0

    def monotonic(self):
        self.polls += 1
        if self.mode == "poll":
            self.now += 1.0
        elif self.mode == "real":
            return _real_time.monotonic()
        return self.now

    def time(self):
        return 1.7e9 + self.now * 1e-3

    def perf_counter(self):
        return self.monotonic()


CLOCK = VClock()
_shim = types.SimpleNamespace(monotonic=CLOCK.monotonic, time=CLOCK.time, perf_counter=CLOCK.perf_counter,
                              sleep=lambda s: None)
PATCHED = []
for _name, _mod in list(sys.modules.items()):
    if _name.startswith("microjs") and _mod is not None:
        for _attr, _val in list(vars(_mod).items()):
            if _val is _real_time:
                setattr(_mod, _attr, _shim)
                PATCHED.append(_name + "." + _attr)
            elif _val is _real_time.monotonic:
                setattr(_mod, _attr, CLOCK.monotonic)
                PATCHED.append(_name + "." + _attr)
            elif _val is _real_time.time:
                setattr(_mod, _attr, CLOCK.time)
                PATCHED.append(_name + "." + _attr)
            elif _val is _real_time.perf_counter:
                setattr(_mod, _attr, CLOCK.perf_counter)
                PATCHED.append(_name + "." + _attr)

HAVE_VM_HOOK = hasattr(_vm, "_VERIF_HOOK") and getattr(_vm, "_VERIF_ENABLED", False)
HAVE_RE_HOOK = hasattr(_rvm, "_VERIF_HOOK") and getattr(_rvm, "_VERIF_ENABLED", False)


def set_vm_hook(fn):
    """Install fn(vm) before every interpreter step. Falls back to wrapping _check_limits."""
    if HAVE_VM_HOOK:
        _vm._VERIF_HOOK = fn
        return "hook"
    cls = _vm.VM
    if not hasattr(cls, "_verif_orig_check_limits"):
        cls._verif_orig_check_limits = cls._check_limits
    orig = cls._verif_orig_check_limits
    if fn is None:
        cls._check_limits = orig
    else:
        def wrapped(self):
            fn(self)
            return orig(self)
        cls._check_limits = wrapped
    return "wrap"


def set_re_hook(fn):
    if HAVE_RE_HOOK:
        _rvm._VERIF_HOOK = fn
        return "hook"
    return "none"


def classify_exception(e):
    """Outcome class of an exception that left Context.eval (message text is never compared)."""
    if isinstance(e, _errors.TimeLimitError):
        return "time"
    if isinstance(e, _errors.MemoryLimitError):
        return "memory"
    if isinstance(e, _errors.JSSyntaxError):
        return "syntax"
    if isinstance(e, _errors.JSError):
        return "throw"
    if isinstance(e, MemoryError):
        return "host_resource"
    return "host:" + type(e).__name__


DEFAULT_TL = 200  # polls: about 2*10^5 interpreter steps


def run_program(src, tl=DEFAULT_TL, ml=None, setup=None, want_ctx=False):
    """Evaluate `src` on a fresh Context. Returns the outcome string

        <log entries joined by ';'> '|' 'R' <ser(result)>      normal completion
        <log entries joined by ';'> '|' 'E' <class>            eval raised

    `__out(v)` appends ser(v) (raw engine value) to the log.
    """
    CLOCK.reset("poll")
    log = []
    ctx = Context(time_limit=tl, memory_limit=ml)

    def out(*a):
        log.append(ser(a[0]) if a else "u")
        return UNDEFINED

    ctx._globals["__out"] = out
    raw = []
    orig_to_python = ctx._to_python

    def spy(v):
        if not raw:
            raw.append(v)
        return orig_to_python(v)

    ctx._to_python = spy
    if setup is not None:
        setup(ctx)
    try:
        ctx.eval(src)
        tail = "R" + (ser(raw[0]) if raw else "?")
    except Abort:
        raise
    except RecursionError:
        tail = "Ehost:RecursionError"
    except Exception as e:  # noqa: BLE001
        tail = "E" + classify_exception(e)
    out_s = ";".join(log) + "|" + tail
    if want_ctx:
        return out_s, ctx
    return out_s
