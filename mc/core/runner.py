"""Generic property driver: enumerate spaces, run every case on the real engine in isolated
workers, compare with the oracle, consult the ledger, write evidence and replay files."""
import hashlib
import json
import os
import sys
import time

from . import store
from .pool import Pool, HOST_RESOURCE, FRAMEWORK

ROOT = store.ROOT
MAX_VIOLATION_LINES = 20
MAX_HUNG_PER_SPACE = 6


class Space:
    """A finite, explicitly enumerated set of cases.

    name      stable identifier (also the table file name when oracle == 'table')
    runner    'module:function' executed in a worker: fn(payload) -> observed outcome string,
              or 'observed\\x00expected' when the oracle is computed next to the observation
    cases     list of (case_id, payload); payload None means "the case id is the payload"
    oracle    'table' | 'inline' (runner returns both) | callable(case_id, payload) -> expected
    """

    def __init__(self, name, runner, cases, oracle="table", nontrivial=None, agree=None,
                 rule="", batch=200, watchdog=None, describe=None, bound=None, differential=False,
                 nondeterminism_is_violation=False):
        self.name = name
        self.runner = runner
        self.cases = cases
        self.oracle = oracle
        self.nontrivial = nontrivial or (lambda cid, payload, exp: True)
        self.agree = agree or (lambda exp, obs, cid: exp == obs)
        self.rule = rule
        self.batch = batch
        self.watchdog = watchdog
        self.describe = describe
        self.bound = bound
        # differential: the runner computes its own expectation from an earlier phase of the same execution (state-dependent by
        # design); a violation is confirmed when the re-execution disagrees with ITS expectation, not when the strings repeat
        self.differential = differential
        # for properties that state determinism: a disagreement that shows up in one execution and not (or differently) in the
        # next one of the same case is itself the violation (never for resource kills of the harness)
        self.nondeterminism_is_violation = nondeterminism_is_violation


class Result:
    def __init__(self):
        self.evaluations = 0
        self.distinct = set()
        self.nontrivial = set()
        self.outcomes = set()
        self.samples = []
        self.violations = []      # dicts
        self.known_hits = {}      # finding id -> count
        self.known_what = {}
        self.disagreements = 0
        self.per_space = []
        self.extra = {}
        self.killed = 0
        self.framework_errors = []
        self.triage = []          # (space, case_id, payload, expected, observed)


def materialise(sp):
    c = sp.cases
    if callable(c):
        c = c()
    return c if isinstance(c, list) else list(c)


def _h(s):
    return hashlib.sha1(s.encode("utf-8", "surrogatepass")).digest()[:8]


def run_spaces(prop, spaces, ledger, pool, triage=False, res=None, sample_every=None):
    res = res or Result()
    for sp in spaces:
        t0 = time.time()
        cases = materialise(sp)
        ids = [c[0] for c in cases]
        expected = None
        if sp.oracle == "table":
            expected = store.load_table(sp.name, ids)
        n_dis = 0
        n_nt = 0
        n_hung = 0
        items = ((i, (c[1] if c[1] is not None else c[0])) for i, c in enumerate(cases))
        step = max(1, len(cases) // 3) if cases else 1
        for idx, out in pool.run(sp.runner, items, batch=sp.batch, watchdog=sp.watchdog):
            cid, payload = cases[idx]
            if isinstance(out, str) and out.startswith(FRAMEWORK):
                res.framework_errors.append((sp.name, cid, out))
                continue
            if sp.oracle == "table":
                exp, obs = expected[idx], out
            elif sp.oracle == "inline":
                obs, _, exp = out.partition("\x00")
                if out == HOST_RESOURCE:
                    obs, exp = HOST_RESOURCE, "<oracle not reached>"
            else:
                exp, obs = sp.oracle(cid, payload), out
            res.evaluations += 1
            hk = _h(cid)
            res.distinct.add(hk)
            if sp.nontrivial(cid, payload, exp):
                res.nontrivial.add(hk)
                n_nt += 1
            res.outcomes.add(_h(obs))
            if idx % step == 0 and len(res.samples) < 12:
                res.samples.append({"space": sp.name, "case": cid[:300], "expected": exp[:200],
                                    "observed": obs[:200]})
            if sp.agree(exp, obs, cid):
                continue
            n_dis += 1
            res.disagreements += 1
            if triage:
                res.triage.append((sp, cid, payload, exp, obs))
                continue
            if obs == HOST_RESOURCE:
                n_hung += 1
            fd, same = ledger.lookup(cid, obs)
            if fd is not None and same:
                res.known_hits[fd["id"]] = res.known_hits.get(fd["id"], 0) + 1
                res.known_what[fd["id"]] = fd["what"]
                continue
            res.violations.append({"property": prop, "space": sp.name, "runner": sp.runner,
                                   "case_id": cid, "payload": payload, "expected": exp, "observed": obs,
                                   "listed_as": fd["id"] if fd is not None else None})
            if n_hung >= MAX_HUNG_PER_SPACE and not triage:
                # the tree under test hangs case after case (each costs a full watchdog period): the verdict is already a
                # violation; stop this space instead of spending hours on it, and say so in the evidence
                res.extra["capped"] = True
                res.extra.setdefault("capped_spaces", []).append(sp.name)
                pool.abort()
                break
        res.per_space.append({"space": sp.name, "cases": len(cases), "nontrivial": n_nt,
                              "disagreements": n_dis, "bound": sp.bound, "rule": sp.rule,
                              "wall_s": round(time.time() - t0, 2)})
    res.killed = pool.killed
    return res


def confirm_violations(res, pool, spaces=()):
    """Re-execute every reported violation once more; it must reproduce identically."""
    diff = {sp.name: sp for sp in spaces if getattr(sp, "differential", False)}
    dogs = {sp.name: sp.watchdog for sp in spaces}
    # an outcome that is wrong in one execution and different in the next one: for a fixed expectation (table) the first wrong
    # answer already is the violation; harness-level resource kills are never counted
    nondet = {sp.name for sp in spaces if getattr(sp, "nondeterminism_is_violation", False) or sp.oracle == "table"}
    by_name = {sp.name: sp for sp in spaces if sp.oracle == "table"}
    by_runner = {}
    for v in res.violations:
        by_runner.setdefault((v["runner"], dogs.get(v["space"])), []).append(v)
    flaky = []
    for (runner, dog), vs in by_runner.items():
        items = [(i, (v["payload"] if v["payload"] is not None else v["case_id"])) for i, v in enumerate(vs)]
        for idx, out in pool.run(runner, items, batch=(1 if dog else 5), watchdog=dog):
            obs = out.partition("\x00")[0] if "\x00" in out else out
            sp = diff.get(vs[idx]["space"])
            if sp is not None and "\x00" in out:
                if sp.agree(out.partition("\x00")[2], obs, vs[idx]["case_id"]):
                    flaky.append((vs[idx], obs))
                continue
            if obs != vs[idx]["observed"]:
                spx = by_name.get(vs[idx]["space"])
                still_wrong = (spx is not None and "\x00" not in out and HOST_RESOURCE not in (obs, vs[idx]["observed"])
                               and not obs.startswith(FRAMEWORK) and not spx.agree(vs[idx]["expected"], obs, vs[idx]["case_id"]))
                if still_wrong:
                    # a fixed expectation (table / reference) and two different wrong answers: wrong both times
                    vs[idx]["second_execution_observed"] = obs
                    vs[idx]["observed"] += "   [a second execution of the same case observed another wrong outcome: %s]" % obs[:200]
                    continue
                if vs[idx]["space"] in nondet and HOST_RESOURCE not in (obs, vs[idx]["observed"]) and not obs.startswith(FRAMEWORK):
                    vs[idx]["second_execution_observed"] = obs
                    vs[idx]["observed"] += "   [a second execution of the same case observed: %s]" % obs[:200]
                    continue
                flaky.append((vs[idx], obs))
    return flaky


def write_replay(v):
    d = os.path.join(ROOT, "replays", v["property"])
    os.makedirs(d, exist_ok=True)
    key = hashlib.sha1((v["space"] + "\x1f" + v["case_id"]).encode("utf-8", "surrogatepass")).hexdigest()[:16]
    p = os.path.join(d, key + ".json")
    with open(p, "w") as f:
        json.dump(v, f, indent=1, ensure_ascii=True)
    return p


def write_evidence(prop, level, tier, seed, res, wall, assumptions, extra_cov=None, rule=None):
    cov = {
        "evaluations": res.evaluations,
        "distinct_cases": len(res.distinct),
        "distinct_nontrivial": len(res.nontrivial),
        "distinct_outcomes": len(res.outcomes),
        "rule": rule or " | ".join(s["rule"] for s in res.per_space if s["rule"])[:4000],
        "samples": res.samples[:12],
        "exhaustive": not res.extra.get("capped", False),
        "spaces": res.per_space,
        "disagreements_with_oracle": res.disagreements,
        "known_finding_cases_reproduced": sum(res.known_hits.values()),
        "known_findings_reproduced": sorted(res.known_hits),
        "workers_killed_by_watchdog": res.killed,
    }
    if extra_cov:
        cov.update(extra_cov)
    ev = {"property_id": prop, "tier": tier, "seed": seed, "level": level, "coverage": cov,
          "assumptions": assumptions, "wall_s": round(wall, 2), "violations": len(res.violations)}
    d = os.path.join(ROOT, "evidence")
    os.makedirs(d, exist_ok=True)
    tmp = os.path.join(d, prop + ".json.tmp")
    with open(tmp, "w") as f:
        json.dump(ev, f, indent=1)
    os.replace(tmp, os.path.join(d, prop + ".json"))
    return ev


def report(prop, res, flaky=()):
    """Print the interface lines; return the exit status."""
    for fid in sorted(res.known_hits):
        print("KNOWN-FINDING: property=%s %s: %s (%d listed cases reproduced)" % (
            prop, fid, res.known_what[fid], res.known_hits[fid]))
    if res.framework_errors:
        for sp, cid, out in res.framework_errors[:5]:
            print("FRAMEWORK-ERROR space=%s case=%r\n%s" % (sp, cid[:200], out), file=sys.stderr)
        return 2
    flaky_ids = {id(v) for v, _ in flaky}
    confirmed = [v for v in res.violations if id(v) not in flaky_ids]
    if flaky:
        for v, obs in flaky[:5]:
            print("%s non-reproducible disagreement space=%s case=%r first=%r second=%r" % (
                "NOTE" if confirmed else "FRAMEWORK-ERROR", v["space"], v["case_id"][:200], v["observed"][:120], obs[:120]), file=sys.stderr)
        if not confirmed:
            return 2        # nothing but disagreements that did not reproduce: no verdict
    if not confirmed:
        return 0
    vs = sorted(confirmed, key=lambda v: (len(v["case_id"]), v["case_id"]))
    for v in vs[:MAX_VIOLATION_LINES]:
        p = write_replay(v)
        print("VIOLATION property=%s replay=%s" % (prop, p))
        print("  case: %s\n  expected: %s\n  observed: %s%s" % (
            v["case_id"][:240].replace("\n", "\\n"), v["expected"][:160], v["observed"][:160],
            ("\n  (listed under %s with a different failure)" % v["listed_as"]) if v["listed_as"] else ""))
    if len(vs) > MAX_VIOLATION_LINES:
        print("... %d further violations not printed" % (len(vs) - MAX_VIOLATION_LINES))
    return 1
