"""C17  Array and typed-array methods compute, mutate and alias as specified.

Three families, all compared with V8 expected-outcome tables (tables/c17_*.json.gz):

  grid     E1  every implemented Array method / element access form x 14 receivers x the adversarial
               index grid x 7 callback shapes; observes result, result identity, receiver afterwards
  hist     E2  ALL histories (depth <= 3 quick core, depth 4 thorough / one stratum in quick) over an
               alphabet of 24 mutating statements on two names aliasing one array plus a third array;
               after every step the contents of all three names and the alias relation are logged
  typed    E1  9 typed-array kinds x 46 stored values x {store, ctor, set, subarray}, length/index grids,
               81 ordered pairs of views over one 16-byte buffer x 12 value patterns

Documented engine deviations that are kept out of the spaces: no holes, writing past `length` or at a
negative index is an error, for-in sees own keys only.
"""
import itertools

from mc.core.runner import Space
from .common import mismatch_kind

PROP = "C17"
LEVEL = "model_checking"
ASSUMPTIONS = [
    "expected outcomes were computed at build time by V8 (node 20, strict mode) for exactly the enumerated "
    "case ids and are pinned by SHA-256 of the case list",
    "receivers are dense arrays of length 0..6; holes, writes past length and negative-index writes are "
    "documented engine deviations and are not part of any space",
    "histories: 24-statement alphabet, every sequence up to depth 3 (quick core) / 4 (thorough); deeper "
    "histories and other statements are not explored",
    "`states` counts distinct (a, b, c, a===b, b===c) observation tuples logged by the real engine; "
    "`traces_validated_against_impl` counts histories whose complete observation sequence equals V8's",
    "only consistent comparators are given to sort (ECMA-262 leaves the order implementation-defined otherwise)",
]
RUN = "mc.props.common:run_src"

# ------------------------------------------------------------------------------------------ grid

RECEIVERS = [
    "[]",
    "[1]",
    "[undefined]",
    "[1, 2, 3]",
    "[3, 1, 2]",
    "[1, 2, 1, 2]",
    "[0, -0, NaN]",
    "[undefined, null, NaN, -0]",
    '[1, "1", true, null]',
    "[[1], [2, [3]], []]",
    '[10, 9, 1, "b", "a", 2]',
    '["b", undefined, "a", undefined, "c"]',
    "[5, 1, 4, 2, 3, 0]",
    '[2, "x", 2, null, "x", undefined]',
]
RECV_LEN = [0, 1, 1, 3, 3, 4, 3, 4, 4, 3, 6, 5, 6, 6]
NUMERIC_RECV = ["[]", "[1]", "[1, 2, 3]", "[3, 1, 2]", "[1, 2, 1, 2]", "[5, 1, 4, 2, 3, 0]", "[2, -1, 10, 1.5, -1, 0]"]
SORT_EXTRA_RECV = [
    "[10, 9, 1, 2, 100, 20]", '["B", "a", "C", "b", "A"]', '[true, false, null, "n", "t"]',
    "[[2, 1], [10], [1, 3], [1]]", "[-1, -2, 0, 1, -10]", "[undefined, 3, undefined, 1]",
    '["ab", "a", "", "abc", "b"]', '["\\u00e9", "z", "e", "\\u0100", "Z"]', "[null, undefined, null, 1]",
    "[1.5, 1, 15, 1.25]", "[undefined, undefined]", '[3, "3", 3, "3"]',
]

IDX = ["undefined", "null", "NaN", "Infinity", "-Infinity", "-1", "-0", "0", "1", "2", "1.9", "100", '"1"']
# keys that are NOT canonical index strings although a host integer parser would accept them, and canonical ones that are
KEY_STRINGS = ['"0"', '"2"', '"-0"', '"00"', '"01"', '"+1"', '" 1"', '"1 "', '"1.0"', '"1e0"', '"0x1"', '"1_0"', '"\u0661"', '"-1"', '"4294967294"',
               '"4294967295"', '"1.5"', '""', '"length"', "[1]", "[[2]]", "{toString: function () { return '1' }}", "true", "1e0", "0x1"]
SEARCH = ["1", "2", '"1"', "undefined", "null", "NaN", "0", "-0", '"a"', "true", "a[0]"]

CATCH = 'catch (e) { __out(typeof e === "string" ? "throw-s:" + e : "throw:" + e.name) }'
HEAD = "var a = %s; var r; var n = 0; var T = {}; "
TAIL = " __out(r === a); __out(a); r"


def prog(recv, call):
    return HEAD % recv + "try { r = " + call + " } " + CATCH + TAIL


def two_index_args():
    out = [""]
    for i in IDX:
        out.append(i)
        for j in IDX:
            out.append(i + ", " + j)
    return out


# callbacks for find findIndex filter map forEach some every; {C} = value that keeps the iteration going,
# {P}/{Q} wrap a predicate so that `every` keeps going where the others do
ITER = ["find", "findIndex", "filter", "map", "forEach", "some", "every"]
CALLBACKS = [
    ("identity", "function (v) { return v }", ""),
    ("predicate", "function (v) { return v > 1 }", ""),
    ("arrow", "(v, i) => v === 2 || i === 3", ""),
    ("logger", "function (v, i, arr) { __out([v, i, arr === a]); return i % 2 }", ""),
    ("this", "function (v) { __out([this === T, this === undefined, this === 5, this === null]); return {C} }", ""),
    ("this", "function (v) { __out([this === T, this === undefined, this === 5, this === null]); return {C} }", ", T"),
    ("this", "function (v) { __out([this === T, this === undefined, this === 5, this === null]); return {C} }", ", 5"),
    ("this", "function (v) { __out([this === T, this === undefined, this === 5, this === null]); return {C} }", ", null"),
    ("mutator", "function (v, i, arr) { __out([v, i]); if (n++ === 0) arr.push(7, 8); return {P}v === 7{Q} }", ""),
    ("mutator", "function (v, i, arr) { __out([v, i]); if (n++ === 0) { arr.pop(); arr.pop() } return {C} }", ""),
    ("mutator", "function (v, i, arr) { __out([v, i]); if (i + 1 < arr.length) arr[i + 1] = 50 + i; return {C} }", ""),
    ("mutator", "function (v, i, arr) { __out([v, i]); if (n++ === 0) arr.shift(); return {C} }", ""),
    ("mutator", "function (v, i, arr) { __out([v, i]); if (n++ === 0) arr.splice(1, 1); return {C} }", ""),
    ("mutator", "function (v, i, arr) { __out([v, i]); if (n++ === 0) arr.splice(0, 0, 9, 8); return {C} }", ""),
    ("mutator", "function (v, i, arr) { __out([v, i]); if (n++ === 1) arr.splice(0, arr.length, 6, 5, 4, 3); return {C} }", ""),
    ("mutator", "function (v, i, arr) { __out([v, i]); if (n++ === 0) arr.length = 1; return {C} }", ""),
    ("mutator", "function (v, i, arr) { __out([v, i]); if (n++ === 0) { arr.length = 0; arr.push(4, 5, 6, 7) } return {C} }", ""),
    ("mutator", "function (v, i, arr) { __out([v, i]); if (n++ === 0) arr.length = arr.length + 2; return {C} }", ""),
    ("mutator", "function (v, i, arr) { __out([v, i]); if (n++ === 0) arr.reverse(); return {C} }", ""),
    ("mutator", "function (v, i, arr) { __out([v, i]); if (n++ === 0) arr.sort(); return {C} }", ""),
    ("mutator", "function (v, i, arr) { __out([v, i]); if (n++ === 0) arr.unshift(5); return {C} }", ""),
    ("mutator", "function (v, i, arr) { __out([v, i]); if (n++ === 0) { arr[0] = 77; arr[arr.length - 1] = 78 } return {C} }", ""),
    ("nonboolean", 'function (v, i) { return [0, "", NaN, null, undefined, -0][i] }', ""),
    ("nonboolean", 'function (v, i) { return [[], "0", {}, -1, "f", Infinity][i] }', ""),
    ("nonboolean", 'function (v, i) { return ["", [], 0, "0", NaN, {}][i] }', ""),
    ("throws", 'function (v, i) { __out(i); if (i === 1) throw "boom"; return {C} }', ""),
    ("throws", 'function (v, i) { __out(i); if (i === 1) throw new RangeError("boom"); return {C} }', ""),
]
NONCALLABLE = ["", "undefined", "null", "1", '"s"', "{}"]
REDUCE_CB = [
    ("identity", "function (acc, v) { return v }"),
    ("logger", "function (acc, v, i, arr) { __out([acc, v, i, arr === a]); return i }"),
    ("this", "function () { __out(this === undefined); return 0 }"),
    ("mutator", "function (acc, v, i, arr) { __out([acc, v, i]); if (n++ === 0) arr.push(7); return acc }"),
    ("mutator", "function (acc, v, i, arr) { __out([acc, v, i]); if (n++ === 0) { arr.pop(); arr.pop() } return acc }"),
    ("mutator", "function (acc, v, i, arr) { __out([acc, v, i]); if (n++ === 0) arr.shift(); return acc }"),
    ("mutator", "function (acc, v, i, arr) { __out([acc, v, i]); if (n++ === 0) arr.splice(1, 1); return acc }"),
    ("mutator", "function (acc, v, i, arr) { __out([acc, v, i]); if (n++ === 0) arr.splice(0, 0, 9, 8); return acc }"),
    ("mutator", "function (acc, v, i, arr) { __out([acc, v, i]); if (n++ === 0) arr.length = 1; return acc }"),
    ("mutator", "function (acc, v, i, arr) { __out([acc, v, i]); if (n++ === 0) { arr.length = 0; arr.push(4, 5, 6, 7) } return acc }"),
    ("mutator", "function (acc, v, i, arr) { __out([acc, v, i]); if (n++ === 0) arr.reverse(); return acc }"),
    ("throws", 'function (acc, v, i) { __out(i); if (i === 1) throw "boom"; return acc }'),
]
INITIAL = ["", ", 0", ", undefined", ', "s"']


def _case(out, src, method, nt=True, **kw):
    d = {"src": src, "m": method, "nt": nt}
    d.update(kw)
    out.append((src, d))


def grid_index_cases():
    """slice / splice / indexOf / lastIndexOf / includes / element reads over the index grid."""
    out = []
    args2 = two_index_args()
    for recv in RECEIVERS:
        nt = recv != "[]"
        for m in ("slice", "splice"):
            for a in args2:
                _case(out, prog(recv, "a.%s(%s)" % (m, a)), m, nt)
        for i in IDX:
            for j in IDX:
                _case(out, prog(recv, 'a.splice(%s, %s, "x", "y")' % (i, j)), "splice", True)
        for m in ("indexOf", "lastIndexOf", "includes"):
            _case(out, prog(recv, "a.%s()" % m), m, nt)
            for s in SEARCH:
                _case(out, prog(recv, "a.%s(%s)" % (m, s)), m, nt)
                for i in IDX:
                    _case(out, prog(recv, "a.%s(%s, %s)" % (m, s, i)), m, nt)
        for i in IDX + KEY_STRINGS:
            _case(out, prog(recv, "a[%s]" % i), "a[i] read", nt)
        for i in KEY_STRINGS:
            _case(out, prog(recv, "(%s in a)" % i), "i in a", nt)
            _case(out, prog(recv, "a.hasOwnProperty(%s)" % i), "hasOwnProperty", nt)
            _case(out, prog(recv, "JSON.stringify(Object.getOwnPropertyDescriptor(a, %s))" % i), "getOwnPropertyDescriptor", nt)
        _case(out, prog(recv, "a.length"), "length read", nt)
    return out


def grid_plain_cases():
    """push pop shift unshift concat join reverse toString isArray, a[i]=v, a.length=n."""
    out = []
    for k, recv in enumerate(RECEIVERS):
        nt = recv != "[]"
        n = RECV_LEN[k]
        for args in ("", "7", "7, 8", "undefined", "[9]", "null, NaN", '"x", a.length'):
            _case(out, prog(recv, "a.push(%s)" % args), "push", nt or bool(args))
            _case(out, prog(recv, "a.unshift(%s)" % args), "unshift", nt or bool(args))
        for m in ("pop", "shift", "reverse", "toString"):
            _case(out, prog(recv, "a.%s()" % m), m, nt)
            _case(out, prog(recv, "a.%s(1)" % m), m, nt)
        for sep in ("", "undefined", "null", '""', '"-"', "0", '", "', "[1, 2]"):
            _case(out, prog(recv, "a.join(%s)" % sep), "join", nt)
        for args in ("", "1", "[4, 5]", "[[6]]", "a", '"x"', "undefined", "null", "[]", "[4], [5]", "1, [2], [[3]]",
                     "a, a", "[undefined]", "{length: 1}", "new Uint8Array(2)"):
            _case(out, prog(recv, "a.concat(%s)" % args), "concat", nt or bool(args))
        for x in ("a", "a[0]", "a.length", "a.slice()", "a.concat()", "{}", '"s"', "undefined", "null", "",
                  "new Uint8Array(2)", "function () {}", "{length: 0}"):
            _case(out, prog(recv, "Array.isArray(%s)" % x), "Array.isArray", True)
        # writes through keys that are not canonical index strings create ordinary properties
        for key in ('"-0"', '"00"', '"01"', '"+1"', '" 1"', '"1.0"', '"1e0"', '"0x1"', '"-1"'):     # "1.5": documented stricter mode (TypeError)
            _case(out, prog(recv, "(a[%s] = 'w')" % key) + "; __out(a.length); __out(Object.keys(a)); a[%s]" % key, "a[key] = v", True)
        # element writes: i < len and i == len only (documented stricter mode beyond that)
        for i in range(n + 1):
            for key in (str(i), '"%d"' % i) + (("a.length",) if i == n else ()) + (("a.length - 1",) if i == n - 1 else ()):
                for v in ("7", "undefined", '"s"', "[0]"):
                    _case(out, prog(recv, "(a[%s] = %s)" % (key, v)), "a[i] = v", True)
        for ln in [str(i) for i in range(n + 1)] + ['"0"', "-0", "a.length", "-1", "1.5", "NaN", '"x"']:
            _case(out, prog(recv, "(a.length = %s)" % ln), "a.length = n", True)
    return out


def grid_callback_cases():
    out = []
    for recv in RECEIVERS:
        nt = recv != "[]"
        for m in ITER:
            cont = "true" if m == "every" else "false"
            p, q = ("!(", ")") if m == "every" else ("", "")
            for kind, cb, this_arg in CALLBACKS:
                cb = cb.replace("{C}", cont).replace("{P}", p).replace("{Q}", q)
                _case(out, prog(recv, "a.%s(%s%s)" % (m, cb, this_arg)), m, nt, cb=kind)
            for nc in NONCALLABLE:
                _case(out, prog(recv, "a.%s(%s)" % (m, nc)), m, True, cb="not callable")
        for m in ("reduce", "reduceRight"):
            for kind, cb in REDUCE_CB:
                for init in INITIAL:
                    _case(out, prog(recv, "a.%s(%s%s)" % (m, cb, init)), m, nt or bool(init), cb=kind)
            for nc in NONCALLABLE:
                _case(out, prog(recv, "a.%s(%s)" % (m, nc)), m, True, cb="not callable")
                if nc:
                    _case(out, prog(recv, "a.%s(%s, 0)" % (m, nc)), m, True, cb="not callable")
    return out


SORT_CMP = [
    ("numeric", "function (x, y) { return x - y }"),
    ("descending", "function (x, y) { return y - x }"),
    ("fraction", "function (x, y) { return (x - y) / 16 }"),
    ("infinite", "function (x, y) { return x < y ? -Infinity : x > y ? Infinity : 0 }"),
    ("string result", 'function (x, y) { return x < y ? "-1" : x > y ? "1" : "0" }'),
    ("boolean/null result", "function (x, y) { return x < y ? -1 : x > y ? true : null }"),
    ("arrow", "(x, y) => x - y"),
]
TAGS = "abcde"


def sort_cases():
    out = []
    for recv in RECEIVERS + SORT_EXTRA_RECV:
        nt = recv != "[]"
        _case(out, prog(recv, "a.sort()"), "sort", nt, cb="default")
        _case(out, prog(recv, "a.sort(undefined)"), "sort", nt, cb="default")
        _case(out, prog(recv, "a.sort(function () { return 0 })"), "sort", nt, cb="constant 0")
        _case(out, prog(recv, "a.sort(function () { return NaN })"), "sort", nt, cb="constant NaN")
        _case(out, prog(recv, "a.sort(function () { })"), "sort", nt, cb="constant undefined")
        for nc in ("null", "1", '"s"', "{}"):
            _case(out, prog(recv, "a.sort(%s)" % nc), "sort", True, cb="not callable")
        _case(out, prog(recv, 'a.sort(function (x, y) { if (n++ === 0) throw "boom"; return 0 })'), "sort", nt, cb="throws")
    for recv in NUMERIC_RECV:
        for kind, cmp_ in SORT_CMP:
            _case(out, prog(recv, "a.sort(%s)" % cmp_), "sort", recv != "[]", cb=kind)
    # stability: tagged equal keys (and undefined elements) in every arrangement of length 1..5
    for ln in range(1, 6):
        for keys in itertools.product("01u", repeat=ln):
            elems = ", ".join("undefined" if k == "u" else '{k: %s, t: "%s"}' % (k, TAGS[i]) for i, k in enumerate(keys))
            for kind, cmp_ in (("by key", "function (x, y) { return x.k - y.k }"),
                               ("by key descending", "function (x, y) { return y.k - x.k }")):
                src = ("var a = [%s]; var r; var s = \"\"; try { r = a.sort(%s) } %s "
                       "for (var i = 0; i < a.length; i++) s += a[i] === undefined ? \"u\" : a[i].t; "
                       "__out(r === a); __out(a.length); s" % (elems, cmp_, CATCH))
                _case(out, src, "sort", ln > 1, cb="stability " + kind)
    # longer stability runs: 12 and 23 elements, keys i % 3 (V8 switches algorithm above 10 elements)
    for ln in (12, 23):
        for mod in (2, 3, 5):
            elems = ", ".join('{k: %d, t: "%s"}' % ((i * 7) % mod, chr(97 + i)) for i in range(ln))
            src = ("var a = [%s]; var r; var s = \"\"; try { r = a.sort(function (x, y) { return x.k - y.k }) } %s "
                   "for (var i = 0; i < a.length; i++) s += a[i].t; __out(r === a); s" % (elems, CATCH))
            _case(out, src, "sort", True, cb="stability by key")
    return out


# ------------------------------------------------------------------------------------- histories

ALPHABET = [
    "a.push(4)", "b.push(5,6)", "b.pop()", "a.shift()", "b.unshift(0)",
    "a.splice(1,1)", "a.splice(1,0,7,8)", "a.splice(-1)", "a.splice(0)", "if(b!==c)b.splice(0,1,c)",
    "a.reverse()", "a.sort()", "b.length=1", "a.length=0",
    "a[0]=5", "a[a.length]=6", "if(b.length)b[b.length-1]=8",
    "c=a.concat(c)", "a=a.slice(1)", "c.push(a.length)", "b=c", "a=b", "c=b.splice(1,2)", "a.unshift(c.pop())",
]
H_HEAD = ('var a=[1,2,3],b=a,c=[9];function L(){__out([a,b,c,a===b,b===c])}'
          'function T(e){__out("throw:"+e.name)}')
H_STEP = ["try{%s}catch(e){T(e)}L();" % s for s in ALPHABET]
N_STRATA = 6


def hist_src(seq):
    return H_HEAD + "".join(H_STEP[i] for i in seq)


def hist_core_cases():
    out = []
    n = len(ALPHABET)
    for d in (1, 2, 3):
        for seq in itertools.product(range(n), repeat=d):
            out.append((hist_src(seq), None))
    return out


def hist_stratum_cases(k):
    """Depth-4 histories whose first statement index is congruent to k modulo N_STRATA."""
    out = []
    n = len(ALPHABET)
    for first in range(k, n, N_STRATA):
        for rest in itertools.product(range(n), repeat=3):
            out.append((hist_src((first,) + rest), None))
    return out


class HistStats:
    def __init__(self):
        self.reset()

    def reset(self):
        self.states = set()
        self.ref_states = set()
        self.transitions = 0
        self.validated = 0
        self.histories = 0


HSTATS = HistStats()


def _states_of(outcome):
    return [e for e in outcome.rpartition("|")[0].split(";") if e[:1] == "["]


def agree_hist(exp, obs, cid):
    """Equality, and (parent side) bookkeeping of the explored state graph for the evidence file."""
    ok = exp == obs
    st = HSTATS
    st.histories += 1
    ref = _states_of(exp)
    st.transitions += len(ref)
    st.ref_states.update(hash(s) for s in ref)
    if ok:
        st.validated += 1
        st.states.update(hash(s) for s in ref)
    else:
        st.states.update(hash(s) for s in _states_of(obs))
    return ok


def extra_coverage(res):
    st = HSTATS
    return {
        "states": len(st.states),
        "states_reference": len(st.ref_states),
        "transitions": st.transitions,
        "histories": st.histories,
        "traces_validated_against_impl": st.validated,
        "state_definition": "one state = the tuple (contents of a, contents of b, contents of c, a===b, b===c) "
                            "logged after a step; `states` = distinct tuples logged by the engine under test, "
                            "`states_reference` = distinct tuples in V8's logs for the same histories; "
                            "transitions = history steps executed; no deduplication of histories is applied",
    }


# ------------------------------------------------------------------------------------ typed arrays

KINDS = ["Int8Array", "Uint8Array", "Uint8ClampedArray", "Int16Array", "Uint16Array", "Int32Array", "Uint32Array",
         "Float32Array", "Float64Array"]
TVALUES = [
    "0", "1", "-1", "127", "128", "129", "-128", "-129", "255", "256", "257", "32767", "32768", "-32768", "-32769",
    "65535", "65536", "65537", "2147483647", "2147483648", "-2147483648", "-2147483649", "4294967295", "4294967296",
    "4294967297", "9007199254740991", "0.5", "1.5", "2.5", "254.5", "255.5", "-0.5", "-1.5", "0.49999999999999994",
    "NaN", "Infinity", "-Infinity", "-0", '"3"', "null", "undefined", "true",
    "16777217", "3.4028235677973366e38", "1e39", "1e-46", "1e21", '"abc"',
]
LEN_VALUES = ["", "0", "1", "3", "1.9", '"2"', "null", "undefined", "true", "false", "NaN", "-0", "-1", '"abc"', "-0.5",
              "Infinity", "-Infinity", "257", "[]", '"1e1"']
PATTERNS = [
    "[1, 2, 3, 4, 5, 6, 7, 8, 9, 10, 11, 12, 13, 14, 15, 16]",
    "[-1, -1, -1, -1, -1, -1, -1, -1, -1, -1, -1, -1, -1, -1, -1, -1]",
    "[255, 256, 257, 258, 511, 512, 513, 1023, 1024, 1025, 4095, 4096, 254, 253, 252, 251]",
    "[127, 128, 129, 130, -127, -128, -129, -130, 126, 125, 124, 123, 122, 121, 120, 119]",
    "[32767, 32768, 32769, -32768, -32769, 65535, 65536, 65537, 1, 2, 3, 4, 5, 6, 7, 8]",
    "[2147483647, 2147483648, -2147483648, -2147483649, 4294967295, 4294967296, 1, 2, 3, 4, 5, 6, 7, 8, 9, 10]",
    "[0.5, 1.5, 2.5, 3.5, -0.5, -1.5, 254.5, 255.5, 0.25, 0.75, 1.25, 1.75, 2.25, 2.75, 3.25, 3.75]",
    "[NaN, Infinity, -Infinity, -0, NaN, Infinity, -Infinity, -0, 0, 1, 2, 3, 4, 5, 6, 7]",
    "[1.1, -1.1, 3.14159, 1e10, -1e10, 1e-10, 123456.789, -0.001, 1, 2, 3, 4, 5, 6, 7, 8]",
    "[305419896, 2596069104, 19088743, 2309737967, 4660, 22136, 18, 52, 86, 120, 154, 188, 222, 240, 1, 35]",
    "[1e-3, 1e300, 5e-324, 1.7976931348623157e308, 1e38, 1e39, 1e-45, 1e-46, 16777216, 16777217, 1, 2, 3, 4, 5, 6]",
    "[65535, 65536, -32768, -32769, 4294967295, -4294967295, 16711935, 4278255360, 43690, 21845, 170, 85, 1, 2, 3, 4]",
]


def typed_value_cases():
    out = []
    for k in KINDS:
        for v in TVALUES:
            nt = v not in ("0", "1")
            _case(out, "var t = new %s(2); var r = (t[0] = %s); __out(r); __out(t); t[0]" % (k, v), "t[0] = v", nt, kind=k)
            _case(out, "var t = new %s([%s, 1]); __out(t); t[0]" % (k, v), "new K([v])", nt, kind=k)
            _case(out, "var t = new %s(3); var r = t.set([%s], 1); __out(r); t" % (k, v), "set", nt, kind=k)
            _case(out, "var t = new %s([1, 2, 3]); var s = t.subarray(1); s[0] = %s; __out(s); t" % (k, v),
                  "subarray aliasing", nt, kind=k)
        for v in LEN_VALUES:
            _case(out, 'var t; var r; try { t = new %s(%s); r = t.length } catch (e) { r = "throw:" + e.name } '
                       '__out(r); t === undefined ? "none" : t[0]' % (k, v), "new K(length)", True, kind=k)
        _case(out, "var t = new %s([1, 2, 3]); __out(t.BYTES_PER_ELEMENT); __out(t.buffer === t.buffer); "
                   "__out(t.byteLength); __out(t.byteOffset); t.length" % k, "properties", True, kind=k)
    return out


def typed_index_cases():
    out = []
    args2 = two_index_args()
    for k in KINDS:
        for i in KEY_STRINGS:
            _case(out, "var t = new %s([1, 2, 3]); __out(t[%s]); var r; try { r = (t[%s] = 7) } %s __out(r); __out(t); t[%s]"
                  % (k, i, i, CATCH, i), "t[key]", True, kind=k)
            _case(out, "var t = new %s([1, 2, 3]); __out(%s in t); __out(Object.keys(t)); JSON.stringify(Object.getOwnPropertyDescriptor(t, %s))"
                  % (k, i, i), "t own key", True, kind=k)
        for i in IDX:
            _case(out, "var t = new %s([1, 2, 3]); t[%s]" % (k, i), "t[i] read", True, kind=k)
            _case(out, "var t = new %s([1, 2, 3]); var r; try { r = (t[%s] = 7) } %s __out(r); __out(t.length); t"
                  % (k, i, CATCH), "t[i] = v", True, kind=k)
        for a in args2:
            _case(out, "var t = new %s([1, 2, 3, 4]); var s; try { s = t.subarray(%s); s[0] = 9 } %s __out(t); s"
                  % (k, a, CATCH), "subarray", True, kind=k)
        for src in ("[7, 8]", "new Uint8Array([7, 8])", "new Float64Array([7.5, -8.5])", "new %s([300, -8])" % k, "[]",
                    '"78"', "5", "null", "{length: 1, 0: 9}"):
            for off in [""] + IDX:
                if src == "{length: 1, 0: 9}" and off not in ("", "0", "1"):
                    continue
                _case(out, "var t = new %s([1, 2, 3, 4]); var r; try { r = t.set(%s%s) } %s __out(r); t"
                      % (k, src, (", " + off) if off else "", CATCH), "set", True, kind=k)
        _case(out, "var t = new %s([1, 2, 3, 4]); var r; try { r = t.set() } %s __out(r); t" % (k, CATCH), "set", True, kind=k)
        for args in ("", ", 0", ", 8", ", 16", ", 1", ", 3", ", 17", ", 24", ", 0, 1", ", 8, 1", ", 8, 100", ", 0, 0", ", -8",
                     ", undefined, 1", ', "8"', ", 8, undefined"):
            _case(out, 'var buf = new ArrayBuffer(16); var u = new Uint8Array(buf); for (var i = 0; i < 16; i++) u[i] = i + 1; '
                       'var t; var r; try { t = new %s(buf%s); r = t.length } %s __out(r); t' % (k, args, CATCH),
                  "new K(buffer, offset, length)", True, kind=k)
    return out


def typed_view_cases():
    out = []
    for k1 in KINDS:
        for k2 in KINDS:
            for p, pat in enumerate(PATTERNS):
                src = ("var buf = new ArrayBuffer(16); var x = new %s(buf); var y = new %s(buf); var p = %s; "
                       "for (var i = 0; i < x.length; i++) x[i] = p[i]; __out(y); "
                       "y[0] = p[1]; y[y.length - 1] = p[2]; __out(x); buf.byteLength" % (k1, k2, pat))
                _case(out, src, "views", True, kind=k1 + "->" + k2)
    return out


def typed_copy_cases():
    """a typed array built FROM another typed array (constructor, set, subarray of subarray) after the shared buffer was written
    through a view of another kind"""
    out = []
    for k1 in KINDS:
        for k2 in KINDS:
            for p, pat in enumerate(PATTERNS[:6] + PATTERNS[9:10]):
                src = ("var buf = new ArrayBuffer(16); var x = new %s(buf); var y = new %s(buf); var p = %s; "
                       "var c0 = new %s(y); for (var i = 0; i < x.length; i++) x[i] = p[i]; "
                       "var c = new %s(y); var d = new %s(y.subarray(1)); var e = new %s(y); var f = new %s(y.length); f.set(y); "
                       "var g = new %s(y.length); g.set(y.subarray(1), 1); var h = y.subarray(1).subarray(1); x[x.length - 1] = p[3]; "
                       "__out(c0); __out(c); __out(d); __out(e); __out(f); __out(g); __out(h); __out(c.buffer === buf); new %s(h)"
                       % (k1, k2, pat, k2, k2, k2, k1, k2, k1, k2))
                _case(out, src, "copies", True, kind=k1 + "->" + k2)
    return out


TYPED_SOURCES = ["", "3", "'3'", "null", "undefined", "true", "1.5", "-1", "NaN", "[1, 2, 300]", "[1, 'x', null, undefined, true, [3], {}, '7']",
                 "{length: 2, 0: 5, 1: 6}", "{length: '2', 0: 5}", "{length: -1, 0: 5}", "{0: 5}", "{}", "'ab'", "(function () { return arguments })(7, 8)",
                 "new Uint8Array([1, 200])", "new Int8Array([-1, 5])", "new Float64Array([1.5, -2.5, 1e10])", "new Uint8Array([1, 2, 3]).subarray(1)",
                 "[[1], [2, 3]]", "{length: 2, get 0() { return 9 }, 1: {valueOf: function () { return 4 }}}", "/a/"]
TYPED_USES = ["t", "t.length", "(function () { var r = []; for (var v of t) { r.push(v) } return r })()", "(function () { var r = []; for (var k in t) { r.push(k) } return r })()",
              "Object.keys(t).join()", "[t.hasOwnProperty(0), t.hasOwnProperty(t.length), t.hasOwnProperty('length'), 0 in t, 'length' in t].join()",
              "[t.constructor === K, t instanceof K, t.buffer instanceof ArrayBuffer, t.buffer.constructor === ArrayBuffer, typeof t.valueOf(), K.BYTES_PER_ELEMENT].join()",
              "String(t) + '|' + t.join('-') + '|' + JSON.stringify(t)", "Math.max.apply(null, t)", "[].concat(t).length"]


def typed_source_cases():
    out = []
    for k in ("Uint8Array", "Int16Array", "Float32Array", "Uint8ClampedArray"):
        for src in TYPED_SOURCES:
            for u in TYPED_USES:
                p = "var K = %s; var r; try { r = (function () { var t = new K(%s); return %s })() } catch (e) { r = 'throw:' + e.name } r" % (k, src, u)
                _case(out, p, "new K(source)", True, kind=k)
    return out


def run_join_state(payload):
    """inline oracle: converting arrays to strings gives the same answers after k conversions that failed (nesting too deep,
    a throwing element) as before them - in the same evaluation, in a later evaluation on the same context and on a new one"""
    from mc.props.common import engine
    e = engine()
    k, depth, how = payload["k"], payload["depth"], payload["how"]
    probes = ("function probes() { var o = []; var ps = [function () { return [1, [2, [3, [4]]]].join() }, function () { return String(ok) }, "
              "function () { return '' + [ok, ok] }, function () { return 'x'.concat(ok) }, function () { return [[], [[]], [null], [undefined, 1]].join('-') }, "
              "function () { var d = [5]; for (var i = 0; i < 90; i++) { d = [d] } return d.join() }, "
              "function () { try { return 'no error: ' + bad.join() } catch (err) { return err.name } }, "
              "function () { try { return 'no error: ' + String([bad]) } catch (err) { return err.name } }, "
              "function () { try { return 'no error: ' + inner.join() } catch (err) { return err.name } }]; "
              "for (var i = 0; i < ps.length; i++) { try { o.push(ps[i]()) } catch (err) { o.push('E:' + err.name) } } return o.join('~') } ")
    if how == "deep":
        mk = "var bad = [7]; var inner; for (var i = 0; i < %d; i++) { if (i === 20) { inner = bad } bad = [bad] } " % depth
    elif how == "thrower":
        mk = "var inner = [{toString: function () { throw new RangeError('t') }}]; var bad = [1, [2, inner]]; "
    else:       # cyclic
        mk = "var inner = [1]; var bad = [inner, 2]; inner.push(bad); "
    src1 = ("var ok = [1, [2, 3], 'x']; " + mk + probes + "var before = probes(); for (var j = 0; j < %d; j++) { try { bad.join() } catch (err) { } "
            "try { String(bad) } catch (err) { } try { 'x'.concat([bad]) } catch (err) { } } var after = probes(); "
            "__out(before === after ? 'same' : before + ' / ' + after); before" % k)
    oc1, ctx = e.run_program(src1, tl=20000, want_ctx=True)
    log1, _, tail1 = oc1.rpartition("|")
    if not tail1.startswith("R") or 'same' not in log1:
        return "within one evaluation: %s\x00ok" % oc1[:300]
    # a fresh context, evaluated after the failures, must give the same `before`
    src2 = "var ok = [1, [2, 3], 'x']; " + mk + probes + "probes()"
    oc2 = e.run_program(src2, tl=20000)
    if oc2.rpartition("|")[2] != tail1:
        return "fresh context after %d failed conversions: %s instead of %s\x00ok" % (k, oc2[-200:], tail1[-200:])
    return "ok\x00ok"


def join_state_cases():
    out = []
    for how, depths in (("deep", (99, 100, 101, 102, 150, 400)), ("thrower", (0,)), ("cyclic", (0,))):
        for depth in depths:
            for k in (1, 2, 5, 40, 120):
                out.append(("%s%s, %d failed conversions" % (how, " depth %d" % depth if depth else "", k), {"how": how, "depth": depth, "k": k}))
    return out


# ------------------------------------------------------------------------------------------ spaces

def nontrivial(cid, payload, exp):
    if isinstance(payload, dict):
        return payload.get("nt", True)
    # histories: at least two steps
    return cid.count("L();") >= 2


def _space(name, cases, rule, bound, agree=None, batch=300):
    return Space(name, RUN, cases, oracle="table", nontrivial=nontrivial, rule=rule, bound=bound, batch=batch, agree=agree)


def core_spaces():
    return [
        _space("c17_grid_index", grid_index_cases,
               "slice/splice (0-2 index arguments over the 14-value index grid, and splice with 2 inserted items), "
               "indexOf/lastIndexOf/includes (12 search values x fromIndex grid), a[i] reads, length; 14 receivers; "
               "non-trivial = receiver not empty", "14 receivers x index grid^2"),
        _space("c17_grid_plain", grid_plain_cases,
               "push pop shift unshift reverse toString join concat Array.isArray, a[i]=v for i<=length, a.length=n for "
               "n<=length and invalid lengths; 14 receivers", "14 receivers x argument menus"),
        _space("c17_grid_callback", grid_callback_cases,
               "find findIndex filter map forEach some every reduce reduceRight x 14 receivers x callbacks (identity, "
               "predicate, arrow, (v,i,arr) logger, this logger with 4 thisArgs, 4 mutators, 3 non-boolean results, 2 "
               "throwers, 6 non-callables); reduce x 4 initial-value forms", "9 methods x 14 receivers x 23 callbacks"),
        _space("c17_grid_sort", sort_cases,
               "sort: default order on 26 receivers, constant / non-callable / throwing comparators, 7 consistent numeric "
               "comparators on numeric receivers, stability with tagged equal keys and undefined elements for every key "
               "arrangement of length 1..5 plus runs of 12 and 23 elements", "26 receivers; 3^1..3^5 arrangements x 2"),
        _space("c17_hist_d3", hist_core_cases,
               "every history of 1..3 statements over the 24-statement alphabet on `var a=[1,2,3],b=a,c=[9]`; after each "
               "step logs [a, b, c, a===b, b===c]; a statement that throws logs the error name and the history goes on; "
               "non-trivial = at least two steps", "24 + 24^2 + 24^3", agree=agree_hist),
        _space("c17_typed_value", typed_value_cases,
               "9 kinds x 48 stored values x {t[0]=v, new K([v]), set([v],1), store through subarray}, new K(length) x 20 "
               "length values, element-size/buffer properties; non-trivial = value not 0 or 1", "9 x 48 x 4 + 9 x 21"),
        _space("c17_typed_index", typed_index_cases,
               "typed t[i] read/write over the index grid, subarray(begin,end) over the index grid^2 with a store through "
               "the result, set(source, offset) x 9 sources x offset grid, new K(buffer, byteOffset, length)",
               "9 kinds x index grid^2"),
        _space("c17_typed_views", typed_view_cases,
               "all 81 ordered pairs of kinds as two views over one 16-byte ArrayBuffer x 12 value patterns written "
               "through the first and read through the second, then two stores through the second read through the first",
               "81 x 12"),
        _space("c17_typed_source", typed_source_cases,
               "4 kinds x %d construction sources (nothing, lengths of every type, arrays with odd elements, array-likes with odd lengths "
               "and accessor elements, strings, arguments objects, typed arrays and subarrays, nested arrays, a regex) x %d uses "
               "(contents, length, for-of, for-in, keys, own-key tests, constructor / instanceof / buffer, renderings, apply, concat)" % (
                   len(TYPED_SOURCES), len(TYPED_USES)), "4 x %d x %d" % (len(TYPED_SOURCES), len(TYPED_USES))),
        _space("c17_typed_copy", typed_copy_cases,
               "all 81 ordered pairs of kinds: typed arrays built from a view (constructor before and after the writes, constructor "
               "from a subarray, set(view), set(subarray, offset), subarray of a subarray) after the shared buffer was written through "
               "a view of the other kind, 7 value patterns; the copies must not share the buffer", "81 x 7"),
        Space("c17_join_state", "mc.props.c17:run_join_state", join_state_cases, oracle="inline", batch=1, watchdog=120,
              rule="9 array-to-string probes (join, String, +, concat; nesting up to 90; the failing arrays themselves) give the same "
                   "answers before and after k in {1,2,5,40,120} failed conversions (nesting 99..400 deep, a throwing element, a "
                   "cycle through three entry points), and on a fresh context afterwards", bound="8 failure shapes x 5 repetition counts"),
    ]


def strata():
    return [_space("c17_hist_d4_%d" % k, lambda k=k: hist_stratum_cases(k),
                   "every depth-4 history whose first statement has index = %d mod %d" % (k, N_STRATA),
                   "4 x 24^3", agree=agree_hist) for k in range(N_STRATA)]


def spaces(tier, seed, all_strata=False):
    HSTATS.reset()
    core = core_spaces()
    st = strata()
    if tier == "thorough" or all_strata:
        return core + st
    return core + [st[seed % len(st)]]


def agree_for_space(name):
    return (lambda e, o, c: e == o)


# --------------------------------------------------------------------------------------- signature

def _throws(entries):
    for e in entries:
        if e.startswith('s"throw'):
            return e[2:-1].replace("throw-s:", "thrown string ").replace("throw:", "")
    return None


def _diff_kind(exp, obs, grid):
    """Words for how an observed outcome differs (error behaviour first, then which observation)."""
    le, _, te = exp.rpartition("|")
    lo, _, to = obs.rpartition("|")
    if to.startswith("Ehost") or to in ("Etime", "Ememory"):
        return mismatch_kind(exp, obs)
    a, b = le.split(";"), lo.split(";")
    xe, xo = _throws(a), _throws(b)
    if xe and not xo:
        return "does not throw %s" % xe
    if xo and not xe:
        return "throws %s where no error is specified" % xo
    if xe != xo:
        return "throws %s where %s is specified" % (xo, xe)
    if te[:1] == "E" or to[:1] == "E":
        return mismatch_kind(exp, obs)
    parts = []
    if te != to:
        parts.append("wrong result")
    if grid and len(a) >= 2 and len(b) >= 2:
        if a[-1] != b[-1]:
            parts.append("wrong receiver contents afterwards")
        if a[-2] != b[-2]:
            parts.append("wrong result identity")
        if a[:-2] != b[:-2]:
            parts.append("callback call sequence/arguments differ")
    elif a != b:
        parts.append("logged contents differ")
    return ", ".join(parts) or "differs"


def signature(sp, cid, payload, exp, obs):
    le, lo = exp.rpartition("|")[0], obs.rpartition("|")[0]
    if "hist" in sp.name:
        se, so = le.split(";"), lo.split(";")
        steps = cid[len(H_HEAD):].split("L();")
        pe = po = 0
        for st in steps[:-1]:
            ee, pe = _step_entries(se, pe)
            oo, po = _step_entries(so, po)
            if ee != oo:
                stmt = st[len("try{"):st.index("}catch(e)")]
                if len(oo) > len(ee):
                    how = "throws " + oo[0][2:-1].replace("throw:", "")
                elif len(oo) < len(ee):
                    how = "does not throw " + ee[0][2:-1].replace("throw:", "")
                else:
                    how = "leaves different contents in a/b/c"
                return "hist|%s|%s" % (stmt, how), "history: first diverging step `%s` %s" % (stmt, how)
        kind = mismatch_kind(exp, obs)
        return "hist|?|" + kind, "history: " + kind
    m = payload.get("m", "?") if isinstance(payload, dict) else "?"
    extra = ""
    if isinstance(payload, dict) and payload.get("cb"):
        extra = " [" + payload["cb"] + "]"
    fam = "typed array" if "typed" in sp.name else "array"
    kind = _diff_kind(exp, obs, "grid" in sp.name)
    return "%s|%s%s|%s" % (fam, m, extra, kind), "%s %s%s: %s" % (fam, m, extra, kind)


def _step_entries(entries, pos):
    got = []
    while pos < len(entries):
        e = entries[pos]
        pos += 1
        got.append(e)
        if e[:1] == "[":
            break
    return got, pos
