"""C14  Program size never changes meaning: big programs run right or are refused.

E1: shape templates x scale parameter n swept across every encoding boundary of the instruction format
(operand 255/256, jump target 65535/65536 and beyond). Every template has a closed-form result in n.
The boundary in bytes is located on the real compiler output (binary search in the worker), then every
n in a window around it is executed. Accepted outcomes: the closed form, or a JSError raised before the
first statement ran (refused up front). Anything else - other value, host exception, late error - violates.
"""
from mc.core.runner import Space

PROP = "C14"
LEVEL = "exploration"
ASSUMPTIONS = [
    "closed forms are hand-derived per template; 'refused up front' = a JSError (not a limit error) raised while the "
    "logging first statement has not run",
    "scale parameters beyond 4 x the 65535-byte boundary are not explored",
]


def _seq(n, fmt, sep=""):
    return sep.join(fmt % i for i in range(n))


def gen(t, n):
    """-> (source, expected completion value as python number/str)"""
    if t == "stmts_program":
        return "__out(1); var s = 0; " + "s += 1; " * n + "s", n
    if t == "stmts_function":
        return "__out(1); function f() { var s = 0; " + "s += 1; " * n + "return s } f()", n
    if t == "loop_body":
        return "__out(1); var s = 0; for (var i = 0; i < 2; i++) { " + "s += 1; " * n + "} s", 2 * n
    if t == "while_body":
        return "__out(1); var s = 0, i = 0; while (i < 2) { i++; " + "s += 1; " * n + "} s", 2 * n
    if t == "dowhile_continue":
        return ("__out(1); var s = 0, i = 0; do { i++; if (i > 0) { s += 100000; continue } " + "s += 1; " * n + "} while (i < 2); s"), 200000
    if t == "for_continue":
        return ("__out(1); var s = 0; for (var i = 0; i < 2; i++) { if (i >= 0) { s += 100000; continue } " + "s += 1; " * n + "} s"), 200000
    if t == "callback_loop":
        return ("__out(1); var s = 0; [1, 2].forEach(function () { for (var i = 0; i < 2; i++) { " + "s += 1; " * n + "} }); s"), 4 * n
    if t == "callback_branch":
        return ("__out(1); var s = 0; [1].map(function () { var c = false; if (c) { " + "s += 1; " * n + "} else { s = -1 } }); s"), -1
    if t == "comparator_try":
        return ("__out(1); var s = 0; [2, 1].sort(function (a, b) { try { " + "s += 1; " * n + "throw 1 } catch (e) { s += 1000000 } return a - b }); s"), \
            n + 1000000
    if t == "getter_switch":
        return ("__out(1); var o = {get x() { var r = -2; switch (%d) { " % n + "".join("case %d: r = %d; break; " % (i, i) for i in range(n))
                + "default: r = -1 } return r }}; o.x"), -1
    if t == "then_taken":
        return "__out(1); var s = 0, c = true; if (c) { " + "s += 1; " * n + "} else { s = -1 } s", n
    if t == "then_skipped":
        return "__out(1); var s = 0, c = false; if (c) { " + "s += 1; " * n + "} else { s = -1 } s", -1
    if t == "cond_expr":
        return "__out(1); var c = false, s = 0; var r = c ? (" + "s += 1, " * n + "1) : 2; r * 1000 + s", 2000
    if t == "before_catch":
        return "__out(1); var s = 0; try { " + "s += 1; " * n + "throw 1 } catch (e) { s += 1000000 } s", n + 1000000
    if t == "finally_after":
        return "__out(1); var s = 0; try { " + "s += 1; " * n + "} finally { s += 1000000 } s", n + 1000000
    if t == "break_far":
        return "__out(1); var s = 0; for (;;) { s += 5; break; " + "s += 1; " * n + "} s", 5
    if t == "switch_cases":
        k = max(n - 1, 0)
        return ("__out(1); var r = -2; switch (%d) { " % k + "".join("case %d: r = %d; break; " % (i, i) for i in range(n))
                + "default: r = -1 } r"), (k if n > 0 else -1)
    if t == "switch_default":
        return ("__out(1); var r = -2; switch (%d) { " % n + "".join("case %d: r = %d; break; " % (i, i) for i in range(n))
                + "default: r = -1 } r"), -1
    if t == "array_literal":
        return "__out(1); var a = [" + _seq(n, "%d", ", ") + "]; a.length * 1000003 + (a.length ? a[a.length - 1] : 0)", \
            n * 1000003 + (n - 1 if n else 0)
    if t == "object_literal":
        return ("__out(1); var o = {" + ", ".join("p%d: %d" % (i, i) for i in range(n)) +
                "}; Object.keys(o).length * 1000003 + (%s)" % ("o.p%d" % (n - 1) if n else "0")), \
            n * 1000003 + (n - 1 if n else 0)
    if t == "call_args":
        return ("__out(1); function f() { var k = arguments.length; return k * 1000003 + (k ? arguments[k - 1] : 0) } f(" +
                _seq(n, "%d", ", ") + ")"), n * 1000003 + (n - 1 if n else 0)
    if t == "params":
        return ("__out(1); function f(" + _seq(n, "p%d", ", ") + ") { return " + ("p%d + p0" % (n - 1) if n else "0") + " } f(" +
                _seq(n, "%d", ", ") + ")"), (n - 1 if n else 0)
    if t == "num_constants":
        return "__out(1); var s = 0; " + "".join("s += %d; " % (1000 + i) for i in range(n)) + "s", sum(1000 + i for i in range(n))
    if t == "str_constants":
        return "__out(1); var s = 'none'; " + "".join("s = 'c%d'; " % i for i in range(n)) + "s", ("c%d" % (n - 1) if n else "none")
    if t == "globals":
        return "__out(1); " + "".join("var g%d = %d; " % (i, i) for i in range(n)) + ("g%d + g0" % (n - 1) if n else "0"), \
            (n - 1 if n else 0)
    if t == "locals":
        return ("__out(1); function f() { " + "".join("var v%d = %d; " % (i, i) for i in range(n)) +
                "return " + ("v%d + v0" % (n - 1) if n else "0") + " } f()"), (n - 1 if n else 0)
    if t == "captured":
        return ("__out(1); function f() { " + "".join("var v%d = %d; " % (i, i) for i in range(n)) +
                "return function () { return " + ("v%d + v0 + %s" % (n - 1, " + ".join("v%d * 0" % i for i in range(0, n, 7))) if n else "0")
                + " } } f()()"), (n - 1 if n else 0)
    # one dimension at a time: many variables of one kind with only 7 distinct constants, every variable read (and written)
    if t in ("locals_sum", "captured_sum", "captured_bump", "captured_deep", "params_sum", "globals_sum", "cellvars_owner"):
        names = ["v%d" % k for k in range(n)]
        total = " + ".join(names) if n else "0"
        want = sum(k % 7 for k in range(n))
        decl = ("var " + ", ".join("%s = %d" % (v, k % 7) for k, v in enumerate(names)) + "; ") if n else ""
        bump = " ".join("%s = %s + 1;" % (v, v) for v in names)
        if t == "locals_sum":
            return "__out(1); function f() { %s%s return %s } f()" % (decl, bump, total), want + n
        if t == "globals_sum":
            return "__out(1); %s%s %s" % (decl, bump, total), want + n
        if t == "params_sum":
            return ("__out(1); function f(%s) { %s return %s } f(%s)" % (", ".join(names), bump, total, ", ".join(str(k % 7) for k in range(n)))), want + n
        if t == "captured_sum":
            return "__out(1); function f() { %sfunction g() { return %s } return g() } f()" % (decl, total), want
        if t == "captured_bump":
            return ("__out(1); function f() { %sfunction g() { return %s } function b() { %s } var a = g(); b(); return a * 100000 + g() } f()"
                    % (decl, total, bump)), want * 100000 + want + n
        if t == "captured_deep":
            return ("__out(1); function f() { %sreturn function () { return function () { %s return %s } } } f()()()" % (decl, bump, total)), want + n
        if t == "cellvars_owner":
            # the owner itself reads and writes its captured variables
            return ("__out(1); function f() { %sfunction g() { return %s } %s return g() * 100000 + (%s) } f()" % (decl, total, bump, total)), \
                (want + n) * 100000 + want + n
    if t == "function_literals":
        return ("__out(1); " + "".join("var f%d = function () { return %d }; " % (i, i) for i in range(n)) +
                ("f%d() + f0()" % (n - 1) if n else "0")), (n - 1 if n else 0)
    if t == "string_literal":
        return "__out(1); '" + "a" * n + "'.length", n
    if t == "sum_chain":
        return "__out(1); var a = 1; " + " + ".join(["a"] * max(n, 1)), max(n, 1)
    if t == "member_chain":
        return "__out(1); var o = {}; o.p = o; o.v = 7; o" + ".p" * n + ".v", 7
    if t == "comma_chain":
        return "__out(1); var s = 0; (" + ", ".join(["s += 1"] * max(n, 1)) + "); s", max(n, 1)
    # constructs whose own jumps are short but which START after n statements of straight-line code (their back-edges and
    # handler addresses are then the large numbers)
    if t.startswith("after_"):
        pre = "__out(1); var s = 0; " + "s += 1; " * n
        body, extra = AFTER[t[6:]]
        return pre + body + "; s", n + extra
    if t.startswith("fafter_"):
        body, extra = AFTER[t[7:]]
        return "__out(1); function f() { var s = 0; " + "s += 1; " * n + body + "; return s } f()", n + extra
    # large literals: the value is that of the mathematical number, rounded to double (Infinity beyond the range)
    if t == "dec_digits":
        return "__out(1); 1" + "0" * n, _to_double(10 ** n)
    if t == "dec_nines":
        return "__out(1); 9" + "9" * n, _to_double(10 ** (n + 1) - 1)
    if t == "hex_digits":
        return "__out(1); 0x1" + "f" * n, _to_double(int("1" + "f" * n, 16))
    if t == "bin_digits":
        return "__out(1); 0b1" + "0" * n, _to_double(2 ** n)
    if t == "oct_digits":
        return "__out(1); 0o1" + "7" * n, _to_double(int("1" + "7" * n, 8))
    if t == "frac_zeros":
        return "__out(1); 0." + "0" * n + "1", float("0." + "0" * n + "1")
    if t == "frac_digits":
        return "__out(1); 1." + "3" * n, float("1." + "3" * n)
    if t == "exponent":
        return "__out(1); 1e%d" % n, float("1e%d" % n)
    if t == "neg_exponent":
        return "__out(1); 1e-%d" % n, float("1e-%d" % n)
    if t == "digits_exponent":
        return "__out(1); 1" + "0" * n + "e-%d" % n, float("1" + "0" * n + "e-%d" % n)
    if t == "string_digits":
        return "__out(1); +'1" + "0" * n + "'", _to_double(10 ** n)
    # a program refused inside a nested evaluation, over and over: every refusal is the same catchable error and leaves
    # nothing behind (callbacks and further evals still work)
    if t in ("eval_refused", "function_refused"):
        big = "[" + ", ".join("%d" % k for k in range(300)) + "]"
        call = "eval(big)" if t == "eval_refused" else "Function('return ' + big)"
        return ("__out(1); var big = '%s', msgs = {}, r = 0; for (var i = 0; i < %d; i++) { try { %s; r += 1000000 } catch (e) { r++; "
                "msgs[e.name + ':' + e.message] = 1 } } var k = Object.keys(msgs); var okmsg = %d === 0 || (k.length === 1 && /too (large|many)/i.test(k[0])); "
                "r * 1000 + [1, 2, 3].map(function (x) { return x * 2 }).length * 100 + (okmsg ? 10 : 0) + eval('1 + 1')"
                % (big, n, call, n)), n * 1000 + 300 + 10 + 2
    raise ValueError(t)


def _to_double(i):
    try:
        return float(i)
    except OverflowError:
        return float("inf")


AFTER = {
    "dowhile": ("var i = 0; do { i++; s += 10 } while (i < 3)", 30),
    "while": ("var i = 0; while (i < 3) { i++; s += 10 }", 30),
    "for": ("for (var i = 0; i < 3; i++) { s += 10 }", 30),
    "forin": ("for (var k in {a: 1, b: 2, c: 3}) { s += 10 }", 30),
    "forof": ("for (var k of [1, 2, 3]) { s += 10 }", 30),
    "continue": ("var i = 0; do { i++; if (i === 2) continue; s += 10 } while (i < 3)", 20),
    "labelled": ("var i = 0; L: do { i++; do { s += 10; continue L } while (true); } while (i < 3)", 30),
    "if": ("var c = 0; if (c) { s += 10 } else { s += 20 } if (!c) { s += 100 }", 120),
    "cond": ("var c = 0; s += c ? 10 : 20; s += !c ? 100 : 200", 120),
    "logical": ("var c = 0; s += c || 20; s += (c && 10) + 100;", 120),
    "switch": ("switch (2) { case 1: s += 1; case 2: s += 10; case 3: s += 20; break; default: s += 1000 }", 30),
    "trycatch": ("try { s += 10; throw 1 } catch (e) { s += 20 }", 30),
    "tryfinally": ("try { try { s += 10; throw 1 } finally { s += 20 } } catch (e) { s += 100 }", 130),
    "tryloop": ("for (var i = 0; i < 3; i++) { try { if (i === 1) continue; s += 10 } finally { s += 100 } }", 320),
    "call": ("var f = function (a) { for (var i = 0; i < 3; i++) a += 10; return a }; s = f(s)", 30),
    "callback": ("[1, 2, 3].forEach(function (x) { s += 10 })", 30),
}


TEMPLATES = ["dowhile_continue", "for_continue", "callback_loop", "callback_branch", "comparator_try", "getter_switch", "stmts_program", "stmts_function", "loop_body", "while_body", "then_taken", "then_skipped", "cond_expr",
             "before_catch", "finally_after", "break_far", "switch_cases", "switch_default", "array_literal",
             "object_literal", "call_args", "params", "num_constants", "str_constants", "globals", "locals", "captured",
             "function_literals", "string_literal", "sum_chain", "member_chain", "comma_chain",
             "locals_sum", "captured_sum", "captured_bump", "captured_deep", "params_sum", "globals_sum", "cellvars_owner"] \
    + ["after_" + k for k in AFTER] + ["fafter_" + k for k in AFTER]
LITERALS = ["dec_digits", "dec_nines", "hex_digits", "bin_digits", "oct_digits", "frac_zeros", "frac_digits", "exponent", "neg_exponent",
            "digits_exponent", "string_digits"]
LIT_NS = sorted(set([0, 1, 2, 14, 15, 16, 17, 18, 20, 21, 22, 52, 53, 54, 63, 64, 65, 100, 254, 255, 256, 257, 300, 306, 307, 308, 309, 310, 311,
                     322, 323, 324, 325, 326, 340, 341, 342, 343, 400, 512, 1000, 1021, 1022, 1023, 1024, 1025, 1026, 1074, 1075, 1076, 2000, 4096, 20000]))
REFUSED = ["eval_refused", "function_refused"]
REFUSED_NS = [0, 1, 2, 10, 38, 39, 40, 41, 42, 49, 50, 51, 79, 80, 81, 100, 127, 128, 129, 199, 200, 201, 255, 256, 257, 500]
JUMPY = ["dowhile_continue", "for_continue", "callback_loop", "callback_branch", "comparator_try", "getter_switch", "stmts_program", "stmts_function", "loop_body", "while_body", "then_taken", "then_skipped", "cond_expr",
         "before_catch", "finally_after", "break_far", "switch_cases", "switch_default", "num_constants"] \
    + ["after_" + k for k in AFTER] + ["fafter_" + k for k in AFTER]
NS = [0, 1, 2, 127, 128, 254, 255, 256, 257, 511, 512, 1023, 4096]


def _ser_expected(e, v):
    return e.ser(v)


def _run_one(e, t, n):
    src, want = gen(t, n)
    oc = e.run_program(src, tl=20000)
    log, _, tail = oc.rpartition("|")
    wanted = log and "d3ff0000000000000" == log and tail == "R" + e.ser(want)
    if wanted:
        return "ok"
    if not log and tail in ("Ethrow", "Esyntax"):
        return "refused"
    return "log=%s %s (closed form %r)" % (log[:30], tail[:60], want)


def run_scale(payload):
    from mc.props.common import engine
    e = engine()
    r = _run_one(e, payload["t"], payload["n"])
    if r == "refused" and payload["n"] <= 2 and payload["t"] not in REFUSED:
        r = "small program refused"      # would make the whole template vacuous
    return r + "\x00" + ("refused" if r == "refused" else "ok")


def run_boundary(payload):
    """Locate the n at which the compiled top-level bytecode (or any function's) first exceeds `limit`
    bytes, then execute every n in the window around it."""
    from mc.props.common import engine
    e = engine()
    from microjs.parser import Parser
    from microjs.compiler import Compiler, CompiledFunction
    t, limit, w = payload["t"], payload["limit"], payload["window"]

    def size(n):
        src, _ = gen(t, n)
        try:
            cf = Compiler().compile(Parser(src).parse())
        except Exception:  # noqa: BLE001
            return 10 ** 9     # refused or failed: beyond the boundary for our purposes
        best = [0]

        def walk(f):
            best[0] = max(best[0], len(f.bytecode))
            for c in f.constants:
                if isinstance(c, CompiledFunction):
                    walk(c)
        walk(cf)
        return best[0]

    # bytecode size is affine in n for every template: extrapolate from two probes, then settle the exact
    # boundary with a short local search (a full binary search over programs of 10^5 statements is too slow)
    s1, s2 = size(8), size(24)
    if s1 >= 10 ** 9 or s2 >= 10 ** 9:
        return "small program refused\x00ok"
    per = max((s2 - s1) / 16.0, 0.01)
    guess = max(2, int(8 + (limit - s1) / per))
    if guess > 400000:
        return "boundary not reached below n=400000\x00boundary not reached below n=400000"
    lo, hi = 8, guess
    if s1 > limit:
        lo, hi = 0, 8
    while size(hi) <= limit:
        lo, hi = hi, hi + max(4, hi // 8)
    while lo + 1 < hi:
        mid = (lo + hi) // 2
        if size(mid) <= limit:
            lo = mid
        else:
            hi = mid
    nstar = hi
    res = []
    for n in sorted(set(list(range(max(0, nstar - w), nstar + w + 1)) + payload.get("also", []))):
        r = _run_one(e, t, n)
        if r not in ("ok", "refused"):
            res.append("n=%d (n*%+d): %s" % (n, n - nstar, r))
    mult = []
    for m in payload.get("mult", []):
        r = _run_one(e, t, nstar * m)
        if r not in ("ok", "refused"):
            res.append("n=%d (%d x n*): %s" % (nstar * m, m, r))
    obs = "ok" if not res else "; ".join(res[:6])
    return obs + "\x00ok"


def _scale_cases(ns, templates=TEMPLATES):
    return [("%s n=%d" % (t, n), {"t": t, "n": n}) for t in templates for n in ns]


def _boundary_cases(limit, window, mult):
    return [("%s across the %d-byte boundary (window +-%d, multiples %s)" % (t, limit, window, mult),
             {"t": t, "limit": limit, "window": window, "mult": mult}) for t in JUMPY]


def _sp(name, runner, fn, rule, bound, batch=1, watchdog=200):
    return Space(name, "mc.props.c14:" + runner, fn, oracle="inline", rule=rule, bound=bound, batch=batch, watchdog=watchdog,
                 nontrivial=lambda cid, p, exp: p.get("n", 2) >= 2)


def spaces(tier, seed, all_strata=False):
    core = [
        _sp("c14_scale", "run_scale", lambda: _scale_cases(NS),
            "32 shape templates (do-while/for with a forward continue across the body, bodies run under native callbacks, statements in program/function/loop/branch/try/switch, array and object literals, call "
            "arguments, parameters, distinct numeric/string constants, globals, locals, captured variables, function "
            "literals, long string literal, +/member/comma chains) x n in {0,1,2,127,128,254,255,256,257,511,512,1023,4096}; "
            "result = closed form in n, or a JSError before the first statement ran", "n up to 4096", batch=4),
        _sp("c14_literals", "run_scale", lambda: _scale_cases(LIT_NS, LITERALS),
            "%d numeric-literal spellings (decimal / hex / binary / octal digit runs, fraction zeros and digits, exponents, digits with "
            "a cancelling exponent, the same digits converted from a string) x %d lengths across 2^53, 2^64, 1e21, the double range "
            "(309 decimal digits, 2^1024) and the denormal range; value = the mathematical number rounded to double" % (len(LITERALS), len(LIT_NS)),
            "digit runs up to 20000", batch=8),
        _sp("c14_refused_nested", "run_scale", lambda: _scale_cases(REFUSED_NS, REFUSED),
            "a program that is too large (an array literal of 300 elements) handed to eval / Function n times inside one evaluation, n across the native-depth "
            "budget (40, 50, 80, 100, 200, 256): every refusal is the same catchable error naming the size, and callbacks and further evals "
            "work afterwards", "n up to 500", batch=2),
        _sp("c14_jump65535", "run_boundary", lambda: _boundary_cases(65535, 3, [2, 4]),
            "19 jump-bearing templates: n* = first n whose bytecode exceeds 65535 bytes (binary search on the real "
            "compiler), every n in [n*-3, n*+3], plus 2n* and 4n*", "65535 +- 3"),
        _sp("c14_jump32767", "run_boundary", lambda: _boundary_cases(32767, 2, []),
            "the same around the 32767-byte boundary (a signed 16-bit decoder would mis-read targets above it), including bodies "
            "run by the second interpreter loop (callbacks of forEach/map/sort, getters)", "32767 +- 2"),
        _sp("c14_jump255", "run_boundary", lambda: _boundary_cases(255, 3, []),
            "the same around the 255-byte boundary", "255 +- 3"),
    ]
    strata = [
        _sp("c14_scale_250_260", "run_scale", lambda: _scale_cases(list(range(250, 261))), "every n in [250, 260] for all templates",
            "250..260", batch=8),
        _sp("c14_jump65535_wide", "run_boundary", lambda: _boundary_cases(65535, 40, [2, 4]), "window +-40 around 65535", "65535 +- 40"),
        _sp("c14_scale_big", "run_scale", lambda: _scale_cases([8191, 8192, 20000, 65535, 65536, 70000],
                                                                [t for t in TEMPLATES if t not in ("sum_chain", "member_chain", "comma_chain")]),
            "n in {8191, 8192, 20000, 65535, 65536, 70000}", "n up to 70000", batch=1),
    ]
    if tier == "thorough" or all_strata:
        return core + strata
    return core + [strata[0]]


def signature(sp, cid, payload, exp, obs):
    t = payload["t"]
    kind = "host exception" if "Ehost" in obs else ("runs into a limit" if "Etime" in obs or "Ememory" in obs else
                                                   ("error after statements ran" if "Ethrow" in obs or "Esyntax" in obs else "wrong result"))
    where = "boundary" if sp.name.startswith("c14_jump") else "scale"
    return "%s|%s|%s" % (t, where, kind), "template %s (%s sweep): %s" % (t, where, kind)
