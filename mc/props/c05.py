"""C05  Compiled control flow and closures mean what the source says.

E1: bounded-exhaustive enumeration of statement skeletons (construct x construct x exit x position x
call context), evaluation-order forms, closure capture patterns, hoisting and completion values.
Oracle: V8 expected-outcome tables (node --use-strict at build time), ordered log + typed completion
value + error class.
"""
import itertools
import struct

from mc.core.runner import Space
from mc.gen import programs as P
from .common import tail

PROP = "C05"
LEVEL = "exploration"
ASSUMPTIONS = [
    "expected outcomes were computed at build time by V8 (node 20, strict mode) for exactly the enumerated "
    "case ids and are pinned by SHA-256 of the case list; V8 accepts every program (no early error) and every "
    "program terminates in V8",
    "skeletons deeper than 3 constructs, more than one exit statement per program, and exits placed inside "
    "catch/finally blocks are not explored here (exception paths belong to C07)",
    "only var scoping is used (let/const are outside the engine's language); block-level function visibility "
    "outside its block is not observed",
    "a program that diverges on the engine is cut after 10 (skeletons) or 30 (other families) clock polls, i.e. "
    "about 10^4 / 3*10^4 interpreter steps",
]
RUN = "mc.props.common:run_src"
TL = 30        # clock polls for the small families (about 3*10^4 interpreter steps)
TL_SKEL = 10   # skeletons: the longest reference-conforming run (3 nested loops) needs < 3*10^3 steps; one
               # diverging case costs 40 ms instead of 120 ms, which is what keeps the quick tier under a minute


def _num(k):
    return "d" + struct.pack(">d", float(k)).hex()


MARK = _num(P.EXIT_MARK)


# ------------------------------------------------------------------ (a) skeletons

D3_SET = ("for", "while", "forin", "forof", "switch", "sw_df_hit", "label", "trycatch", "tryfinally", "if", "func")


def skeleton2_cases():
    chains = [(a, b) for a in P.CONSTRUCTS for b in P.CONSTRUCTS]
    return [(cid, {"src": src, "tl": TL_SKEL}) for cid, src in P.skeletons(chains, P.EXITS2)]


def skeleton3_cases(outer):
    chains = [(outer, b, c) for b in D3_SET for c in D3_SET]
    return [(cid, {"src": src, "tl": TL_SKEL}) for cid, src in P.skeletons(chains, P.EXITS3)]


def nontrivial_skeleton(cid, payload, exp):
    log = exp.rpartition("|")[0].split(";")
    if "|none|" in cid:
        return len(log) >= 2
    return len(log) >= 2 and MARK in log


# ------------------------------------------------------------------ (b) evaluation order

BINOPS = ["+", "-", "*", "/", "%", "**", "&", "|", "^", "<<", ">>", ">>>", "<", "<=", ">", ">=", "==", "!=",
          "===", "!=="]
ASSIGNOPS = ["+=", "-=", "*=", "/=", "%=", "**=", "<<=", ">>=", ">>>=", "&=", "|=", "^="]
TREEOPS = ["+", "-", "<", "==", "&&", "||", ","]


def L(k, v):
    return "(__out(%d), %s)" % (k, v)


def evalorder_cases():
    C = []

    def add(label, src):
        form, _, op = label.partition("/")
        label = form + "/" + op.replace("/", "div")          # '/' separates the label fields
        C.append(("eo/%s :: %s" % (label, src), {"src": src, "tl": TL}))

    def both(label, src_expr, decl=""):
        """the expression at program level and inside a function (identifiers become locals)"""
        add(label + "/global", decl + src_expr)
        add(label + "/local", "(function () { %sreturn %s; })()" % (decl, src_expr))

    for op in BINOPS:
        for a, b in (("7", "2"), ('"7"', "2")):
            add("binary/%s" % op, "%s %s %s" % (L(1, a), op, L(2, b)))
    add("binary/in", '%s in %s' % (L(1, '"x"'), L(2, "{x: 1}")))
    add("binary/instanceof", "function F() { } var o = new F(); %s instanceof %s" % (L(1, "o"), L(2, "F")))
    vo = ("var A = {valueOf: function () { __out(11); return 7; }}, B = {valueOf: function () { __out(12); "
          "return 2; }}; ")
    for op in BINOPS[:-4]:
        add("valueOf/%s" % op, vo + "%s %s %s" % (L(1, "A"), op, L(2, "B")))
    for op in ("==", "!="):
        add("valueOf/%s" % op, vo + "%s %s %s" % (L(1, "A"), op, L(2, "7")))
        add("valueOf/%s" % op, vo + "%s %s %s" % (L(1, "7"), op, L(2, "A")))
    for op in ("-", "+", "~", "!", "typeof ", "void "):
        add("unary/%s" % op.strip(), "%s%s" % (op, L(1, "7")))
        add("valueOf/unary%s" % op.strip(), vo + "%s%s" % (op, L(1, "A")))
    add("valueOf/getter+getter", "var o = {get a() { __out(11); return 7; }, get b() { __out(12); return 2; }}; "
        "%s.a + %s.b" % (L(1, "o"), L(2, "o")))
    add("valueOf/template-toString", "var A = {toString: function () { __out(11); return \"a\"; }}, B = {toString: "
        "function () { __out(12); return \"b\"; }}; %s + %s" % (L(1, "A"), L(2, "B")))
    for op in ASSIGNOPS:
        add("valueOf/%s" % op, vo + "var x = A; x %s %s; x" % (op, L(1, "B")))
    # calls
    fn = "function fn() { __out(100 + arguments.length); return arguments.length; } "
    for n in range(4):
        add("call/args%d" % n, fn + "%s(%s)" % (L(1, "fn"), ", ".join(L(k + 2, str(k)) for k in range(n))))
        add("call/plain-args%d" % n, fn + "fn(%s)" % ", ".join(L(k + 2, str(k)) for k in range(n)))
        add("new/args%d" % n, "function F() { __out(100 + arguments.length); this.n = arguments.length; } "
            "(new F(%s)).n" % ", ".join(L(k + 2, str(k)) for k in range(n)))
    ob = "var o = {m: function (x) { __out(this === o); __out(x); return 9; }}; "
    add("call/method-computed", ob + "%s[%s](%s)" % (L(1, "o"), L(2, '"m"'), L(3, "4")))
    add("call/method-dot", ob + "%s.m(%s)" % (L(1, "o"), L(3, "4")))
    add("call/o()[k()](a())", ob + "function O() { __out(1); return o; } function K() { __out(2); return \"m\"; } "
        "function A() { __out(3); return 4; } O()[K()](A())")
    add("call/f(a())(b())", "function f(x) { __out(10 + x); return function (y) { __out(20 + y); return x * 10 + y; }; } "
        "f(%s)(%s)" % (L(1, "1"), L(2, "2")))
    add("call/f(a())(b())(c())", "function f(x) { __out(10 + x); return function (y) { __out(20 + y); return function "
        "(w) { __out(30 + w); return x * 100 + y * 10 + w; }; }; } f(%s)(%s)(%s)" % (L(1, "1"), L(2, "2"), L(3, "3")))
    add("new/F(a(),b())", "function F(a, b) { __out(30); this.s = a * 10 + b; } (new F(%s, %s)).s" % (L(1, "1"), L(2, "2")))
    add("new/member-callee", "var ns = {F: function (a) { __out(30); this.s = a; }}; (new ns.F(%s)).s" % L(1, "1"))
    add("call/undefined-callee-args-first", "var u; try { u(%s); } catch (e) { __out(e instanceof TypeError); } 0" % L(1, "1"))
    add("call/missing-method-args-first", "var o = {}; try { o.nope(%s); } catch (e) { __out(e instanceof TypeError); } 0" % L(1, "1"))
    add("member/undefined-base-key-first", "var u; try { u[%s]; } catch (e) { __out(e instanceof TypeError); } 0" % L(1, '"k"'))
    add("member/computed", "var o = {p: 5}; %s[%s]" % (L(1, "o"), L(2, '"p"')))
    add("member/dot", "var o = {p: 5}; %s.p" % L(1, "o"))
    add("member/chain", "var o = {p: {q: 5}}; %s[%s][%s]" % (L(1, "o"), L(2, '"p"'), L(3, '"q"')))
    # assignment
    both("assign/x=y=z()", "(x = y = %s, x * 10 + y)" % L(1, "3"), "var x, y; ")
    both("assign/x=(x=2,3)", "(x = (x = 2, 3), x)", "var x = 1; ")
    add("assign/o[k()]=v()", "var o = {}; o[%s] = %s; o.k" % (L(1, '"k"'), L(2, "5")))
    add("assign/o()[k()]=v()", "var o = {}; %s[%s] = %s; o.k" % (L(1, "o"), L(2, '"k"'), L(3, "5")))
    add("assign/o().k=v()", "var o = {}; %s.k = %s; o.k" % (L(1, "o"), L(3, "5")))
    add("assign/chain-member", "var o = {}, q = {}; %s.k = %s.k = %s; o.k + q.k" % (L(1, "o"), L(2, "q"), L(3, "5")))
    acc = ("var st = 6; var o = {get k() { __out(10); return st; }, set k(v) { __out(11); __out(v); st = v; }}; ")
    add("assign/setter-order", acc + "%s[%s] = %s; st" % (L(1, "o"), L(2, '"k"'), L(3, "5")))
    for op in ASSIGNOPS:
        add("compound-member/%s" % op, "var o = {k: 6}; var r; r = %s[%s] %s %s; __out(r); o.k" % (L(1, "o"), L(2, '"k"'), op, L(3, "2")))
        add("compound-accessor/%s" % op, acc + "var r; r = %s[%s] %s %s; __out(r); st" % (L(1, "o"), L(2, '"k"'), op, L(3, "2")))
        both("compound-ident/%s" % op, "(x %s (x = 10, 5), x)" % op, "var x = 6; ")
        add("compound-captured/%s" % op, "(function () { var x = 6; var h = function () { return x; }; x %s (x = 10, 5); "
            "return h(); })()" % op)
    for form in ("%s++", "%s--", "++%s", "--%s"):
        t = form % ("%s[%s]" % (L(1, "o"), L(2, '"k"')))
        add("update-member/%s" % (form % "m"), "var o = {k: 6}; var r = %s; __out(r); o.k" % t)
        add("update-accessor/%s" % (form % "m"), acc + "var r = %s; __out(r); st" % t)
    for label, decl, e in (
            ("a[i++]=i++", "var i = 0, a = [0, 0, 0]; ", "(a[i++] = i++, [a[0], a[1], a[2], i])"),
            ("a[i]=i=2", "var i = 0, a = [0, 0, 0]; ", "(a[i] = i = 2, [a[0], a[1], a[2], i])"),
            ("i=a[i++]+a[i++]", "var i = 0, a = [3, 4, 5]; ", "(i = a[i++] + a[i++], i)"),
            ("i+i++ + ++i", "var i = 1; ", "(i + i++ + ++i)"),
            ("i++ + i", "var i = 1; ", "(i++ + i)"),
            ("i=i++ + 1", "var i = 1; ", "(i = i++ + 1, i)"),
            ("i+=i++", "var i = 1; ", "(i += i++, i)"),
            ("i++*i--", "var i = 3; ", "(i++ * i--)"),
            ("x+(x=5)", "var x = 1; ", "(x + (x = 5))"),
            ("(x=5)+x", "var x = 1; ", "((x = 5) + x)"),
            ("f(x, x=2, x)", "var x = 1; var f3 = function (p, q, w) { return p * 100 + q * 10 + w; }; ", "f3(x, x = 2, x)"),
            ("[x, x=2, x]", "var x = 1; ", "[x, x = 2, x]"),
            ("o.p after o reassigned", "var o = {p: 1}, q = {p: 2}; ", "(o.p + (o = q, o.p))"),
            ("callee before args", "var f1 = function () { return 1; }, f2 = function () { return 2; }, fx = f1; ", "fx(fx = f2)"),
            ("this bound before args", "var o = {v: 1, m: function () { return this.v; }}, q = {v: 2, m: function () { return this.v + 10; }}, t = o; ",
             "t.m(t = q)"),
    ):
        both("sideeffect/" + label, e, decl)
    # conditional, logical, comma, literals
    for t in ("true", "false", "0", '""', '"a"', "null", "undefined", "NaN", "[]"):
        add("conditional/%s" % t, "%s ? %s : %s" % (L(1, t), L(2, "1"), L(3, "2")))
        for op in ("&&", "||"):
            for r_ in ("2", "0"):
                add("logical/%s" % op, "%s %s %s" % (L(1, t), op, L(2, r_)))
        add("logical/!", "!%s" % L(1, t))
        add("if-test/%s" % t, "if %s { __out(2); } else { __out(3); } 0" % L(1, t))
    for n in (2, 3, 4):
        add("comma/%d" % n, ", ".join(L(k, str(k * 10)) for k in range(1, n + 1)))
        add("array-literal/%d" % n, "[" + ", ".join(L(k, str(k * 10)) for k in range(1, n + 1)) + "]")
        add("object-literal/%d" % n, "({" + ", ".join("p%d: %s" % (k, L(k, str(k * 10))) for k in range(1, n + 1)) + "})")
    add("object-literal/string-and-number-keys", '({"a b": %s, 1: %s, c: %s})["a b"]' % (L(1, "1"), L(2, "2"), L(3, "3")))
    add("delete/member", "var o = {k: 1}; var r = delete %s[%s]; __out(r); \"k\" in o" % (L(1, "o"), L(2, '"k"')))
    add("typeof/member", "var o = {k: 1}; typeof %s[%s]" % (L(1, "o"), L(2, '"k"')))
    add("in/member", "var o = {k: 1}; %s in %s" % (L(1, '"k"'), L(2, "o")))
    add("return/expr-order", "function f() { return %s + %s; } f()" % (L(1, "1"), L(2, "2")))
    add("throw/expr-order", "try { throw %s + %s; } catch (e) { __out(e); } 0" % (L(1, "1"), L(2, "2")))
    add("switch/discriminant-then-cases", "switch %s { case %s: __out(20); break; case %s: __out(30); break; case %s: "
        "__out(40); break; default: __out(50); } 0" % (L(1, "2"), L(2, "1"), L(3, "2"), L(4, "3")))
    add("switch/default-first-tests-all-cases", "switch %s { default: __out(50); break; case %s: __out(20); break; case %s: "
        "__out(30); break; } 0" % (L(1, "9"), L(2, "1"), L(3, "2")))
    add("for/init-test-update-order", "for (var i = %s; %s, i < 2; __out(3), i++) { __out(4); } 0" % (L(1, "0"), "__out(2)"))
    add("for-in/object-expr-once", "var n = 0; for (var k in %s) { n++; } n" % L(1, "{a: 1, b: 2}"))
    add("for-of/iterable-expr-once", "var n = 0; for (var v of %s) { n++; } n" % L(1, "[1, 2]"))
    add("while/test-each-iteration", "var n = 0; while (%s, n < 2) { n++; } n" % "__out(1)")
    add("do-while/body-before-test", "var n = 0; do { __out(1); n++; } while (%s, n < 2); n" % "__out(2)")
    # depth-2 trees with logging leaves
    for o1 in TREEOPS:
        for o2 in TREEOPS:
            for vals in (("1", "2", "3"), ("0", "2", "3"), ("1", "0", "3"), ("0", "0", "0")):
                a, b, c = (L(k + 1, v) for k, v in enumerate(vals))
                add("tree-left/%s %s" % (o1, o2), "(%s %s %s) %s %s" % (a, o1, b, o2, c))
                add("tree-right/%s %s" % (o1, o2), "%s %s (%s %s %s)" % (a, o1, b, o2, c))
    for o1 in TREEOPS:
        for t in ("1", "0"):
            add("tree-cond/%s" % o1, "%s ? (%s %s %s) : %s" % (L(1, t), L(2, "1"), o1, L(3, "2"), L(4, "5")))
            add("tree-cond-test/%s" % o1, "(%s %s %s) ? %s : %s" % (L(1, t), o1, L(2, "0"), L(3, "1"), L(4, "2")))
    return C


# ------------------------------------------------------------------ (c) closures

CAPTURE = {
    # kind: (header, prologue, epilogue, V, seed-parameter name)
    "param": ("function mk(v, d) {", "var res;", "return res; }", "v", "v"),
    "local": ("function mk(p, d) {", "var res; var v = p;", "return res; }", "v", "p"),
    "for-var": ("function mk(p, d) {", "var res; for (var v = p, q = 0; q < 1; q++) {", "} return res; }", "v", "p"),
    "for-of-var": ("function mk(p, d) {", "var res; for (var v of [p]) {", "} return res; }", "v", "p"),
    "for-in-var": ("function mk(p, d) {", "var res; var ob = {}; ob[\"k\" + p] = 1; for (var v in ob) {", "} return res; }", "v", "p"),
    "nfe-name": ("var mk = function me(p, d) {", "var res;", "return res; };", "me", "p"),
    "arguments": ("function mk(p, d) {", "var res;", "return res; }", "arguments[0]", "p"),
    "catch-param": ("function mk(p, d) {", "var res; try { throw p; } catch (v) {", "} return res; }", "v", "p"),
    "grandparent": ("function mk(v, d) {", "return (function () { var res;", "return res; })(); }", "v", "v"),
}
ACCESS = ("read", "write", "++", "+=")
PATTERNS = ("share2", "indep2", "per-loop", "forEach", "outlive", "recursion")
FORMS = ("fe", "arrow", "decl")


def _access_body(kind, access, V):
    if kind == "nfe-name":
        if access == "read":
            return "return me === mk;"
        return "try { me = x; } catch (e) { return e instanceof TypeError; } return typeof me;"
    if access == "read":
        return "return %s;" % V
    if access == "write":
        return "%s = x; return %s;" % (V, V)
    if access == "++":
        return "return ++%s;" % V
    return "%s += x; return %s;" % (V, V)


class _Uid:
    def __init__(self):
        self.n = 0

    def next(self):
        self.n += 1
        return "c%d" % self.n


def _closure(form, nesting, body, uid):
    """-> (statements to place before the use, expression denoting the closure)"""
    pre = ""
    if form == "arrow":
        e = "(x) => { %s }" % body
        for _ in range(nesting - 1):
            e = "(() => %s)()" % e
        return pre, "(" + e + ")" if nesting == 1 else e
    if form == "fe":
        e = "function (x) { %s }" % body
        for _ in range(nesting - 1):
            e = "(function () { return %s; })()" % e
        return pre, e
    name = uid.next()
    d = "function %s(x) { %s }" % (name, body)
    if nesting == 1:
        return d + " ", name
    e = "(function () { %s return %s; })()" % (d, name)
    for _ in range(nesting - 2):
        e = "(function () { return %s; })()" % e
    return pre, e


def closure_program(kind, access, pattern, nesting, form):
    header, pro, epi, V, seedp = CAPTURE[kind]
    uid = _Uid()
    acc = _access_body(kind, access, V)
    rd = _access_body(kind, "read", V)

    def cl(body, extra=""):
        return _closure(form, nesting, extra + body, uid)

    if pattern in ("share2", "indep2"):
        p1, a = cl(acc)
        p2, b = cl(rd)
        body = "%s%sres = {a: %s, b: %s};" % (p1, p2, a, b)
        if pattern == "share2":
            drv = "var r = mk(10, 0); __out(r.a(5)); __out(r.b()); __out(r.a(7)); __out(r.b());"
        else:
            drv = ("var r1 = mk(10, 0), r2 = mk(20, 0); __out(r1.a(5)); __out(r2.b()); __out(r2.a(7)); __out(r1.b()); "
                   "__out(r2.b());")
    elif pattern == "per-loop":
        p1, a = cl(acc, "__out(i); ")
        p2, b = cl(rd)
        body = "res = []; for (var i = 0; i < 3; i++) { %sres.push(%s); } %sres.push(%s);" % (p1, a, p2, b)
        drv = "var r = mk(10, 0); __out(r[0](1)); __out(r[1](2)); __out(r[3]()); __out(r[2](3)); __out(r[3]());"
    elif pattern == "forEach":
        p1, a = cl(acc, "__out(el); ")
        p2, b = cl(rd)
        cb = "(el) => { %sres.push(%s); }" if form == "arrow" else "function (el) { %sres.push(%s); }"
        body = "res = []; [1, 2, 3].forEach(%s); %sres.push(%s);" % (cb % (p1, a), p2, b)
        drv = "var r = mk(10, 0); __out(r[0](1)); __out(r[1](2)); __out(r[3]()); __out(r[2](3)); __out(r[3]());"
    elif pattern == "outlive":
        p1, a = cl(acc)
        body = "%sres = %s;" % (p1, a)
        drv = ("function junk(a, b, c) { var t = [a, b, c]; return t.length; } var h = mk(10, 0); junk(1, 2, 3); "
               "__out(h(5)); var h2 = mk(30, 0); junk(4, 5, 6); __out(h(6)); __out(h2(1));")
    else:
        p1, a = cl(acc)
        body = "res = d > 0 ? mk(%s + 1, d - 1) : []; %sres.push(%s);" % (seedp, p1, a)
        drv = "var r = mk(10, 2); __out(r.length); __out(r[0](1)); __out(r[1](2)); __out(r[2](3)); __out(r[0](4));"
    return "%s %s %s %s %s typeof mk" % (header, pro, body, epi, drv)


def closure_cases():
    out = []
    for kind in CAPTURE:
        for access in ACCESS:
            if kind == "nfe-name" and access in ("++", "+="):
                continue
            for form in FORMS:
                if kind == "arguments" and form != "arrow":
                    continue
                for pattern in PATTERNS:
                    for nesting in (1, 2, 3):
                        src = closure_program(kind, access, pattern, nesting, form)
                        cid = "cl/%s/%s/%s/n%d/%s :: %s" % (kind, access, pattern, nesting, form, src)
                        out.append((cid, {"src": src, "tl": TL}))
    return out


# ------------------------------------------------------------------ (d) hoisting and completion values

HOISTING = [
    ("function/call-before-declaration", "__out(h()); function h() { return 1; } 0"),
    ("function/typeof-before-declaration", "__out(typeof h); function h() { } 0"),
    ("function/duplicate-last-wins", "function h() { return 1; } function h() { return 2; } h()"),
    ("function/duplicate-last-wins-before", "__out(h()); function h() { return 1; } function h() { return 2; } h()"),
    ("function/var-initialiser-beats-function", "var h = 5; function h() { } typeof h"),
    ("function/var-without-initialiser-keeps-function", "function h() { } var h; typeof h"),
    ("function/var-later-keeps-function-before", "__out(typeof h); var h = 5; function h() { } typeof h"),
    ("function/nested-call-before-declaration", "function o() { return i(); function i() { return 4; } } o()"),
    ("function/nested-typeof-before-declaration", "function o() { __out(typeof i); var r = i(); function i() { return 4; } return r; } o()"),
    ("function/nested-returned-before-declaration", "function o() { return i; function i() { return 6; } } o()()"),
    ("function/nested-var-function-expression-not-hoisted", "function o() { var r = typeof i; var i = function () { }; return r; } o()"),
    ("function/block-call-before-declaration", "{ __out(h()); function h() { return 1; } } 0"),
    ("function/if-block-call-before-declaration", "if (true) { __out(h()); function h() { return 1; } } 0"),
    ("function/loop-block-call-before-declaration", "for (var i = 0; i < 2; i++) { __out(h()); function h() { return i; } } 0"),
    ("function/nested-block-call-before-declaration", "function o() { { __out(h()); function h() { return 1; } } return 2; } o()"),
    ("function/switch-block-call-before-declaration", "switch (1) { case 1: __out(h()); break; case 2: function h() { return 3; } } 0"),
    ("function/try-block-call-before-declaration", "try { __out(h()); function h() { return 1; } } catch (e) { __out(-1); } 0"),
    ("function/hoisted-closure-over-param", "function o(a) { return inner(); function inner() { return a + 1; } } o(2)"),
    ("function/hoisted-mutual", "function o() { return a(); function a() { return b(); } function b() { return 7; } } o()"),
    ("function/mutual-recursion-before-declaration", "__out(ev(3)); function ev(n) { return n == 0 ? true : od(n - 1); } "
     "function od(n) { return n == 0 ? false : ev(n - 1); } 0"),
    ("function/mutual-recursion-nested", "function o() { return ev(4); function ev(n) { return n == 0 ? true : od(n - 1); } "
     "function od(n) { return n == 0 ? false : ev(n - 1); } } o()"),
    ("function/hoisted-in-function-expression", "var o = function () { return i(); function i() { return 8; } }; o()"),
    ("function/hoisted-in-arrow", "var o = () => { return i(); function i() { return 8; } }; o()"),
    ("function/hoisted-in-method", "var o = {m: function () { return i(); function i() { return 8; } }}; o.m()"),
    ("function/hoisted-sees-later-var", "function o() { var r = i(); var x = 3; return [r, i()]; function i() { return x; } } o()"),
    ("function/hoisted-three-levels", "function o() { return a(); function a() { return b(); function b() { return c(); function c() { return 5; } } } } o()"),
    ("var/typeof-before-declaration", "__out(typeof x); var x = 1; x"),
    ("var/read-before-declaration", "__out(x); var x = 1; x"),
    ("var/undefined-before-declaration", "__out(x === undefined); var x = 1; 0"),
    ("var/assign-before-declaration", "x = 5; var x; x"),
    ("var/local-typeof-and-read-before-declaration", "function o() { __out(typeof x); __out(x); var x = 1; return x; } o()"),
    ("var/local-assign-before-declaration", "function o() { x = 3; var x; return x; } __out(o()); typeof x"),
    ("var/declared-in-untaken-branch", "function o() { if (false) { var x = 1; } return x; } __out(o()); 0"),
    ("var/declared-in-loop-body", "function o() { for (var i = 0; i < 2; i++) { var t = i; } return t * 10 + i; } o()"),
    ("var/declared-in-unreachable-loop", "function o() { return typeof t; for (;;) { var t; } } o()"),
    ("var/global-declared-in-untaken-branch", "if (false) { var x = 1; } typeof x"),
    ("var/global-read-declared-in-untaken-branch", "__out(x); if (false) { var x = 1; } 0"),
    ("var/global-declared-in-unentered-loop", "for (var i = 0; i < 0; i++) { var u = 1; } __out(u); typeof u"),
    ("var/declared-in-catch", "try { throw 1; } catch (e) { var w = 2; } w"),
    ("var/declared-in-unentered-catch", "__out(typeof w); __out(w); try { } catch (e) { var w = 2; } 0"),
    ("var/declared-in-untaken-case", "switch (0) { case 1: var sw = 1; } __out(sw); typeof sw"),
    ("var/declared-in-labelled-block", "L: { var lb = 1; } lb"),
    ("var/for-in-variable-before-loop", "__out(k); for (var k in {a: 1}) { } k"),
    ("var/for-of-variable-before-loop", "__out(v); for (var v of [4]) { } v"),
    ("var/redeclaration-keeps-value", "var x = 1; var x; x"),
    ("var/redeclaration-with-initialiser", "var x = 1; var x = 2; x"),
    ("var/redeclaration-in-block", "var x = 1; { var x = 2; } x"),
    ("var/local-redeclaration-keeps-value", "function o() { var x = 1; var x; return x; } o()"),
    ("var/multiple-declarators-left-to-right", "var a = 1, b = a + 1, c = b + a; c * 100 + b * 10 + a"),
    ("var/declarator-sees-later-hoisted", "var a = typeof b, b = 2; a"),
    ("param/var-same-name-keeps-argument", "function o(a) { var a; return a; } o(3)"),
    ("param/var-same-name-with-initialiser", "function o(a) { var a = 2; return a; } o(3)"),
    ("param/var-same-name-arguments-unmapped", "function o(a) { var a; a = 4; return arguments[0]; } o(3)"),
    ("param/function-same-name-wins", "function o(a) { function a() { } return typeof a; } o(3)"),
    ("param/function-same-name-wins-before", "function o(a) { return typeof a; function a() { } } o(3)"),
    ("param/var-and-function-same-name", "function o(a) { var a = 1; function a() { } return typeof a; } o(3)"),
    ("param/missing-argument-is-undefined", "function o(a, b) { return [typeof a, typeof b, arguments.length]; } o(1)"),
    ("param/extra-arguments", "function o(a) { return [a, arguments.length, arguments[1]]; } o(1, 2)"),
    ("param/arguments-typeof", "function o() { return typeof arguments; } o()"),
    ("local/var-and-function-same-name", "function o() { var f = 1; function f() { } return typeof f; } o()"),
    ("local/var-and-function-same-name-before", "function o() { return typeof f; var f = 1; function f() { } } o()"),
    ("nfe/name-visible-inside-only", "var f = function g2() { return typeof g2; }; __out(f()); typeof g2"),
    ("nfe/name-shadowed-by-var", "var f = function g2() { var g2 = 1; return typeof g2; }; f()"),
    ("nfe/name-shadowed-by-param", "var f = function g2(g2) { return g2; }; f(4)"),
    ("shadow/hoisted-local-shadows-global", "var v1 = 1; function o() { __out(v1); var v1 = 2; return v1; } o()"),
    ("shadow/hoisted-local-in-closure", "var v1 = 1; function o() { return function () { __out(v1); var v1 = 3; return v1; }; } o()()"),
    ("shadow/closure-sees-later-var", "var v1 = 1; function o() { var r = function () { return v1; }; var v1 = 2; return r(); } o()"),
    ("shadow/closure-before-and-after-initialiser", "function o() { var r = function () { return v1; }; var out1 = r(); var v1 = 2; return [out1, r()]; } o()"),
    ("shadow/inner-param-shadows-outer-local", "function o() { var x = 1; var h = function (x) { return x; }; return [h(2), x]; } o()"),
    ("shadow/inner-var-shadows-captured", "function o() { var x = 1; var h = function () { var x = 2; return x; }; return [h(), x]; } o()"),
    ("boundary/return-in-closure-inside-try-finally", "function o() { try { var h = function () { return 1; }; return h() + 1; } finally { __out(9); } } o()"),
    ("boundary/return-in-callback-inside-try-finally", "function o() { try { return [1, 2].map(function (x) { return x * 2; }); } finally { __out(9); } } o()"),
    ("boundary/closure-in-loop-try-finally", "function o() { for (var i = 0; i < 2; i++) { try { var h = function () { return i; }; __out(h()); } finally { __out(9); } } return 3; } o()"),
    ("boundary/break-in-closure-inside-loop", "function o() { for (var k in {a: 1}) { var h = function () { for (var j = 0; j < 2; j++) { if (j == 1) break; } return j; }; __out(h()); } return 1; } o()"),
    ("boundary/label-reused-in-closure", "function o() { L: for (var i = 0; i < 2; i++) { var h = function () { L: for (var j = 0; j < 3; j++) { if (j == 1) continue L; if (j == 2) break L; } return j; }; __out(h()); } return i; } o()"),
    ("boundary/global-try-finally-closure-return", "var t = 0; try { var h = function () { return 5; }; t = h(); } finally { __out(9); } t"),
]

COMPLETION = [
    ";", "{ }", "{ 1; }", "{ 1; { } }", "{ { } 1; ; }", "{ 1; var y = 2; }", "var x = 2;", "var x;", "function q() { return 1; }",
    "1;", "1, 2;", "(function () { return 3; })();", "var x; x = 5;", "\"s\";",
    "if (true) 1;", "if (true) 1; else 2;", "if (false) 1;", "if (false) 1; else 2;", "if (true) { }", "if (true) ;",
    "if (false) { } else { }", "if (true) var y = 1;", "if (true) { 1; } else { 2; }", "if (true) { if (false) 1; }",
    "if (true) { 3; if (false) 1; }",
    "while (false) 1;", "var i = 0; while (i < 3) { i++; }", "var i = 0; while (i < 3) i++;",
    "var i = 0; while (true) { i++; if (i == 3) break; }", "var i = 0; while (true) { i++; if (i == 3) break; i * 10; }",
    "var i = 0; while (true) { i++; if (i == 3) { 4; break; } i * 10; }", "var i = 0; while (i < 3) { i++; if (i == 2) continue; i * 10; }",
    "var i = 0; while (i < 3) { i++; if (i == 3) continue; i * 10; }", "var i = 0; while (i < 2) { i++; var y = 5; }",
    "do 1; while (false);", "do { 1; break; } while (true);", "do { break; } while (true);", "do { } while (false);",
    "var i = 0; do { i++; if (i < 3) continue; 5; } while (i < 3);", "do { 1; if (true) break; 2; } while (false);",
    "var i = 0; do { i++; i * 10; } while (i < 3);",
    "for (var i = 0; i < 3; i++) i;", "for (var i = 0; i < 3; i++) { i; }", "for (var i = 0; i < 3; i++) { }",
    "for (var i = 0; i < 3; i++) { if (i == 1) continue; i + 10; }", "for (var i = 0; i < 3; i++) { i + 10; if (i == 1) break; }",
    "for (var i = 0; i < 3; i++) { if (i == 1) break; i + 10; }", "for (;;) { break; }", "for (;;) { 3; break; }",
    "for (var i = 0; i < 0; i++) 1;", "var i; for (i = 0; i < 2; i++) { i; }",
    "for (var k in {a: 1, b: 2}) k;", "for (var k in {a: 1, b: 2}) { k; break; }", "for (var k in {a: 1, b: 2}) { break; }",
    "for (var k in {a: 1, b: 2}) { if (k == \"a\") continue; k; }", "for (var k in {}) 1;", "for (var k in {a: 1}) { }",
    "for (var v of [4, 5]) v;", "for (var v of [4, 5]) { v; if (v == 4) continue; }", "for (var v of [4, 5]) { v; break; }",
    "for (var v of []) 1;", "for (var v of [4]) { }",
    "switch (1) { }", "switch (1) { case 1: }", "switch (1) { case 1: 5; }", "switch (1) { case 1: 5; break; }",
    "switch (1) { case 1: 5; case 2: 6; }", "switch (1) { case 1: 5; case 2: }", "switch (1) { case 1: 5; case 2: break; }",
    "switch (1) { case 1: break; }", "switch (3) { case 1: 5; break; default: 8; }", "switch (3) { default: 8; case 1: 5; }",
    "switch (3) { default: 8; break; case 1: 5; }", "switch (3) { case 1: 5; }", "switch (1) { case 1: { 5; } }",
    "switch (1) { case 1: var y = 5; }", "switch (1) { case 1: if (true) { 5; } }",
    "try { 1; } catch (e) { 2; }", "try { throw 1; } catch (e) { 2; }", "try { throw 1; } catch (e) { }", "try { } catch (e) { 2; }",
    "try { 1; } finally { 2; }", "try { } finally { 2; }", "try { 1; } finally { }", "try { 1; } catch (e) { 2; } finally { 3; }",
    "try { throw 1; } catch (e) { 2; } finally { 3; }", "try { throw 0; } catch (e) { e; }", "try { throw 6; } catch (e) { e; } finally { 3; }",
    "try { 1; var y = 2; } finally { }", "try { try { throw 1; } finally { 2; } } catch (e) { 3; }",
    "L: 1;", "L: { 1; break L; 2; }", "L: { break L; }", "L: for (;;) { 1; break L; }", "L: { 1; { 2; break L; } }", "L: M: 3;",
    "L: { }", "L: { 1; if (true) break L; 2; }", "L: try { 1; break L; } finally { 2; }", "L: try { break L; } finally { 2; }",
    "L: for (var i = 0; i < 2; i++) { for (;;) { 4; continue L; } }", "L: for (var i = 0; i < 2; i++) { i; for (;;) { break L; } }",
    "L: for (var i = 0; i < 2; i++) { for (;;) { i + 20; break; } }", "L: do { 1; continue L; } while (false);",
    "for (var i = 0; i < 2; i++) { switch (i) { case 0: 10; break; case 1: 11; } }",
    "for (var i = 0; i < 2; i++) { try { i + 30; } finally { 2; } }", "for (var i = 0; i < 2; i++) { try { i + 30; continue; } finally { 2; } }",
    "for (var i = 0; i < 2; i++) { try { i + 30; break; } finally { 2; } }",
    "while (true) { try { 1; break; } finally { 2; } }", "while (true) { try { break; } finally { 2; } }",
    "if (true) { for (var i = 0; i < 2; i++) i; }", "if (true) { while (false) ; }",
]


def label_cases():
    """Loops carrying several labels, nested labelled loops, and break/continue to every label from every depth."""
    out = []
    heads = {   # (statement before the labels, loop head, loop tail)
        "for": ("", "for (var %(i)s = 0; %(i)s < 3; %(i)s++) {", "}"),
        "while": ("var %(i)s = 0;", "while (%(i)s < 3) { %(i)s++;", "}"),
        "dowhile": ("var %(i)s = 0;", "do { %(i)s++;", "} while (%(i)s < 3);"),
        "forin": ("", "for (var %(i)s in {p: 1, q: 2, r: 3}) {", "}"),
        "forof": ("", "for (var %(i)s of [7, 8, 9]) {", "}"),
    }
    labelsets = [("A",), ("A", "B"), ("A", "B", "C")]
    carriers = ["plain", "switch", "tryfinally", "block"]
    for ok, (op_, oh, oc) in heads.items():
        for ols in labelsets:
            for ik, (ip_, ih, ic) in heads.items():
                for ils in [(), ("X",), ("X", "Y")]:
                    targets = [("break", l) for l in ols + ils] + [("continue", l) for l in ols + ils] + [("break", None), ("continue", None)]
                    for kind, tgt in targets:
                        for carrier in carriers:
                            if (ok, ik) not in (("for", "for"), ("while", "forin"), ("forof", "dowhile"), ("dowhile", "forof"), ("forin", "while")) and carrier != "plain":
                                continue
                            jump = kind + (" " + tgt if tgt else "") + ";"
                            inner_body = "__out(n++); if (n %% 3 == 1) { %s } __out(-n);" % jump
                            if carrier == "switch":
                                if kind == "break" and tgt is None:
                                    continue
                                inner_body = "__out(n++); switch (n %% 3) { case 1: %s default: __out(50) } __out(-n);" % jump
                            elif carrier == "tryfinally":
                                inner_body = "__out(n++); try { if (n %% 3 == 1) { %s } } finally { __out(60) } __out(-n);" % jump
                            elif carrier == "block":
                                inner_body = "__out(n++); Z: { if (n %% 3 == 1) { %s } __out(70) } __out(-n);" % jump
                            ol = "".join(l + ": " for l in ols)
                            il = "".join(l + ": " for l in ils)
                            src = ("var n = 0; " + (op_ % {"i": "i"}) + " " + ol + (oh % {"i": "i"}) + " __out(100); if (n > 12) break; " +
                                   (ip_ % {"i": "j"}) + " " + il + (ih % {"i": "j"}) + " " +
                                   inner_body + " if (n > 12) break; " + ic % {"i": "j"} + " __out(200); " + oc % {"i": "i"} + " n")
                            cid = "lab/%s[%s]>%s[%s]/%s %s/%s :: %s" % (ok, "".join(ols), ik, "".join(ils), kind, tgt or "-", carrier, src)
                            out.append((cid, {"src": src, "tl": TL}))
    return out


def header_closure_cases():
    """Closures created inside the header expressions of statements (if/while/for/switch/return/throw operands...)."""
    out = []
    wrappers = {
        "if-test": "if ((function () { return %(v)s })() %(cmp)s) { r = 1 } else { r = 2 }",
        "while-test": "var k = 0; while ((function () { k++; return %(v)s + k })() < 5) { r = (r || 0) + 1 }",
        "for-init": "for (var g = function () { return %(v)s }, k = 0; k < 2; k++) { r = g() + k }",
        "for-test": "for (var k = 0; (function () { return %(v)s + k })() < 4; k++) { r = k }",
        "for-update": "for (var k = 0; k < 2; k = (function () { return k + 1 + %(v)s * 0 })()) { r = k }",
        "switch-discriminant": "switch ((function () { return %(v)s })()) { case 1: r = 'one'; break; default: r = 'other' }",
        "case-test": "switch (1) { case (function () { return %(v)s })(): r = 'hit'; break; default: r = 'miss' }",
        "return-operand": "r = (function () { return (function () { return %(v)s })() })()",
        "throw-operand": "try { throw (function () { return %(v)s })() } catch (e) { r = e }",
        "forin-object": "for (var key in (function () { return {a: %(v)s} })()) { r = key }",
        "forof-iterable": "for (var item of (function () { return [%(v)s, %(v)s] })()) { r = item }",
        "ternary-test": "r = (function () { return %(v)s })() ? 'y' : 'n'",
        "logical-rhs": "r = false || (function () { return %(v)s })()",
        "arg-default-like": "r = [function () { return %(v)s }][0]()",
        "member-key": "r = ({k1: 'a', k2: 'b'})['k' + (function () { return %(v)s })()]",
        "dowhile-test": "var k = 0; do { k++ } while ((function () { return %(v)s + k })() < 4); r = k",
        "arrow-if-test": "if ((() => %(v)s)() %(cmp)s) { r = 1 } else { r = 2 }",
    }
    scopes = {
        "param": "function f(x) { var r; %s; return r } __out(f(1)); f(2)",
        "local": "function f(y) { var x = y, r; %s; return r } __out(f(1)); f(2)",
        "local-later-write": "function f(y) { var x = 0, r; x = y; %s; x = 9; return r } __out(f(1)); f(2)",
        "grandparent": "function f(x) { return (function () { var r; %s; return r })() } __out(f(1)); f(2)",
        "top-level": "var x = 1, r; %s; __out(r); x = 2; r",
    }
    for wname, w in wrappers.items():
        for sname, sc in scopes.items():
            body = w % {"v": "x", "cmp": "== 1"}
            src = sc % body
            out.append(("hdr/%s/%s :: %s" % (wname, sname, src), {"src": src, "tl": TL}))
    return out


def loop_target_cases():
    """for-in / for-of whose target is not a fresh `var`: an existing variable (local, captured, parameter, global,
    grandparent) or a member / element reference; read inside the body, by closures made in the body, and after the loop."""
    out = []
    iters = {"of": "[10, 20, 30]", "in": "{p: 1, q: 2}"}
    targets = {
        "local": ("var x;", "x"), "param": ("", "x"), "captured-before": ("var x; var g0 = function () { return x };", "x"),
        "member": ("var o = {x: 0};", "o.x"), "element": ("var a = [0];", "a[0]"), "computed": ("var o = {x: 0}, k = 'x';", "o[k]"),
    }
    uses = {
        "body-read": ("acc.push(%(t)s);", ""),
        "closure-in-body": ("fs.push(function () { return %(t)s });", "acc = fs.map(function (f) { return f() });"),
        "closure-before": ("acc.push(typeof g0 === 'function' ? g0() : -1);", ""),
        "nested-function-write": ("(function () { acc.push(%(t)s) })();", ""),
        "after-loop": ("", "acc.push(%(t)s);"),
        "break-then-read": ("if (acc.length == 1) break; acc.push(%(t)s);", "acc.push(%(t)s);"),
    }
    scopes = {
        "function": "function f(x) { var acc = [], fs = []; %(decl)s for (%(t)s %(kw)s %(it)s) { %(body)s } %(after)s return acc.join() } __out(f(5)); f(6)",
        "nested": "function f(x) { %(decl)s return (function () { var acc = [], fs = []; for (%(t)s %(kw)s %(it)s) { %(body)s } %(after)s return acc.join() })() } __out(f(5)); f(6)",
        "top-level": "var x = 5, acc = [], fs = []; %(decl)s for (%(t)s %(kw)s %(it)s) { %(body)s } %(after)s acc.join()",
    }
    for kw, it in iters.items():
        for tn, (decl, t) in targets.items():
            for un, (body, after) in uses.items():
                for sn, tmpl in scopes.items():
                    if sn == "top-level" and tn == "param":
                        continue
                    d = decl
                    if sn == "nested" and tn in ("local", "captured-before"):
                        pass
                    src = tmpl % {"decl": d if not (sn == "top-level" and tn == "local") else "", "t": t, "kw": kw, "it": it,
                                  "body": body % {"t": t}, "after": after % {"t": t}}
                    out.append(("tgt/%s/%s/%s/%s :: %s" % (kw, tn, un, sn, src), {"src": src, "tl": TL}))
    return out


def hoisting_cases():
    out = []
    for label, src in HOISTING:
        out.append(("hc/hoist/%s :: %s" % (label, src), {"src": src, "tl": TL}))
    return out


def _completion_label(st):
    s = st
    while s.startswith("var ") and "; " in s:
        s = s.split("; ", 1)[1]
    for lab in ("L: M:", "L: for", "L: do", "L: try", "L:"):
        if s.startswith(lab):
            return "labelled"
    w = s.split(" ", 1)[0].split("(")[0].rstrip(";")
    return {"{": "block", "": "empty", ";": "empty", "1": "expression", "1,": "expression", '"s"': "expression",
            "x": "expression"}.get(w, w)


def completion_cases():
    out = []
    for st in COMPLETION:
        kind = _completion_label(st)
        for pre_name, pre in (("none", ""), ("after-7", "7; ")):
            for wrap_name, wrap in (("script", "%s"), ("block", "{ %s }"), ("if", "if (true) { %s }")):
                src = pre + wrap % st
                out.append(("hc/completion/%s/%s/%s :: %s" % (kind, pre_name, wrap_name, src), {"src": src, "tl": TL}))
    return out


# ------------------------------------------------------------------ spaces

def nontrivial_log(cid, payload, exp):
    return exp.count(";") >= 1 or not exp.startswith("|")


def nontrivial_any(cid, payload, exp):
    return True


def _space(name, cases, rule, bound, nt):
    return Space(name, RUN, cases, oracle="table", nontrivial=nt, rule=rule, bound=bound, batch=64)


# every switch shape: 0..3 clauses over {default, matching case, other case} x {logs, logs and breaks}, one of them carrying the exit
# under test, inside every kind of enclosing statement (a shape with only a default clause, or none at all, is still a switch:
# an unlabelled break ends it and nothing else)
SW_CLAUSES = [("default", "default:"), ("hit", "case 1:"), ("miss", "case 5:")]
SW_ENCLOSINGS = {
    "forof": "var r = []; L: for (var x of [1, 2, 3]) { __out(['it', x]); %s __out('after-switch'); } __out('after-loop'); 0",
    "while": "var i = 0; L: while (i < 3) { i++; __out(['it', i]); %s __out('after-switch'); } __out('after-loop'); 0",
    "function": "function f() { L: { __out('in'); %s __out('after-switch'); } return 'ret-end' } __out(f()); 0",
    "callback": "[1, 2].forEach(function (x) { __out(['cb', x]); L: for (var k = 0; k < 2; k++) { %s __out('after-switch'); } }); 0",
    "nested-switch": "L: for (var x of [1, 2]) { switch (2) { case 2: __out('outer-case'); %s __out('after-switch'); case 3: __out('outer-fall'); } __out('after-outer'); } 0",
}
SW_EXITS = {"none": "", "break": "break;", "continue": "continue;", "break-label": "break L;", "continue-label": "continue L;", "return": "return 'ret';",
            "throw-caught": "try { throw 1 } catch (e) { __out('caught'); break; }", "break-in-if": "if (true) { break; }", "break-in-block": "{ __out('blk'); break; }"}


def switch_shape_cases():
    out = []
    variants = [(cn, ct, br) for cn, ct in SW_CLAUSES for br in (False, True)]
    shapes = [()]
    for n in (1, 2, 3):
        for seq in itertools.product(variants, repeat=n):
            if sum(1 for v in seq if v[0] == "default") <= 1:
                shapes.append(seq)
    for seq in shapes:
        for carrier in range(max(1, len(seq))):
            for en, ex in SW_EXITS.items():
                if not seq and en != "none":
                    continue
                clauses = []
                for i, (cn, ct, br) in enumerate(seq):
                    body = "__out('%s%d');" % (cn, i)
                    if i == carrier and ex:
                        body += " " + ex + " __out('%s%d-rest');" % (cn, i)
                    if br:
                        body += " break;"
                    clauses.append(ct + " " + body)
                sw = "switch (1) { %s }" % " ".join(clauses)
                for wn, wrap in SW_ENCLOSINGS.items():
                    if en == "return" and wn not in ("function", "callback"):
                        continue
                    if en in ("continue", "continue-label") and wn == "function":
                        continue
                    name = "+".join("%s%s" % (cn, "b" if br else "") for cn, ct, br in seq) or "empty"
                    src = "try { %s } catch (e) { __out(['escaped', e && e.name ? e.name : e]); }" % (wrap % sw)
                    out.append(("sw/%s/%s@%d/%s :: %s" % (name, en, carrier, wn, src), {"src": src}))
    seen, uniq = set(), []
    for c in out:
        if c[1]["src"] not in seen:
            seen.add(c[1]["src"])
            uniq.append(c)
    return uniq


def core_spaces():
    return [
        _space("c05_switch_shapes", switch_shape_cases,
               "every switch of 0..3 clauses over {default, matching case, non-matching case} x {falls through, ends with break} (at most one "
               "default), one clause carrying one of 9 exits (none, break, continue, labelled break / continue, return, break in a catch / if / "
               "block), inside a for-of loop, a while loop, a function with a labelled block, a loop in a callback, and an outer switch case",
               "259 shapes x clause x 9 exits x 5 enclosings", nontrivial_log),
        _space("c05_skeleton2", skeleton2_cases,
               "depth-2 skeletons: %d outer x %d inner constructs x 9 exit kinds x 3 exit positions x 8 call contexts, "
               "minus ECMAScript early errors; non-trivial = reference log has >= 2 entries and (unless exit 'none') "
               "contains the marker logged immediately before the exit statement" % (len(P.CONSTRUCTS), len(P.CONSTRUCTS)),
               "17 x 17 x 9 x 3 x 8", nontrivial_skeleton),
        _space("c05_evalorder", evalorder_cases,
               "every operator/call/member/assignment/update/conditional/logical/comma form with logging operands, "
               "valueOf/getter/setter order, depth-2 operator trees; non-trivial = something is logged",
               "forms x operators x value vectors", nontrivial_log),
        _space("c05_closures", closure_cases,
               "9 capture kinds x 4 accesses x 6 activation patterns x nesting 1..3 x 3 closure forms; non-trivial = "
               "something is logged", "9 x 4 x 6 x 3 x 3", nontrivial_log),
        _space("c05_labels", label_cases, "loops of 5 kinds carrying 1-3 labels with an inner loop carrying 0-2 labels; break/continue to "
               "every label (and unlabelled) from the inner body, through a switch, a try/finally or a labelled block", "labels",
               lambda cid, p, exp: True),
        _space("c05_loop_targets", loop_target_cases, "for-in / for-of over 6 target forms that are not a fresh var (existing local, parameter, "
               "variable already captured by a closure, member, element, computed member) x 6 uses (read in the body, closure made in the body, "
               "closure made before, nested function, after the loop, after break) x 3 scopes", "2 x 6 x 6 x 3", lambda cid, p, exp: True),
        _space("c05_in_handlers", in_handler_cases, "every two-level nesting of 9 constructs x 8 exits that stay inside it x 2 positions, written "
               "inside a finally block that runs with a pending exception, a catch block, a finally block that interrupts a return and an "
               "ordinary finally block", "81 x 8 x 2 x 4", lambda cid, p, exp: True),
        _space("c05_fn_in_statements", fn_in_statement_cases, "10 kinds of function (expression, block / expression arrows, method, getter, "
               "declaration in a block, callback, two IIFE forms, nested arrow) with 8 kinds of body (return, return out of a loop / try-finally / "
               "switch, break and continue of an inner loop, caught throw) defined and called inside 10 statement positions (try, catch and "
               "finally blocks, loops, switch case, labelled block, try with a later throw, defined in try and called after)",
               "10 x 8 x 10 x 2 x 2", lambda cid, p, exp: True),
        _space("c05_header_closures", header_closure_cases, "closures created in statement-header expressions (if/while/do/for init-test-update, "
               "switch discriminant and case test, return/throw operands, for-in/of subjects, ternary, logical, member key) capturing a "
               "parameter, a local, a later-written local, a grandparent variable or a global", "17 positions x 5 scopes",
               lambda cid, p, exp: True),
        _space("c05_hoisting", hoisting_cases, "function/var hoisting, duplicate declarations, function-boundary "
               "isolation of jump contexts (hand-enumerated list)", "%d programs" % len(HOISTING), nontrivial_any),
        _space("c05_completion", completion_cases,
               "%d statement forms as the last statement x {no previous value, previous value 7} x {script, block, "
               "if-block}" % len(COMPLETION), "%d x 2 x 3" % len(COMPLETION), nontrivial_any),
    ]


def thorough_strata():
    st = []
    for outer in D3_SET:
        st.append(_space("c05_skeleton3_%s" % outer, lambda outer=outer: skeleton3_cases(outer),
                         "depth-3 skeletons with outer construct %s over the reduced set of %d constructs x 11 exit "
                         "kinds x 3 positions x 8 contexts" % (outer, len(D3_SET)), "11 x 11 x 11 x 3 x 8",
                         nontrivial_skeleton))
    return st


def spaces(tier, seed, all_strata=False):
    core = core_spaces()
    strata = thorough_strata()
    if tier == "thorough" or all_strata:
        return core + strata
    return core + [strata[seed % len(strata)]]


# ------------------------------------------------------------------ triage signatures

_CLASS = {"forin": "for-in", "forof": "for-of", "trycatch": "try", "tryfinally": "try-finally", "func": "function"}
_CLASS.update({k: "switch" for k in P.SWITCHES})


def failure_kind(exp, obs):
    le, _, te = exp.rpartition("|")
    lo, _, to = obs.rpartition("|")
    if to.startswith("Ehost"):
        return "host exception " + to[6:]
    if to == "Etime":
        return "runs into time limit"
    if to.startswith("E") and not te.startswith("E"):
        return "throws" if le == lo else "wrong order then throws"
    if te.startswith("E") and not to.startswith("E"):
        return "no throw where one is specified"
    if le != lo:
        if lo.startswith(le) or le.startswith(lo):
            return "log too long" if len(lo) > len(le) else "log too short"
        return "wrong order"
    return "wrong value"


def skeleton_signature(cid, exp, obs):
    chain, ex, pos, ctx = P.parse_skeleton_id(cid)
    left = P.crossed(chain, ex)
    classes = sorted({_CLASS[k] for k in left if k in _CLASS})
    dbc = any(k in ("sw_df_hit", "sw_dm_hit") for k in chain)
    where = "statement" if ctx == "f();" else "operand"
    kind = failure_kind(exp, obs)
    exname = {"none": "no exit", "lbreak": "labelled break", "lcontinue": "labelled continue"}.get(ex.rstrip("012"), ex)
    if dbc:
        head = "switch default-before-case"
        if ex != "none":
            head += " + " + exname
    elif ex == "none":
        head = "no exit: " + "/".join(sorted({_CLASS.get(k, k) for k in chain}))
    else:
        head = "%s leaving %s" % (exname, "+".join(classes) if classes else "plain constructs")
    if where == "operand" and kind in ("wrong value", "throws", "host exception IndexError"):
        head += " (call used as operand)"
    key = "skel|%s|%s" % (head, kind)
    return key, "%s: %s" % (head, kind)


HOIST_GROUPS = {
    "function": "function declarations are not created on entry to their scope (call/typeof before the declaration, "
                "precedence against var and parameters)",
    "local": "function declarations are not created on entry to their scope (call/typeof before the declaration, "
             "precedence against var and parameters)",
    "param": "var/function declarations against a parameter of the same name: wrong binding value",
    "var": "var declarations are not created on entry (read before declaration throws; `var x;` resets the value)",
    "boundary": "break/continue/return inside a nested function use the try/label contexts of the enclosing function",
}


def signature(sp, cid, payload, exp, obs):
    if cid.startswith("d2|") or cid.startswith("d3|"):
        return skeleton_signature(cid, exp, obs)
    label = cid.split(" :: ", 1)[0]
    parts = label.split("/")
    kind = failure_kind(exp, obs)
    if parts[0] == "eo":
        grp = parts[1]
        op = parts[2] if len(parts) > 2 else ""
        if grp.startswith("tree"):
            head = "evaluation order, nested %s" % grp
        elif grp == "valueOf":
            head = "operator applied to an object operand (valueOf/toString/getter call order)"
        elif grp in ("binary", "compound-member", "compound-accessor", "compound-ident", "compound-captured",
                     "update-member", "update-accessor", "logical", "conditional", "unary"):
            head = "evaluation order, %s operators" % grp
        else:
            head = "evaluation order, %s %s" % (grp, op)
    elif parts[0] == "ih":
        head = "control structure %s with exit %s inside a %s" % (parts[1], parts[2], parts[4])
    elif parts[0] == "fs":
        head = "%s with body `%s` defined and called in a %s" % (parts[1], parts[2], parts[3])
    elif parts[0] == "cl":
        head = "closure over %s (%s closures)" % (parts[1], {"fe": "function-expression", "arrow": "arrow",
                                                           "decl": "function-declaration"}[parts[5]])
    elif parts[1] == "hoist":
        head = HOIST_GROUPS.get(parts[2], "hoisting: " + parts[2])
        return "hoist|" + head, head
    else:
        head = "completion value of a %s statement" % parts[2]
    return "%s|%s" % (head, kind), "%s: %s" % (head, kind)


# ---------------------------------------------------------------------------------------------
# whole control structures inside handler blocks, and function bodies written inside try / loop / switch statements

IN_HANDLER_CONSTRUCTS = ["for", "forin", "forof", "switch", "sw_df_hit", "label", "trycatch", "tryfinally", "dowhile"]
IN_HANDLER_PLACES = {
    "finally-with-pending-exception": "try { try { throw new Error('boom') } finally { %s } } catch (e) { __out(['caught', e.message]) }",
    "catch-block": "try { null.x } catch (e) { __out(['in catch', e.name]); %s }",
    "finally-interrupting-return": "__out(['returned', (function () { try { return 'ret' } finally { %s } })()]);",
    "finally-normal": "try { __out(1) } finally { %s }",
}


def in_handler_cases():
    from mc.props import c02 as C02
    out = []
    for chain in itertools.product(IN_HANDLER_CONSTRUCTS, repeat=2):
        for ex in ("none", "break", "continue", "lbreak0", "lbreak1", "lcontinue0", "lcontinue1", "throw"):
            for pos in ("bare", "iter1"):
                b = C02.inline_body(chain, ex, pos)
                if b is None or P.early_error([("for", None, "false", None, b)], in_function=True):
                    continue
                if "continue" in ex and not any(k in P.LOOPS for k in chain):
                    continue
                if ex == "break" and not any(k in P.LOOPS or k in P.SWITCHES for k in chain):
                    continue
                body = P.stmts(b)
                for place, tmpl in IN_HANDLER_PLACES.items():
                    src = (P.PRELUDE + "function probe() { " + (tmpl % body) + " __out(-8); return 5 } "
                           "try { __out(['probe', probe()]) } catch (e2) { __out(['outer', String(e2)]) }" + P.EPILOGUE)
                    out.append(("ih/%s/%s/%s/%s :: %s" % (">".join(chain), ex, pos, place, src), {"src": src, "tl": 50}))
    return out


FN_KINDS = {
    "function-expression": ("var fn = function (x) { %s };", "fn(%s)"),
    "arrow-block": ("var fn = (x) => { %s };", "fn(%s)"),
    "arrow-expression": ("var fn = (x) => (x > 0 ? x * 2 : -1);", "fn(%s)"),
    "method": ("var ob = {m(x) { %s }};", "ob.m(%s)"),
    "getter": ("var ob = {get p() { var x = 1; %s }};", "ob.p"),
    "function-declaration-in-block": ("function fd(x) { %s }", "fd(%s)"),
    "callback": ("var fn = function (x) { %s };", "[%s].map(fn)[0]"),
    "iife": ("", "(function (x) { %s })(%s)"),
    "arrow-iife": ("", "((x) => { %s })(%s)"),
    "nested-arrow": ("var fn = (x) => { var inner = (y) => { %s }; return inner(x) };", "fn(%s)"),
}
FN_INNER = {
    "return-value": "return x + 10;",
    "return-from-loop": "for (var i = 0; i < 3; i++) { if (i == 1) return x + i; } return -1;",
    "break-inner-loop": "var t = 0; for (var i = 0; i < 3; i++) { if (i == 1) break; t += 1 } return x + t;",
    "continue-inner-loop": "var t = 0; for (var i = 0; i < 3; i++) { if (i == 1) continue; t += 1 } return x + t;",
    "return-from-try-finally": "try { return x + 20 } finally { __out(-5) }",
    "return-from-switch": "switch (x) { case 1: return 'one'; default: return 'other' }",
    "throw-caught-inside": "try { throw x } catch (e) { return e + 30 }",
    "no-return": "var unused = x;",
}
FN_PLACES = {
    "try-block": "try { %(def)s __out(['in', %(call)s]); } catch (e) { __out(['catch', String(e)]) } finally { __out(-1) }",
    "catch-block": "try { throw 7 } catch (e) { %(def)s __out(['in', %(call)s]); } finally { __out(-1) }",
    "finally-block": "try { __out(0) } finally { %(def)s __out(['in', %(call)s]); }",
    "try-inside-loop": "for (var q = 0; q < 2; q++) { try { %(def)s __out(['in', %(call)s]); } finally { __out(-1) } }",
    "for-of-body": "for (var v of [1, 2]) { %(def)s __out(['in', %(call)s]); }",
    "for-in-body": "for (var k in {a: 1}) { %(def)s __out(['in', %(call)s]); }",
    "switch-case": "switch (1) { case 1: %(def)s __out(['in', %(call)s]); break; default: __out(-2) }",
    "labelled-block": "L: { %(def)s __out(['in', %(call)s]); break L; }",
    "try-then-later-throw": "try { %(def)s __out(['in', %(call)s]); throw 'later' } catch (e) { __out(['catch', String(e)]) }",
    "defined-in-try-called-after": "try { %(def)s } finally { __out(-1) } __out(['after', %(call)s]);",
}


def fn_in_statement_cases():
    out = []
    for kn, (dtmpl, ctmpl) in FN_KINDS.items():
        for inn, inner in FN_INNER.items():
            if kn == "arrow-expression" and inn != "return-value":
                continue
            for pn, ptmpl in FN_PLACES.items():
                if kn == "function-declaration-in-block" and pn == "defined-in-try-called-after":
                    continue        # block-scoped in strict code (V8 table), function-scoped in the engine: a strictness difference
                for arg in ("1", "2"):
                    d = dtmpl % inner if "%s" in dtmpl else dtmpl
                    if kn in ("iife", "arrow-iife"):
                        call = ctmpl % (inner, arg)
                    elif "%s" in ctmpl:
                        call = ctmpl % arg
                    else:
                        call = ctmpl
                    for scope in ("function", "top"):
                        body = ptmpl % {"def": d, "call": call}
                        if scope == "function":
                            src = "var s = 1; function outer() { " + body + " __out(-9); return 'done' } __out(outer()); 0"
                        else:
                            if kn == "function-declaration-in-block":
                                continue
                            src = "var s = 1; " + body + " __out(-9); 0"
                        out.append(("fs/%s/%s/%s/%s/%s :: %s" % (kn, inn, pn, arg, scope, src), {"src": src, "tl": 50}))
    return out


# ------------------------------------------------------------------ build-time self test

def selftest():
    """Every program must be accepted by V8 and terminate there: no expected outcome may be |Esyntax,
    |Etime or |Estack; no generated program may be an early error by the generator's own rules.
    Run with  /venv/bin/python -m mc.props.c05  after tools/gen_tables.py C05."""
    from mc.core import store
    from mc.core.runner import materialise
    bad = 0
    total = 0
    for sp in spaces("thorough", 0, all_strata=True):
        cases = materialise(sp)
        exp = store.load_table(sp.name, [c[0] for c in cases])
        nt = 0
        for (cid, payload), e in zip(cases, exp):
            total += 1
            t = tail(e)
            if t in ("Esyntax", "Etime", "Estack"):
                bad += 1
                if bad <= 10:
                    print("BAD %s %s -> %s" % (sp.name, cid[:300], e[-40:]))
            if sp.nontrivial(cid, payload, e):
                nt += 1
        thr = sum(1 for e in exp if tail(e) == "Ethrow")
        print("%-28s %6d cases, %6d non-trivial, %4d expected uncaught throws" % (sp.name, len(cases), nt, thr))
    print("total %d cases, %d unacceptable expected outcomes" % (total, bad))
    return 1 if bad else 0


if __name__ == "__main__":
    import sys
    sys.exit(selftest())
