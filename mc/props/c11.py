"""C11  Values cross the Python/JavaScript boundary faithfully.

E1: every JSON-like Python value up to a depth/width bound through set->get and set->eval(name); the same
space written as JS literals through eval; argument vectors through an exposed callable; Python return
kinds seen by the script. E2: all set/eval/get histories up to depth 4 over two names against a plain
dict model (aliasing, freshness). The oracle is the value itself (round trip) or a boring Python model.
"""
import itertools
import json
import math
import struct

from mc.core.runner import Space

PROP = "C11"
LEVEL = "exploration"
ASSUMPTIONS = [
    "equality is type-exact for None/bool/str, value-exact for numbers (NaN = NaN, sign of zero kept, 1 == 1.0), "
    "dict keys compared through str(key)",
    "values deeper/wider than the bound and leaves outside the 17-value grid are not explored",
]

LEAVES = [None, True, False, 0, 1, -1, 2 ** 31, 2 ** 53, 1.5, -0.0, float("nan"), float("inf"), float("-inf"),
          "", "a", "\U0001F600", "__proto__"]
KEYS = ["a", "", "1", 1, None, True, 1.5]


def canon(v, depth=0):
    if v is None:
        return "N"
    if v is True:
        return "T"
    if v is False:
        return "F"
    if isinstance(v, (int, float)):
        try:
            f = float(v)
        except OverflowError:
            return "I" + str(v)
        if isinstance(v, int) and int(f) != v:
            return "I" + str(v)
        if f != f:
            return "dNaN"
        return "d" + struct.pack(">d", f).hex()
    if isinstance(v, str):
        return "s" + json.dumps(v)
    if isinstance(v, list):
        return "[" + ",".join(canon(x, depth + 1) for x in v) + "]"
    if isinstance(v, dict):
        merged = {}
        for k, x in v.items():          # keys that coincide as strings denote one property (last value, first position)
            merged[str(k)] = x
        return "{" + ",".join(json.dumps(k) + ":" + canon(x, depth + 1) for k, x in merged.items()) + "}"
    if callable(v):
        return "<callable>"
    return "X" + type(v).__name__


def _values(depth, width):
    if depth == 0:
        return list(LEAVES)
    sub = _values(depth - 1, width)
    small = sub if depth == 1 else sub[::max(1, len(sub) // 40)]
    out = list(LEAVES)
    out.append([])
    out.append({})
    for n in range(1, width + 1):
        for combo in itertools.product(small, repeat=n):
            out.append(list(combo))
    for n in range(1, width + 1):
        for ks in itertools.combinations(KEYS, n):
            for combo in itertools.product(small[::max(1, len(small) // 12)], repeat=n):
                out.append(dict(zip(ks, combo)))
    return out


def _dedup(vals):
    seen, out = set(), []
    for v in vals:
        c = canon(v) + "|" + repr(type(v)) + repr(v)[:200]
        if c not in seen:
            seen.add(c)
            out.append(v)
    return out


def run_roundtrip(payload):
    from mc.props.common import engine
    e = engine()
    v = _mk(payload["mk"]) if "mk" in payload else payload["v"]
    import sys
    sys.setrecursionlimit(1000)
    if payload.get("nonjson"):
        # not in the property's domain: the only demand is that nothing host-level leaks into the script
        e.CLOCK.reset("poll")
        ctx = e.Context(time_limit=100)
        try:
            ctx.set("x", v)
            r = ctx.eval("typeof x")
            ok = r in ("undefined", "object", "string", "number", "boolean", "function")
            return ("ok" if ok else "typeof x = %r" % (r,)) + "\x00ok"
        except e._errors.JSError:
            return "ok\x00ok"
        except Exception as ex:  # noqa: BLE001
            return "host " + type(ex).__name__ + "\x00ok"
    if "mk" in payload and payload["mk"][0] in ("list", "dict"):
        # deep chains are compared by an iterative walk (canon() itself would recurse)
        def walk(x):
            d = 0
            while True:
                if isinstance(x, list) and len(x) == 1:
                    x = x[0]
                elif isinstance(x, dict) and list(x) == ["k"]:
                    x = x["k"]
                else:
                    return "%d levels then %s" % (d, "[]" if x == [] else "{}" if x == {} else type(x).__name__)
                d += 1
        e.CLOCK.reset("poll")
        ctx = e.Context(time_limit=1000)
        try:
            ctx.set("x", v)
            o = "get=%s eval=%s" % (walk(ctx.get("x")), walk(ctx.eval("x")))
        except RecursionError:
            o = "host RecursionError"
        except Exception as ex:  # noqa: BLE001
            o = "host " + type(ex).__name__
        w = walk(v)
        return o + "\x00" + "get=%s eval=%s" % (w, w)
    exp = canon(v)
    e.CLOCK.reset("poll")
    ctx = e.Context(time_limit=100)
    obs = []
    try:
        ctx.set("x", v)
        g1 = ctx.get("x")
        obs.append("get=" + canon(g1))
        r = ctx.eval("x")
        obs.append("eval=" + canon(r))
        # freshness: mutating what came back, or the original, changes nothing observable
        if isinstance(g1, list):
            g1.append("mut")
        elif isinstance(g1, dict):
            g1["mut"] = 1
        if isinstance(v, list):
            v.append("mut2")
        elif isinstance(v, dict):
            v["mut2"] = 1
        obs.append("again=" + canon(ctx.get("x")))
        if isinstance(v, list):
            v.pop()
        elif isinstance(v, dict):
            del v["mut2"]
    except RecursionError:
        obs.append("host RecursionError")
    except Exception as ex:  # noqa: BLE001
        obs.append("host " + type(ex).__name__)
    want = ["get=" + exp, "eval=" + exp, "again=" + exp]
    return " ".join(obs) + "\x00" + " ".join(want)


def js_literal(v):
    if v is None:
        return "null"
    if v is True:
        return "true"
    if v is False:
        return "false"
    if isinstance(v, float):
        if v != v:
            return "NaN"
        if math.isinf(v):
            return "Infinity" if v > 0 else "-Infinity"
        if v == 0 and math.copysign(1, v) < 0:
            return "-0"
        return repr(v)
    if isinstance(v, int):
        return str(v)
    if isinstance(v, str):
        return json.dumps(v)
    if isinstance(v, list):
        return "[" + ", ".join(js_literal(x) for x in v) + "]"
    if isinstance(v, dict):
        return "({" + ", ".join(json.dumps(str(k)) + ": " + js_literal(x) for k, x in v.items()) + "})"
    raise ValueError(v)


def run_literal(payload):
    """A script result over the same value space, written as a JS literal."""
    from mc.props.common import engine
    e = engine()
    e.CLOCK.reset("poll")
    ctx = e.Context(time_limit=100)
    try:
        r = ctx.eval(payload["src"])
        obs = canon(r)
    except RecursionError:
        obs = "host RecursionError"
    except Exception as ex:  # noqa: BLE001
        obs = "raises " + type(ex).__name__
    return obs + "\x00" + payload["exp"]


SPECIAL_RESULTS = [
    ("undefined", "N"), ("null", "N"), ("[undefined, null]", "[N,N]"), ("({a: undefined})", '{"a":N}'),
    ("({get a() { return 1 }, b: 2})", '{"b":d4000000000000000}'),
    ("Object.create({inherited: 1})", "{}"),
    ("var o = Object.create({inherited: 1}); o.own = 2; o", '{"own":d4000000000000000}'),
    ("[[1, [2, [3]]]]", "[[d3ff0000000000000,[d4000000000000000,[d4008000000000000]]]]"),
    ("var a = [1]; [a, a]", "[[d3ff0000000000000],[d3ff0000000000000]]"),
    ("'\\ud83d\\ude00'.length >= 1", "T"), ("-0", "d8000000000000000"), ("0/0", "dNaN"), ("1/0", "d7ff0000000000000"),
    ("9007199254740993", "d4340000000000000"), ("2147483648 * 2", "d41f0000000000000"), ("'a' + 1", 's"a1"'),
    ("true && 'x'", 's"x"'), ("void 0", "N"), ("[].concat([1], [2])", "[d3ff0000000000000,d4000000000000000]"),
    ("({'': 1, ' ': 2})", '{"":d3ff0000000000000," ":d4000000000000000}'),
    ("(function () { return arguments })(1, 2)", "[d3ff0000000000000,d4000000000000000]"),
    # a key that stopped being (or became) a data property: the dict holds the own DATA properties as they are now
    ("var o = {a: 1, b: 2}; Object.defineProperty(o, 'a', {set: function (v) { }, enumerable: true, configurable: true}); o", '{"b":d4000000000000000}'),
    ("var o = {a: 1, b: 2}; Object.defineProperty(o, 'a', {get: function () { return 9 }, enumerable: true, configurable: true}); o", '{"b":d4000000000000000}'),
    ("var o = {a: 1, b: 2}; Object.defineProperty(o, 'a', {get: function () { return 9 }, set: function (v) { }, enumerable: true, configurable: true}); [o, {k: o}]",
     '[{"b":d4000000000000000},{"k":{"b":d4000000000000000}}]'),
    ("var o = {a: 1, b: 2}; Object.defineProperties(o, {a: {set: function (v) { }, enumerable: true, configurable: true}}); o", '{"b":d4000000000000000}'),
    ("var o = {get a() { return 1 }, b: 2}; Object.defineProperty(o, 'a', {value: 5, writable: true, enumerable: true, configurable: true}); o",
     '{"a":d4014000000000000,"b":d4000000000000000}'),
    ("var o = {a: 1, b: 2}; delete o.a; o.a = 3; o", '{"b":d4000000000000000,"a":d4008000000000000}'),
    ("var o = {a: 1}; Object.defineProperty(o, 'a', {set: function (v) { }, enumerable: true, configurable: true}); o.a = 7; o", "{}"),
    ("var o = {a: 1, set b(v) { this.a = v }}; o.b = 4; o", '{"a":d4010000000000000}'),
    ("var o = {a: {b: 1}}; Object.defineProperty(o.a, 'b', {get: function () { return 2 }, enumerable: true, configurable: true}); o", '{"a":{}}'),
]


def js_to_string(v):
    if v is True:
        return "true"
    if v is False:
        return "false"
    if isinstance(v, float):
        return "0" if v == 0 else repr(v)
    return str(v)


def run_callable(payload):
    """Arguments received by an exposed callable, and what the script sees of its return value."""
    from mc.props.common import engine
    e = engine()
    e.CLOCK.reset("poll")
    ctx = e.Context(time_limit=100)
    got = []

    def f(*args):
        got.append(args)
        return payload.get("ret")

    ctx.set("f", f)
    try:
        r = ctx.eval(payload["src"])
        obs_r = canon(r)
    except Exception as ex:  # noqa: BLE001
        obs_r = "raises " + type(ex).__name__
    parts = []
    for args in got:
        parts.append("(" + ",".join((canon(a) if payload.get("canon_args") else e.ser(a)) for a in args) + ")")
    if payload.get("only_result"):
        return "result=" + obs_r + "\x00" + payload["exp"]
    return "calls=" + "".join(parts) + " result=" + obs_r + "\x00" + payload["exp"]


JSARGS = [("undefined", "u"), ("null", "n"), ("true", "t"), ("0", "d0000000000000000"), ("-0", "d8000000000000000"),
          ("1.5", "d3ff8000000000000"), ("NaN", "d7ff8000000000000"), ('"s"', 's"s"'), ('""', 's""'),
          ("[1]", "[d3ff0000000000000]"), ("({a: 1})", '{"a":d3ff0000000000000}'), ("[]", "[]")]
RETURNS = [(None, "typeof r", 's"undefined"'), (True, "r", "T"), (0, "r", "d0000000000000000"), (1.5, "r", "d3ff8000000000000"),
           (float("nan"), "r !== r", "T"), ("s", "r", 's"s"'), ("", "r", 's""'),
           ([1, 2], "Array.isArray(r) && r.length", "d4000000000000000"), ({"a": 1}, "typeof r === 'object' && r.a", "d3ff0000000000000"),
           ([], "Array.isArray(r)", "T"), ([[1]], "r[0][0]", "d3ff0000000000000"), ({"k": [1]}, "r.k[0]", "d3ff0000000000000"),
           (-0.0, "1 / r", "dfff0000000000000"), (2 ** 53, "r", "d4340000000000000")]


def _callable_cases(maxlen):
    out = []
    for n in range(0, maxlen + 1):
        for combo in itertools.product(JSARGS, repeat=n):
            src = "f(" + ", ".join(c[0] for c in combo) + "); 1"
            exp = "calls=(" + ",".join(c[1] for c in combo) + ") result=d3ff0000000000000"
            out.append(("callable receives " + src, {"src": src, "exp": exp}))
    for ret, probe, want in RETURNS:
        src = "var r = f(); " + probe
        out.append(("callable returns %r, script evaluates `%s`" % (ret, probe),
                    {"src": src, "ret": ret, "exp": "calls=() result=" + want}))
    # the exposed callable used where built-ins call back (its falsy results must arrive as they are)
    for ret, lit in ((0, "d0000000000000000"), ("", 's""'), (False, "F"), (-0.0, "d8000000000000000"), (0.0, "d0000000000000000"),
                     (None, None), (1, "d3ff0000000000000"), ("x", 's"x"')):
        for form, n_calls in (("[7].map(f)[0]", 1), ("[7, 8].reduce(f)", 1), ("'a-b'.replace('-', f)", 1), ("[7].find(f)", 1),
                              ("[2, 1].sort(f).length", 1), ("[7].filter(f).length", 1), ("[7].some(f)", 1), ("[7].every(f)", 1)):
            if form.startswith("[7].map") or form.startswith("[7, 8].reduce"):
                want = "N" if ret is None else lit
            elif "replace" in form:
                want = canon("a" + ("undefined" if ret is None else js_to_string(ret)) + "b")
            elif "find(" in form:
                want = canon(7) if ret else "N"
            elif "sort" in form:
                want = canon(2)
            elif "filter" in form:
                want = canon(1 if ret else 0)
            else:
                want = "T" if ret else "F"
            out.append(("callable returning %r used as the callback of `%s`" % (ret, form),
                        {"src": form, "ret": ret, "exp": "result=" + want, "only_result": True}))
    # a host function is only invoked when called explicitly
    for src in ("f; typeof f", "var g = f; [g].length", "typeof f === 'function'", "'' + (f === f)", "[f, f].length"):
        r = {"f; typeof f": 's"function"', "var g = f; [g].length": "d3ff0000000000000", "typeof f === 'function'": "T",
             "'' + (f === f)": 's"true"', "[f, f].length": "d4000000000000000"}[src]
        out.append(("host function mentioned but not called: " + src, {"src": src, "exp": "calls= result=" + r}))
    return out


# ------------------------------------------------------------------ E2 histories against a dict model
V1, V2 = [1, 2], {"k": "v"}
OPS = [
    ("set(x,V1)", lambda c, m: (c.set("x", json.loads(json.dumps(V1))), m.__setitem__("x", json.loads(json.dumps(V1))))),
    ("set(x,V2)", lambda c, m: (c.set("x", json.loads(json.dumps(V2))), m.__setitem__("x", json.loads(json.dumps(V2))))),
    ("set(y,V1)", lambda c, m: (c.set("y", json.loads(json.dumps(V1))), m.__setitem__("y", json.loads(json.dumps(V1))))),
    ("eval(x=[7])", lambda c, m: (c.eval("x = [7]"), m.__setitem__("x", [7]))),
    ("eval(y=x)", lambda c, m: (c.eval("y = x"), m.__setitem__("y", m["x"]))),          # aliasing inside the context
    ("eval(x.push(1))", None),
    ("eval(y.a=5)", None),
    ("get(x)->mutate", None),
    ("eval(delete-ish x=undefined)", lambda c, m: (c.eval("x = undefined"), m.__setitem__("x", None))),
]


def _apply(op, ctx, model):
    name = op[0]
    if name == "eval(x.push(1))":
        if isinstance(model["x"], list):
            ctx.eval("x.push(1)")
            model["x"].append(1)
            return True
        return False
    if name == "eval(y.a=5)":
        if isinstance(model["y"], dict):
            ctx.eval("y.a = 5")
            model["y"]["a"] = 5
            return True
        return False
    if name == "get(x)->mutate":
        g = ctx.get("x")
        if isinstance(g, list):
            g.append("leak")
        elif isinstance(g, dict):
            g["leak"] = 1
        return True
    op[1](ctx, model)
    return True


def run_history(payload):
    from mc.props.common import engine
    e = engine()
    e.CLOCK.reset("poll")
    ctx = e.Context(time_limit=1000)
    model = {"x": None, "y": None}
    ctx.eval("var x = null, y = null;")
    obs, exp = [], []
    try:
        for i in payload["h"]:
            if not _apply(OPS[i], ctx, model):
                obs.append("skip")
                exp.append("skip")
                continue
            obs.append("x=%s y=%s ex=%s" % (canon(ctx.get("x")), canon(ctx.get("y")), canon(ctx.eval("x"))))
            exp.append("x=%s y=%s ex=%s" % (canon(model["x"]), canon(model["y"]), canon(model["x"])))
    except Exception as ex:  # noqa: BLE001
        obs.append("host " + type(ex).__name__)
    return " | ".join(obs) + "\x00" + " | ".join(exp)


def _histories(depth):
    out = []
    for n in range(1, depth + 1):
        for h in itertools.product(range(len(OPS)), repeat=n):
            out.append(("history " + " ; ".join(OPS[i][0] for i in h), {"h": list(h)}))
    return out


def _mk(desc):
    """Build the values that cannot be pickled cheaply (deep chains) or are not JSON-like, in the worker."""
    kind, n = desc
    if kind == "list":
        v = []
        for _ in range(n):
            v = [v]
        return v
    if kind == "dict":
        d = {}
        for _ in range(n):
            d = {"k": d}
        return d
    if kind == "shared-list":
        shared = [1, 2]
        return [shared, shared, {"a": shared}]
    if kind == "shared-dict":
        sd = {"k": 1}
        return {"a": sd, "b": sd, "c": [sd]}
    return {"tuple": (1, 2), "set": {1, 2}, "bytes": b"ab", "bytearray": bytearray(b"a"), "frozenset": frozenset([1]),
            "range": range(3), "complex": 1 + 2j}[kind]


def _chains():
    out = []
    for n in (10, 100, 300, 500, 900, 2000):
        out.append(("list nested %d deep" % n, {"mk": ("list", n)}))
        out.append(("dict nested %d deep" % n, {"mk": ("dict", n)}))
    out.append(("shared sub-list inserted twice", {"mk": ("shared-list", 0)}))
    out.append(("shared sub-dict inserted twice", {"mk": ("shared-dict", 0)}))
    for k in ("tuple", "set", "bytes", "bytearray", "frozenset", "range", "complex"):
        out.append(("non-JSON Python value of type %s" % k, {"mk": (k, 0), "nonjson": True}))
    return out


# ---------------------------------------------------------------------------------------------
# integers beyond 2**53 (ids, timestamps in ns, 64-bit handles) and the call forms of an exposed callable
BIG_INTS = [2 ** 53 + 1, -(2 ** 53) - 1, 2 ** 53 + 2, 2 ** 63 - 1, -(2 ** 63), 2 ** 64, 2 ** 64 + 1, 2 ** 70, 10 ** 30 + 1, -(10 ** 30) - 1,
            2 ** 1023, 2 ** 1024, 10 ** 400]


def _bigint_cases():
    out = []
    for b in BIG_INTS:
        for shape, v in (("leaf", b), ("in list", [1, b]), ("in dict", {"id": b}), ("nested", {"a": [{"b": [b, -b]}]}), ("twice", [b, b])):
            out.append(("set/get/eval round trip of a large int %s: %s" % (shape, repr(v)[:80]), {"v": v}))
    return out


def _bigint_callable_cases():
    out = []
    for b in BIG_INTS:
        for ret, acc in ((b, "r"), ([b], "r[0]"), ({"id": b}, "r.id"), ([[b]], "r[0][0]")):
            out.append(("callable returns %s, script passes %s straight back" % (repr(ret)[:60], acc),
                        {"src": "var r = f(); f(%s); typeof %s" % (acc, acc), "ret": ret, "canon_args": True,
                         "exp": "calls=()(%s) result=s\"number\"" % canon(b)}))
    return out


def _ser_py(v):
    """What engine.ser prints for the Python value a callable receives back."""
    if isinstance(v, list):
        return "[" + ",".join(_ser_py(x) for x in v) + "]"
    if isinstance(v, dict):
        return "{" + ",".join(json.dumps(k) + ":" + _ser_py(x) for k, x in v.items()) + "}"
    return canon(v)


# the same exposed callable reached through every call form, twice in a row (what it receives must not depend on earlier calls)
CALL_FORMS = [
    ("plain", "f(1, 'a'); f(2)", "(1,a)(2)"),
    ("call", "f.call(null, 1, 'a'); f.call({}, 2)", "(1,a)(2)"),
    ("apply", "f.apply(null, [1, 'a']); f.apply(null, [2])", "(1,a)(2)"),
    ("bind", "var g = f.bind(null); g(1, 'a'); g(2)", "(1,a)(2)"),
    ("bind-partial", "var g = f.bind(null, 9); g(1); g(2); g()", "(9,1)(9,2)(9)"),
    ("bind-partial-2", "var g = f.bind(null, 9, 8); g(1); g(1); g(2, 3)", "(9,8,1)(9,8,1)(9,8,2,3)"),
    ("bind-chain", "var g = f.bind(null, 9).bind(null, 8); g(1); g(2)", "(9,8,1)(9,8,2)"),
    ("two-bound", "var g = f.bind(null, 9), h = f.bind(null, 7); g(1); h(1); g(2); f(3)", "(9,1)(7,1)(9,2)(3)"),
    ("method", "var o = {m: f}; o.m(1, 'a'); o.m(2)", "(1,a)(2)"),
    ("callback-map", "[5, 6].map(f); [7].map(f)", "(5,0,<JSArray>)(6,1,<JSArray>)(7,0,<JSArray>)"),
    ("callback-forEach-bound", "var g = f.bind(null, 9); [5, 6].forEach(g); [7].forEach(g)", "(9,5,0,<JSArray>)(9,6,1,<JSArray>)(9,7,0,<JSArray>)"),
    ("callback-reduce", "[5, 6, 7].reduce(f, 0)", None),
    ("new", "try { new f(1) } catch (e) { } f(2)", None),
    ("stored-and-called-later", "var keep = [f, f.bind(null, 4)]; keep[0](1); keep[1](1); keep[1](2); keep[0](2)", "(1)(4,1)(4,2)(2)"),
    ("getter", "var o = {get p() { return f(1) }}; o.p; o.p", "(1)(1)"),
    ("valueOf", "var o = {valueOf: f}; o + 1; o * 2", None),
    ("sort-comparator", "[2, 1].sort(f); [4, 3].sort(f)", None),
    ("replace-callback", "'ab'.replace(/(a)|(z)/, f); 'ab'.replace('b', f)", None),
]


def run_call_forms(payload):
    """Every call form twice: the argument tuples of the second round equal those of the first, and literal expectations hold."""
    from mc.props.common import engine
    e = engine()
    got = []

    def f(*args):
        got.append(args)
        return 0

    def show(calls):
        def one(a):
            if isinstance(a, float) and a == int(a):
                return str(int(a))
            if isinstance(a, (bool, int, float, str)):
                return str(a)
            return "u" if a is None else "<" + type(a).__name__ + ">"
        return "".join("(" + ",".join(one(a) for a in args) + ")" for args in calls)

    out = []
    for rnd in (1, 2):
        e.CLOCK.reset("poll")
        ctx = e.Context(time_limit=100)
        ctx.set("f", f)
        del got[:]
        try:
            ctx.eval(payload["src"])
            if rnd == 2:
                first = show(got)
                del got[:]
                ctx.eval(payload["src"])         # same statements again on the same context
                out.append("repeat-" + ("same" if show(got) == first else "differs:" + show(got)))
            else:
                out.append(show(got))
        except e._errors.JSError as ex:
            out.append("JSError")
        except Exception as ex:  # noqa: BLE001
            out.append("host " + type(ex).__name__)
    exp = payload.get("exp")
    want = [exp if exp is not None else out[0], "repeat-same"]
    if out[0] in ("JSError",) or out[0].startswith("host"):
        want[0] = exp or "a list of calls"
    return " ".join(out) + "\x00" + " ".join(want)


def _call_form_cases():
    return [("exposed callable via %s: %s" % (n, src), {"src": src, "exp": exp}) for n, src, exp in CALL_FORMS]


# the same host function exposed as different kinds of Python callable; and a callable that keeps returning ONE mutable object
def _callable_kinds():
    from mc.props import c03
    return list(c03.CALLABLE_KINDS)


def run_callable_kind(payload):
    from mc.props.common import engine
    from mc.props import c03
    e = engine()
    e.CLOCK.reset("poll")
    ctx = e.Context(time_limit=100)
    got = []
    ret = payload["ret"]

    def f(*args):
        got.append(args)
        return json.loads(json.dumps(ret))

    exposed = c03._callable_of_kind(payload["kind"], f)
    how = payload["install"]
    obs = []
    try:
        if how == "set":
            ctx.set("f", exposed)
        else:
            ctx.set("api", {"f": exposed, "l": [exposed]})
            ctx.eval("var f = api.f;")
        obs.append(canon(ctx.eval("var r = f(1, 'a'); [Array.isArray(r), typeof r, r === null ? 'null' : Array.isArray(r) ? 'len' + r.length : typeof r === 'object' ? Object.keys(r).join('+') : String(r), "
                                  "JSON.stringify(r), typeof f, f(2) === f(3) || typeof f(2) === 'object']")))
        back = ctx.get("f")
        obs.append("get:" + ("same" if back is exposed else "callable" if callable(back) else type(back).__name__))
        obs.append("calls:%d" % len(got))
    except Exception as ex:  # noqa: BLE001
        obs.append("raises " + type(ex).__name__)
    js = json.dumps(ret, separators=(",", ":"))
    if isinstance(ret, list):
        want0 = [True, "object", "len%d" % len(ret), js, "function", True]
    elif isinstance(ret, dict):
        want0 = [False, "object", "+".join(ret), js, "function", True]
    else:
        want0 = [False, "number", "7", "7", "function", True]
    want = [canon(want0), "get:same", "calls:%d" % (3 if not isinstance(ret, (list, dict)) else 4)]
    return " ".join(obs) + "\x00" + " ".join(want)


def _callable_kind_cases():
    out = []
    for kind in _callable_kinds():
        for how in ("set", "nested"):
            for ret in ([1, [2]], {"a": 1, "b": [2]}, 7, []):
                out.append(("%s exposed by %s returning %r" % (kind, how, ret), {"kind": kind, "install": how, "ret": ret}))
    return out


def run_same_object(payload):
    """A callable that returns the SAME mutable Python object every time: every call hands the script a fresh conversion of its
    current contents."""
    from mc.props.common import engine
    e = engine()
    e.CLOCK.reset("poll")
    ctx = e.Context(time_limit=100)
    holder = [1] if payload["mk"] == "list" else {"a": 1}
    calls = [0]

    def f(*args):
        calls[0] += 1
        if payload["python_mutates"]:
            if isinstance(holder, list):
                holder.append(calls[0])
            else:
                holder["n%d" % calls[0]] = calls[0]
        return holder

    ctx.set("f", f)
    obs, want = [], []
    try:
        for step, src in enumerate(payload["steps"]):
            r = ctx.eval(src)
            obs.append(canon(r))
    except Exception as ex:  # noqa: BLE001
        obs.append("raises " + type(ex).__name__)
    return " | ".join(obs) + "\x00" + " | ".join(payload["want"])


def _same_object_cases():
    L, D = "list", "dict"
    n = lambda x: canon(x)
    return [
        ("list returned twice, script edits the first copy", {"mk": L, "python_mutates": False,
         "steps": ["var a = f(); a.push(9); var b = f(); [a.length, b.length, a === b]"], "want": [n([2, 1, False])]}),
        ("list returned twice across evals, script edits the first copy", {"mk": L, "python_mutates": False,
         "steps": ["var a = f(); a.push(9); a.length", "var b = f(); [a.length, b.length, a === b]"], "want": [n(2), n([2, 1, False])]}),
        ("list that the host appends to on every call", {"mk": L, "python_mutates": True,
         "steps": ["[f().length, f().length, f().length]", "f().length"], "want": [n([2, 3, 4]), n(5)]}),
        ("dict returned twice, script edits the first copy", {"mk": D, "python_mutates": False,
         "steps": ["var a = f(); a.z = 1; var b = f(); [Object.keys(a).length, Object.keys(b).length, a === b]"], "want": [n([2, 1, False])]}),
        ("dict that the host adds a key to on every call", {"mk": D, "python_mutates": True,
         "steps": ["[Object.keys(f()).length, Object.keys(f()).length]", "Object.keys(f()).join()"], "want": [n([2, 3]), n("a,n1,n2,n3")]}),
        ("same list as a callback result", {"mk": L, "python_mutates": True,
         "steps": ["[1, 2].map(f).map(function (x) { return x.length }).join()"], "want": [n("2,3")]}),
    ]


ORDINARY_VALUES = {"list": [1, 2], "nested-list": [[1], [2, [3]]], "dict": {"k": 1}, "dict-of-list": {"k": [1, {"z": []}]}, "list-of-dict": [{"a": 1}, {}],
                   "empty-list": [], "empty-dict": {}}
ORDINARY_PATHS = {"list": ["v"], "nested-list": ["v", "v[0]", "v[1][1]"], "dict": ["v"], "dict-of-list": ["v", "v.k", "v.k[1]", "v.k[1].z"],
                  "list-of-dict": ["v", "v[0]", "v[1]"], "empty-list": ["v"], "empty-dict": ["v"]}
ORDINARY_ARRAY_OBS = ["X instanceof Array", "X instanceof Object", "Array.isArray(X)", "Object.getPrototypeOf(X) === Object.getPrototypeOf([])",
                      "X.constructor === [].constructor", "typeof X.map === 'function'", "X.hasOwnProperty('length')", "typeof X.hasOwnProperty === 'function'",
                      "X.concat([9]).length === X.length + 1", "X.map(function (q) { return q }) instanceof Array",
                      "(function () { Object.getPrototypeOf([]).viaProto = 5; return X.viaProto === 5 })()"]
ORDINARY_OBJECT_OBS = ["X instanceof Object", "!(X instanceof Array)", "Object.getPrototypeOf(X) === Object.getPrototypeOf({})", "X.constructor === ({}).constructor",
                       "typeof X.hasOwnProperty === 'function'", "X.hasOwnProperty('nope') === false", "X.toString() === '[object Object]'", "!Array.isArray(X)",
                       "(function () { Object.getPrototypeOf({}).viaProto = 6; return X.viaProto === 6 })()"]


def run_ordinary(payload):
    """Containers that come from the host are ordinary arrays / objects of the context they arrive in."""
    from mc.props.common import engine
    e = engine()
    e.CLOCK.reset("poll")
    ctx = e.Context(time_limit=100)
    value = ORDINARY_VALUES[payload["value"]]
    how = payload["how"]
    if how == "set":
        ctx.set("v", value)
        pre = ""
    elif how == "returned":
        ctx.set("mk", lambda: value)
        pre = "var v = mk(); "
    elif how == "returned-to-callback":
        ctx.set("mk", lambda *a: value)
        pre = "var v = [0].map(mk)[0]; "
    else:       # nested in a dict handed over with set
        ctx.set("holder", {"inner": value, "fn": (lambda: value)})
        pre = "var v = %s; " % ("holder.inner" if how == "nested" else "holder.fn()")
    bad = []
    for path in ORDINARY_PATHS[payload["value"]]:
        probe = value
        # which kind is the thing at this path?
        kind = "array" if isinstance(eval(path.replace("v", "value", 1).replace(".k", "['k']").replace(".z", "['z']"), {"value": value}), list) else "object"
        for o in (ORDINARY_ARRAY_OBS if kind == "array" else ORDINARY_OBJECT_OBS):
            src = pre + o.replace("X", "(" + path + ")")
            try:
                r = ctx.eval(src)
            except Exception as ex:  # noqa: BLE001
                r = "raises " + type(ex).__name__
            if r is not True:
                bad.append("%s -> %r" % (o.replace("X", path), r))
    return ("ok" if not bad else "; ".join(bad[:4])) + "\x00ok"


def _ordinary_cases():
    return [("%s %s" % (v, how), {"value": v, "how": how}) for v in ORDINARY_VALUES
            for how in ("set", "returned", "returned-to-callback", "nested", "nested-callable")]


BIG_OPS = ["typeof v", "JSON.stringify(v)", "JSON.stringify([v, {a: v}])", "v + 1", "v - 1", "v * 2", "v / 3", "v % 7", "v ** 2", "-v", "+v", "~v", "!v", "v | 0",
           "v & 1", "v ^ 1", "v << 1", "v >> 1", "v >>> 0", "v > 1", "v < v", "v >= v", "v == v", "v === v", "v == '1'", "v != null", "v ? 1 : 2", "v && 1", "v || 1",
           "var w = v; w++; w", "var w = v; --w", "var w = v; w += 1; w", "var w = v; w *= 2; w", "String(v)", "'' + v", "[v].join()", "v.toString()",
           "v.toString(16)", "v.toString(2).length", "v.toFixed(2)", "v.toPrecision(3)", "v.toExponential(2)", "v.valueOf() === v", "isFinite(v)", "isNaN(v)",
           "Number(v) === v", "Number.isInteger(v)", "Number.isFinite(v)", "Number.isNaN(v)", "parseInt(v)", "parseFloat(v)", "Math.abs(v)", "Math.floor(v)",
           "Math.ceil(v)", "Math.round(v)", "Math.trunc(v)", "Math.sign(v)", "Math.sqrt(v)", "Math.cbrt(v)", "Math.log(v)", "Math.log2(v)", "Math.exp(v)",
           "Math.sin(v)", "Math.atan2(v, v)", "Math.pow(v, 2)", "Math.pow(2, v)", "Math.max(v, 1)", "Math.min(v, 1)", "Math.hypot(v, v)", "Math.fround(v)",
           "Math.clz32(v)", "Math.imul(v, 3)", "new Array(v)", "[1, 2, 3].slice(v)", "[1, 2, 3].slice(-v)", "[1, 2, 3].indexOf(1, v)", "[1, 2, 3][v]",
           "'abc'.charAt(v)", "'abc'.slice(v)", "'abc'.substring(0, v)", "'a'.repeat(v)", "'abc'.indexOf('b', v)", "'abc'[v]", "String.fromCharCode(v)",
           "new Uint8Array([v])[0]", "new Float64Array([v])[0]", "new Int32Array(2).subarray(v).length", "(function () { var t = new Uint8Array(2); t[0] = v; return t[0] })()",
           "({})[v] = 1", "var o = {}; o[v] = 1; Object.keys(o)[0].length", "[v, 1].sort()[0] === v", "[3, 1].sort(function () { return v }).length",
           "[v].indexOf(v)", "[v].includes(v)", "JSON.parse(JSON.stringify({a: v})).a", "(5).toFixed(v)", "(5).toString(v)", "new Date === undefined || 1",
           "switch (v) { case v: 1; break; default: 2 }", "for (var i = 0; i < 3 && i < v; i++) { } i", "v in [1, 2]", "void v", "[1, 2].concat(v).length",
           "Array(3).join(v).length > 0", "'x'.padEnd === undefined || 'x'.padEnd(v)", "encodeURIComponent(v).length > 0", "(function (a) { return arguments.length + a })(v) !== 0"]


def run_bigops(payload):
    """A host integer (exactly preserved by set / get) used by the script in every numeric position: the evaluation ends with a value or
    a JSError, never with a host exception, and get() still hands the integer back unchanged afterwards."""
    from mc.props.common import engine
    e = engine()
    e.CLOCK.reset("poll")
    bad = []
    value = eval(payload["expr"], {"__builtins__": {"float": float}})
    for op in BIG_OPS:
        ctx = e.Context(time_limit=100)
        try:
            ctx.set("v", value)
        except Exception as ex:  # noqa: BLE001  (set() itself is part of the boundary: a host error here is an outcome, not a harness failure)
            bad.append("set('v') -> host %s" % type(ex).__name__)
            break
        try:
            ctx.eval(op)
        except e.microjs.JSError:
            pass
        except Exception as ex:  # noqa: BLE001
            bad.append("%s -> host %s" % (op, type(ex).__name__))
        try:
            back = ctx.get("v")
            if not (back == value or (back != back and value != value)):
                bad.append("%s -> get('v') changed" % op)
        except Exception as ex:  # noqa: BLE001
            bad.append("get after %s -> %s" % (op, type(ex).__name__))
    return ("ok" if not bad else "; ".join(bad[:5])) + "\x00ok"


BIG_EXPRS = (["2 ** 53 + 1", "2 ** 53 + 2", "2 ** 63 - 1", "2 ** 64", "2 ** 64 + 1", "2 ** 70", "10 ** 30 + 1", "2 ** 1023", "2 ** 1024", "10 ** 400", "10 ** 4300",
              "2 ** 53", "2 ** 53 - 1", "2 ** 31", "2 ** 32", "10 ** 308", "10 ** 309"])
BIG_EXPRS = BIG_EXPRS + ["-(%s)" % x for x in BIG_EXPRS] + ["0", "-1", "1.5e308", "float('inf')", "float('nan')", "-0.0"]


def _bigops_cases():
    return [("%d operations on the host value %s" % (len(BIG_OPS), x), {"expr": x}) for x in BIG_EXPRS]


def _sp(name, runner, fn, rule, bound, batch=100):
    return Space(name, "mc.props.c11:" + runner, fn, oracle="inline", rule=rule, bound=bound, batch=batch, watchdog=60,
                 nontrivial=lambda cid, p, exp: True)


def _value_cases(depth, width):
    vals = _dedup(_values(depth, width))
    return [("set/get/eval round trip of %s" % (repr(v)[:150]), {"v": v}) for v in vals]


def _literal_cases(depth, width):
    vals = _dedup(_values(depth, width))
    out = []
    for v in vals:
        if isinstance(v, dict) and any(str(k) in ("__proto__",) for k in v):
            continue
        src = js_literal(v)
        out.append(("script result " + src[:150], {"src": src, "exp": canon(v)}))
    for src, exp in SPECIAL_RESULTS:
        out.append(("script result " + src, {"src": src, "exp": exp}))
    return out


def spaces(tier, seed, all_strata=False):
    core = [
        _sp("c11_roundtrip_d2", "run_roundtrip", lambda: _value_cases(2, 2),
            "every JSON-like Python value of depth <= 2, width <= 2 over 17 leaves (None, bools, ints at 2^31/2^53, "
            "fractions, -0.0, NaN, infinities, empty/astral/__proto__ strings) and 7 key kinds: set then get, eval(name), "
            "and freshness of both directions", "depth 2 width 2"),
        _sp("c11_literals_d2", "run_literal", lambda: _literal_cases(2, 2),
            "the same value space written as JS literals plus 21 special script results (undefined, accessors, inherited "
            "properties, shared sub-arrays, arguments)", "depth 2 width 2"),
        _sp("c11_callable", "run_callable", lambda: _callable_cases(2),
            "all argument vectors of length <= 2 over 12 JS values to an exposed callable (order and value of what it "
            "receives); 14 Python return kinds observed by the script; 5 mentions without a call", "vectors <= 2"),
        _sp("c11_bigint", "run_roundtrip", _bigint_cases,
            "%d integers beyond 2^53 (2^53+1 ... 2^64+1, 10^30+1, 2^1024, 10^400) as a leaf, in a list, in a dict, nested and "
            "repeated: set then get, eval(name), freshness" % len(BIG_INTS), "13 x 5"),
        _sp("c11_bigint_callable", "run_callable", _bigint_callable_cases,
            "the same integers returned by an exposed callable (bare, in a list, in a dict) and handed straight back to it", "13 x 3"),
        _sp("c11_bigint_ops", "run_bigops", _bigops_cases,
            "the same integers (both signs) and 12 further boundary numbers used in %d numeric positions (every operator, comparison, update, "
            "conversion, Number / Math function, number formatting, index and count arguments of string / array / typed-array built-ins, "
            "property keys, JSON): a value or a JSError, never a host exception, and get() returns the integer unchanged" % len(BIG_OPS),
            "%d values x %d" % (len(BIG_EXPRS), len(BIG_OPS)), batch=2),
        _sp("c11_call_forms", "run_call_forms", _call_form_cases,
            "one exposed callable reached through %d call forms (plain, call, apply, bind with 0/1/2 partial arguments, bind chains, "
            "two bound copies, method, callbacks of built-ins, new, stored and called later, getter, valueOf, comparator, replace "
            "callback), each run twice on one context: argument tuples as listed, and identical on the second round" % len(CALL_FORMS),
            "%d forms x 2 rounds" % len(CALL_FORMS), batch=4),
        _sp("c11_callable_kinds", "run_callable_kind", _callable_kind_cases,
            "one host function exposed as 10 kinds of Python callable (plain, lambda, partial, functools.wraps, lru_cache, bound method, "
            "callable instance, static / class method, closure) x installed by set or nested in a dict x 4 return kinds: the script gets "
            "arrays / objects / numbers, the callable is a function, get() hands the same callable back", "10 x 2 x 4", batch=10),
        _sp("c11_same_object", "run_same_object", _same_object_cases,
            "a callable that returns one and the same mutable Python object on every call (changed by the host, or its copy changed by "
            "the script, in between): every call delivers a fresh conversion of the current contents", "6 scenarios", batch=2),
        _sp("c11_ordinary", "run_ordinary", _ordinary_cases,
            "7 host containers (lists, dicts, nested both ways, empty) x 5 ways of arriving (set, returned by a callable, returned to a "
            "built-in's callback, nested in a dict, returned by a callable nested in a dict) x every container inside them x %d / %d "
            "tests that it is an ordinary array / object of the context (instanceof, prototype identity, constructor, inherited methods, "
            "hasOwnProperty, a property added to the prototype shows)" % (len(ORDINARY_ARRAY_OBS), len(ORDINARY_OBJECT_OBS)), "7 x 5 x paths", batch=5),
        _sp("c11_chains", "run_roundtrip", _chains, "nesting chains of depth 10..2000, shared sub-objects, non-JSON host values",
            "depth sweep", batch=2),
        _sp("c11_histories_d4", "run_history", lambda: _histories(4),
            "all histories up to depth 4 over 9 operations (set x/y, eval assign, alias y=x inside the context, mutate through "
            "either name, mutate a structure returned by get) against a dict model, observing get(x), get(y), eval(x) after every step",
            "depth 4"),
    ]
    strata = [
        _sp("c11_roundtrip_d3", "run_roundtrip", lambda: _value_cases(3, 2), "depth 3 values (sub-sampled inner level)", "depth 3"),
        _sp("c11_callable_3", "run_callable", lambda: _callable_cases(3), "argument vectors of length <= 3", "vectors <= 3"),
        _sp("c11_histories_d5", "run_history", lambda: _histories(5), "all histories up to depth 5", "depth 5"),
    ]
    if tier == "thorough" or all_strata:
        return core + strata
    return core + [strata[seed % 2]]


def signature(sp, cid, payload, exp, obs):
    if sp.name.startswith("c11_chains"):
        return "chain|" + cid.split(" ")[0] + "|" + obs[:30], cid + ": " + obs[:80]
    if sp.name.startswith("c11_callable"):
        kind = "returns" if "returns" in cid else ("mention" if "mentioned" in cid else "receives")
        return "callable|" + kind, "exposed callable %s: %s" % (kind, cid[:80])
    if sp.name.startswith("c11_hist"):
        return "history", "set/eval/get history diverges from the dict model: " + cid[:100]
    how = "host error" if "host" in obs or "raises" in obs else "value changed"
    first = obs.split(" ")[0][:40]
    return sp.name.split("_")[1] + "|" + how, "%s: %s (e.g. %s)" % (sp.name, how, first)
