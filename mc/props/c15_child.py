"""Child interpreter for C15: evaluates a list of programs under the hash seed it was started with.
argv[1] = path of a JSON file {"programs": [...], "mode": "plain"|"orders"|"warm", "clock0": float}
Prints one JSON document: {"outcomes": [...], "orders": [...]}.
"""
import itertools
import json
import os
import sys

HERE = os.path.dirname(os.path.dirname(os.path.dirname(os.path.abspath(__file__))))
sys.path.insert(0, HERE)
from mc.core import engine as e  # noqa: E402


def slot_orders(src):
    """The local / cell / free variable orders the compiler chose (what the hash seed can perturb)."""
    from microjs.parser import Parser
    from microjs.compiler import Compiler, CompiledFunction
    out = []
    try:
        cf = Compiler().compile(Parser(src).parse())
    except Exception:  # noqa: BLE001
        return out

    def walk(f):
        out.append([list(getattr(f, "locals", []) or []), list(getattr(f, "cell_vars", []) or []),
                    list(getattr(f, "free_vars", []) or [])])
        for c in f.constants:
            if isinstance(c, CompiledFunction):
                walk(c)
    walk(cf)
    return out


KEEP = []        # contexts of the warm-up evaluations stay alive, so that whatever they leaked cannot be recycled by the allocator


def run(src, clock0=0.0, tl=50, keep=False):
    if keep:
        oc, ctx = e.run_program(src, tl=tl, want_ctx=True)
        KEEP.append(ctx)
        return oc
    oc = e.run_program(src, tl=tl)
    return oc


def main():
    job = json.load(open(sys.argv[1]))
    progs = job["programs"]
    mode = job.get("mode", "plain")
    res = {"outcomes": [], "orders": []}
    if mode == "plain":
        for p in progs:
            res["outcomes"].append(run(p))
            res["orders"].append(slot_orders(p))
    elif mode == "orders":
        # every permutation of every 4-program batch drawn from the pool, all in this one process
        pool = progs
        base = {p: run(p) for p in pool}
        bad = []
        n = 0
        for batch in itertools.combinations(range(len(pool)), 4):
            if (sum(batch) % job.get("stride", 1)) != 0:
                continue
            for perm in itertools.permutations(batch):
                for i in perm:
                    n += 1
                    if run(pool[i]) != base[pool[i]]:
                        bad.append([list(perm), i])
        res["outcomes"] = ["evaluations=%d differing=%d %s" % (n, len(bad), json.dumps(bad[:3]))]
    elif mode == "warm":
        cold = [run(p) for p in progs]
        FAILING = [
            "var dj = []; for (var i = 0; i < 400; i++) { dj = [dj] } '' + dj",
            "var dj = []; for (var i = 0; i < 400; i++) { dj = [dj] } dj.join('-')",
            "var c = {}; c.c = c; JSON.stringify(c)",
            "var a = [1]; a.push(a); JSON.stringify(a)",
            "var a = [[1, 2], [3]]; a[0].push(a); '' + a",
            "while (true) { }",
            "try { while (true) { } } finally { }",
            "(function r() { return 1 + r() })()",
            "[1].forEach(function () { throw new Error('x') })",
            "[3, 1, 2].sort(function () { throw 1 })",
            "var o = {get x() { throw 2 }}; o.x",
            "null.x", "undefinedName", "(", "var = 1", "JSON.parse('{')", "new RegExp('(')", "/(a+)+$/.test('aaaaaaaaaaaaaaaaaaaaaaaaaaaaaaaab')",
            "'abc'.repeat(-1)", "new Array(-1)", "(1).toFixed(200)", "Object.setPrototypeOf({}, 5)", "new (function () { throw 3 })()",
            "[1, 2, 3].reduce(function () { throw 4 })", "'a'.replace(/a/, function () { throw 5 })", "(1, eval)('throw 6')",
            "new Function('return (')", "var s = 'a'; for (var i = 0; i < 30; i++) { s = s + s } s.length", "[].reduce(function () {})",
        ]
        for k in range(job.get("warmups", 1000)):
            run("var w%d = %d; (function () { var a = w%d, b = a + 1; return function () { return a + b } })()()" % (k % 7, k, k % 7))
            if k % 10 == 0:
                run(FAILING[(k // 10) % len(FAILING)], keep=True)
        # every way of failing, often enough to cross any small internal capacity (depth budgets, caches, pools)
        for f in FAILING:
            if "s + s" in f:
                continue        # allocates up to the string cap every time: once (above) is enough
            for _ in range(job.get("repeat_failing", 110)):
                run(f, tl=(3 if "while (true)" in f else 50), keep=True)
        e.CLOCK.now = 123456.0
        warm = [run(p) for p in progs]
        res["outcomes"] = ["same" if a == b else "differs: %s vs %s" % (a[:80], b[:80]) for a, b in zip(cold, warm)]
    elif mode == "cross":
        cold = [run(p) for p in progs]
        out = []
        for mi, m in enumerate(job.get("mutators", [])):
            run(m, tl=500, keep=True)
            for i, p in enumerate(progs):
                oc = run(p)
                if oc != cold[i]:
                    out.append("observer #%d differs after mutator #%d: %s vs %s | %s" % (i, mi, cold[i][:80], oc[:80], m[:80]))
        rep = job.get("repeated", [])
        if rep:
            first = [run(p) for p in rep]
            for k in range(3000):
                run("function w%d(a) { function inner%d() { return a } return inner%d() } if (w%d(1)) { function blk%d() { } }" % (k, k, k, k, k))
            for i, p in enumerate(rep):
                for k in range(job.get("repeat", 100)):
                    oc = run(p)
                    if oc != first[i]:
                        out.append("evaluation #%d of a repeated program differs: %s vs %s | %s" % (k, first[i][:60], oc[:60], p[:80]))
                        break
        res["outcomes"] = out or ["same"]
    print(json.dumps(res))


if __name__ == "__main__":
    main()
