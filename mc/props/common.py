"""Helpers shared by property drivers (worker-side runners and parent-side helpers)."""

_engine = None


def engine():
    global _engine
    if _engine is None:
        from mc.core import engine as e
        _engine = e
    return _engine


def run_src(payload):
    """Generic runner: payload is a source string, or {'src', 'tl'?, 'ml'?, 'globals'?}."""
    e = engine()
    if isinstance(payload, str):
        return e.run_program(payload)
    g = payload.get("globals")
    setup = None
    if g:
        def setup(ctx):
            for k, v in g.items():
                ctx._globals[k] = float(v) if isinstance(v, str) else v
    return e.run_program(payload["src"], tl=payload.get("tl", e.DEFAULT_TL), ml=payload.get("ml"), setup=setup)


def tail(outcome):
    return outcome.rpartition("|")[2]


def mismatch_kind(exp, obs):
    """Coarse description of how an observed outcome differs from the expected one."""
    te, to = tail(exp), tail(obs)
    if to.startswith("Ehost"):
        return "host exception " + to[1:]
    if to in ("Etime", "Ememory"):
        return "runs into the " + to[1:] + " limit"
    if te.startswith("E") != to.startswith("E"):
        return ("throws (%s) where a value is specified" % to[1:]) if to.startswith("E") else (
            "returns a value where %s is specified" % te[1:])
    if te.startswith("E"):
        if te != to:
            return "wrong error class %s for %s" % (to[1:], te[1:])
        return "log differs"
    if te == to:
        return "log differs"
    a, b = te[1:2], to[1:2]
    if b == "I":
        return "host integer that is not a double"
    if b == "X":
        return "host object leaks"
    if a != b:
        return "wrong type (%s for %s)" % (b, a)
    if a == "d":
        if te[2:] == "7ff8000000000000":
            return "number where NaN is specified"
        if to[2:] == "7ff8000000000000":
            return "NaN where a number is specified"
        if {te[2:], to[2:]} == {"0000000000000000", "8000000000000000"}:
            return "wrong sign of zero"
        if te[2:5] in ("7ff", "fff") and te[5:] == "0000000000000":
            return "finite number where Infinity is specified"
        return "wrong number"
    return "wrong value"
