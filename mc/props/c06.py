"""C06  Operators and conversions on primitive values follow ECMAScript.

E1: exhaustive operand grid x operators x target forms x number representation.
Oracle: V8 expected-outcome tables (tables/c06_*.json.gz), typed and bit-exact.
"""
from mc.core.runner import Space
from .common import mismatch_kind

PROP = "C06"
LEVEL = "exploration"
ASSUMPTIONS = [
    "expected outcomes were computed at build time by V8 (node 20, strict mode) for exactly the enumerated "
    "case ids and are pinned by SHA-256 of the case list",
    "operands outside the 80-value grid and expression trees deeper than 2 are not explored",
]
RUN = "mc.props.common:run_src"

NUMS = ["NaN", "0", "-0", "1", "-1", "2", "-2", "3", "7", "0.5", "-0.5", "1.5", "-1.5", "2.5", "0.1", "31", "32", "33",
        "255", "65536", "2147483647", "2147483648", "-2147483648", "-2147483649", "4294967295", "4294967296",
        "4294967297", "9007199254740991", "9007199254740992", "-9007199254740992", "123456789.125", "1e21",
        "1e-7", "1e300", "-1e300", "1.7976931348623157e308", "5e-324", "Infinity", "-Infinity", "1024"]
STRS = ['""', '" "', '"0"', '"-0"', '"1"', '"-1"', '"1.5"', '" 12 "', '"0x10"', '"0b11"', '"0o17"', '"1e3"',
        '"1e1000"', '"-1e1000"', '"Infinity"', '"-Infinity"', '"+5"', '"abc"', '"a"', '"b"', '"1a"', '"NaN"',
        '"true"', '"null"', '"undefined"', '"1_0"', '".5"', '"5."', '"\\n"', '"\\u0661"', '"12abc"', '"A"',
        '"10"', '"9"', '"-"', '"0x"', '"9007199254740993"', '"-9007199254740993"', '"12345678901234567890"',
        '"0000000000000000000000000000000000000000007"', '"1234567890123456"']
OTHERS = ["true", "false", "null", "undefined"]
GRID = NUMS + STRS + OTHERS

BINOPS = ["+", "-", "*", "/", "%", "**", "&", "|", "^", "<<", ">>", ">>>", "<", "<=", ">", ">=", "==", "!=",
          "===", "!==", "&&", "||", ","]
UNOPS = ["-", "+", "!", "~", "typeof ", "void "]
ASSIGNOPS = ["+=", "-=", "*=", "/=", "%=", "**=", "<<=", ">>=", ">>>=", "&=", "|=", "^="]

SUB24 = ["NaN", "0", "-0", "1", "-1", "0.5", "1.5", "31", "32", "2147483647", "2147483648", "-2147483648",
         "4294967295", "4294967296", "9007199254740991", "9007199254740992", "1e21", "1e300", "5e-324",
         "Infinity", "-Infinity", "3", "7", "-2"]
SUB24_MIXED = SUB24[:14] + ['""', '"1"', '"abc"', '" 12 "', '"0x10"', "true", "false", "null", "undefined", '"1e3"']
TREE12 = ["NaN", "0", "-0", "1", "-1", "2147483647", "9007199254740992", "0.5", '"1"', '"a"', "true", "undefined"]
TREEOPS = ["+", "-", "*", "/", "%", ">>", "&", "|", ">>>", "<<", "<", "==", "===", "&&"]


def P(lit):
    """Parenthesise literals that start with a sign so that every operator context is well formed."""
    return "(" + lit + ")" if lit.startswith("-") else lit


def _simple(lit):
    return lit in ("1", "2", "3", "7", "31", "32", "33", "255", "1024", "65536")


def nontrivial(cid, payload, exp):
    # at least one operand is not a small positive integer literal
    return True if payload is None else payload.get("nt", True)


def binary_cases(vals_a, vals_b, ops, float_rep=False):
    out = []
    for op in ops:
        for a in vals_a:
            for b in vals_b:
                nt = not (_simple(a) and _simple(b))
                if float_rep:
                    if a not in NUMS and b not in NUMS:
                        continue
                    g = {}
                    ea, eb = P(a), P(b)
                    if a in NUMS:
                        g["a"], ea = a, "a"
                    if b in NUMS:
                        g["b"], eb = b, "b"
                    src = "%s %s %s" % (ea, op, eb)
                    cid = "float[%s] %s" % (",".join("%s=%s" % kv for kv in sorted(g.items())), src)
                    out.append((cid, {"src": src, "globals": g, "nt": nt}))
                else:
                    src = "%s %s %s" % (P(a), op, P(b))
                    out.append((src, {"src": src, "nt": nt}))
    return out


def unary_cases(float_rep=False):
    out = []
    for op in UNOPS:
        for a in GRID:
            if float_rep:
                if a not in NUMS:
                    continue
                out.append(("float[a=%s] %sa" % (a, op), {"src": "%sa" % op, "globals": {"a": a}}))
            else:
                out.append(("%s%s" % (op, P(a)), None))
    for a in GRID:
        if float_rep:
            if a in NUMS:
                out.append(("float[a=%s] a ? 1 : 2" % a, {"src": "a ? 1 : 2", "globals": {"a": a}}))
        else:
            out.append(("%s ? 1 : 2" % P(a), None))
            out.append(("var r = 0; if (%s) { r = 1 } else { r = 2 } r" % a, None))
            out.append(("var n = 0; while (%s) { n++; if (n > 2) break } n" % a, None))
    return out


TARGETS = {
    "global": "var x = {A}; var r = ({T} {OP} {B}); __out(r); x",
    "local": "(function () { var x = {A}; var r = ({T} {OP} {B}); __out(r); return x })()",
    "captured": "(function () { var x = {A}; var f = function () { var r = ({T} {OP} {B}); __out(r) }; f(); return x })()",
    "member": "var o = {p: {A}}; var r = ({T} {OP} {B}); __out(r); o.p",
    "element": "var a = [{A}]; var i = 0; var r = ({T} {OP} {B}); __out(r); a[0]",
    "computed": "var o = {p: {A}}; var k = \"p\"; var r = ({T} {OP} {B}); __out(r); o.p",
}
TARGET_EXPR = {"global": "x", "local": "x", "captured": "x", "member": "o.p", "element": "a[i]", "computed": "o[k]"}


def compound_cases(vals_a, vals_b):
    out = []
    for tname, tmpl in TARGETS.items():
        for op in ASSIGNOPS + ["="]:
            for a in vals_a:
                for b in vals_b:
                    src = tmpl.replace("{A}", a).replace("{T}", TARGET_EXPR[tname]).replace("{OP}", op).replace("{B}", P(b))
                    out.append((src, None))
    return out


def update_cases():
    out = []
    for tname, tmpl in TARGETS.items():
        t = TARGET_EXPR[tname]
        for form in ("++{T}", "{T}++", "--{T}", "{T}--"):
            for a in GRID:
                e = form.replace("{T}", t)
                src = tmpl.replace("{A}", a).replace("({T} {OP} {B})", "(" + e + ")")
                out.append((src, None))
    return out


# further kinds of assignment target (each has its own load/store path in the compiler) x every compound / update form
TARGETS2 = {
    "cell-owner": ("x", "(function () { var x = {A}; var g = function () { return x }; var r = ({E}); __out(r); return [x, g()] })()"),
    "param": ("x", "(function (x) { var r = ({E}); __out(r); return x })({A})"),
    "param-captured": ("x", "(function (x) { var g = function () { return x }; var r = ({E}); __out(r); return [x, g()] })({A})"),
    "closure-2-levels": ("x", "(function () { var x = {A}; return (function () { return (function () { var r = ({E}); __out(r); return x })() })() })()"),
    "arrow-captured": ("x", "(function () { var x = {A}; var f = () => { var r = ({E}); __out(r) }; f(); return x })()"),
    "catch-variable": ("x", "var res; try { throw {A} } catch (x) { var r = ({E}); __out(r); res = x } res"),
    "catch-variable-captured": ("x", "var res; try { throw {A} } catch (x) { var g = function () { return x }; var r = ({E}); __out(r); res = [x, g()] } res"),
    "for-variable": ("x", "for (var x = {A}, n = 0; n < 1; n++) { var r = ({E}); __out(r) } x"),
    "arguments-element": ("arguments[0]", "(function () { var r = ({E}); __out(r); return arguments[0] })({A})"),
    "typed-array-element": ("t[0]", "var t = new Float64Array(1); t[0] = {A}; var r = ({E}); __out(r); t[0]"),
    "int-typed-array-element": ("t[0]", "var t = new Int8Array(1); t[0] = {A}; var r = ({E}); __out(r); t[0]"),
    "nested-member": ("o.q.p", "var o = {q: {p: {A}}}; var r = ({E}); __out(r); o.q.p"),
    "this-member": ("this.p", "var o = {p: {A}, m: function () { var r = ({E}); __out(r) }}; o.m(); o.p"),
    "accessor": ("o.p", "var store = {A}; var o = {get p() { __out('get'); return store }, set p(v) { __out('set'); store = v }}; var r = ({E}); __out(r); store"),
    "inherited-member": ("o.p", "var proto = {p: {A}}; var o = Object.create(proto); var r = ({E}); __out(r); [o.p, proto.p]"),
    "call-result-member": ("f().p", "var o = {p: {A}}, calls = 0; function f() { calls++; return o } var r = ({E}); __out(r); [o.p, calls]"),
    "computed-side-effect": ("o[k()]", "var o = {p: {A}}, calls = 0; function k() { calls++; return 'p' } var r = ({E}); __out(r); [o.p, calls]"),
}
TARGET2_VALUES = ['"5"', "true", "null", "undefined", "1.5", '"a"', "NaN", "-0", "9007199254740992", "7",
                  "({valueOf: function () { return 4 }})", "[3]"]


def target2_cases():
    out = []
    for tname, (t, tmpl) in TARGETS2.items():
        forms = [("%s %s %s" % (t, op, b)) for op in ASSIGNOPS + ["="] for b in ("2", '"1"', "undefined")]
        forms += ["++" + t, t + "++", "--" + t, t + "--", "-" + t, "typeof " + t, "(" + t + ", 1)"]
        for e in forms:
            for a in TARGET2_VALUES:
                src = tmpl.replace("{A}", a).replace("{E}", e)
                out.append(("T2|%s|%s|%s" % (tname, e, a), {"src": src, "tl": 50, "target": tname, "expr": e}))
    return out


def tree_cases(shape):
    out = []
    for o1 in TREEOPS:
        for o2 in TREEOPS:
            for a in TREE12:
                for b in TREE12:
                    for c in TREE12:
                        if shape == "L":
                            src = "(%s %s %s) %s %s" % (P(a), o1, P(b), o2, P(c))
                        else:
                            src = "%s %s (%s %s %s)" % (P(a), o1, P(b), o2, P(c))
                        out.append((src, None))
    return out


def agree(exp, obs, cid):
    return exp == obs


def agree_pow(exp, obs, cid):
    """`**` is implementation-approximated in ECMA-262: V8 and the host libm may differ in the last
    place, so a numeric result within 2 ulp of the table is accepted for the `**` spaces only."""
    if exp == obs:
        return True
    if "**" not in cid:
        return False
    le, _, te = exp.rpartition("|")
    lo, _, to = obs.rpartition("|")

    def close(a, b):
        if a == b:
            return True
        if not (a[:1] == "d" and b[:1] == "d" and len(a) == 17 and len(b) == 17):
            return False
        x, y = int(a[1:], 16), int(b[1:], 16)
        if (x >> 52) & 0x7FF == 0x7FF or (y >> 52) & 0x7FF == 0x7FF:
            return False
        return (x >> 63) == (y >> 63) and abs(x - y) <= 2
    if te[:1] != "R" or to[:1] != "R" or not close(te[1:], to[1:]):
        return False
    a, b = le.split(";"), lo.split(";")
    return len(a) == len(b) and all(close(p, q) for p, q in zip(a, b))


def _space(name, cases, rule, bound):
    """`cases` is a zero-argument callable so that only the selected spaces are enumerated."""
    return Space(name, RUN, cases, oracle="table", nontrivial=nontrivial, rule=rule, bound=bound, batch=400,
                 agree=agree_pow if ("binary" in name or "compound" in name) else agree)


def agree_for_space(name):
    return agree_pow if ("binary" in name or "compound" in name) else agree


def core_spaces():
    return [
        _space("c06_binary_literal", lambda: binary_cases(GRID, GRID, BINOPS),
               "full %dx%d operand grid x %d binary operators, operands as source literals; non-trivial = not both "
               "operands small positive integer literals" % (len(GRID), len(GRID), len(BINOPS)),
               "grid %d^2 x %d ops" % (len(GRID), len(BINOPS))),
        _space("c06_unary_literal", lambda: unary_cases(), "6 unary operators, ?:, if, while over the full grid", "grid x 9 forms"),
        _space("c06_binary_float24", lambda: binary_cases(SUB24_MIXED, SUB24_MIXED, BINOPS, float_rep=True),
               "24x24 boundary subgrid with every number operand injected as a host float global", "24^2 x 23 ops"),
        _space("c06_unary_float", lambda: unary_cases(float_rep=True), "unary operators on host-float operands", "40 x 7"),
        _space("c06_compound24", lambda: compound_cases(SUB24_MIXED, SUB24_MIXED[:12] + ['"1"', '"a"', "true", "undefined"]),
               "12 compound assignments and plain = on 6 target forms (global, local, captured, o.p, a[i], o[k]); "
               "logs the value of the assignment expression and returns the target afterwards", "6 x 13 x 24 x 16"),
        _space("c06_update", lambda: update_cases(), "++x x++ --x x-- on 6 target forms over the full grid", "6 x 4 x grid"),
        _space("c06_targets2_compound", target2_cases,
               "%d further target kinds (variable captured by an inner function and used by its owner, parameter, two closure levels, "
               "arrow, catch variable, for variable, implicit global, arguments element, typed-array elements, nested / this / "
               "inherited member, accessor pair, call-result and side-effecting computed key) x {13 assignment operators x 3 right "
               "operands, 4 update forms, unary minus, typeof, comma} x %d initial values: value of the expression, final value of the "
               "target, and how often sub-expressions ran" % (len(TARGETS2), len(TARGET2_VALUES)),
               "%d x 46 x %d" % (len(TARGETS2), len(TARGET2_VALUES))),
    ]


def thorough_strata():
    st = []
    for k in range(0, len(BINOPS), 6):
        ops = BINOPS[k:k + 6]
        st.append(_space("c06_binary_float_full_%d" % (k // 6), lambda ops=ops: binary_cases(GRID, GRID, ops, float_rep=True),
                         "full grid, host-float representation, operators %s" % " ".join(ops), "grid^2 x ops"))
    for shape in ("L", "R"):
        st.append(_space("c06_tree_%s" % shape, lambda shape=shape: tree_cases(shape),
                         "all depth-2 expression trees (%s-nested) over 12 values x 14 operators" % shape,
                         "12^3 x 14^2"))
    st.append(_space("c06_compound_full", lambda: compound_cases(GRID[::2], SUB24_MIXED[::2]),
                     "compound assignment, wider operand grid", "6 x 13 x 40 x 12"))
    return st


def spaces(tier, seed, all_strata=False):
    core = core_spaces()
    strata = thorough_strata()
    if tier == "thorough" or all_strata:
        return core + strata
    # quick: the core plus one seed-selected stratum (always inside the thorough space)
    small = [s for s in strata if not s.name.startswith("c06_tree")]
    return core + [small[seed % len(small)]]


def signature(sp, cid, payload, exp, obs):
    src = payload["src"] if isinstance(payload, dict) else cid
    if sp.name.startswith("c06_targets2"):
        e = payload["expr"]
        op = "?"
        for a in sorted(ASSIGNOPS + ["++", "--", "typeof", "="], key=len, reverse=True):
            if a in e:
                op = a
                break
        kind = mismatch_kind(exp, obs)
        return "target2|%s|%s|%s" % (payload["target"], op, kind), "%s on a %s target: %s" % (op, payload["target"], kind)
    form = sp.name.split("_")[1].rstrip("0123456789")
    op = "?"
    if form in ("binary", "tree"):
        toks = src.split(" ")
        op = toks[1] if form == "binary" and len(toks) >= 3 else "tree"
    elif form == "unary":
        for u in UNOPS:
            if src.startswith(u):
                op = u.strip()
                break
        else:
            op = "?:" if "?" in src else ("if" if src.startswith("var r") else "while")
    elif form in ("compound", "update"):
        for a in sorted(ASSIGNOPS + ["++", "--"], key=len, reverse=True):
            if a in src:
                op = a
                break
        tgt = [t for t, tm in TARGETS.items() if src.startswith(tm.split("{A}")[0])]
        op += " on " + (tgt[0] if tgt else "?")
    kind = mismatch_kind(exp, obs)
    rep = "float-held operand" if "float" in sp.name else "literal operand"
    key = "%s|%s|%s" % (form, op, kind)
    return key, "%s operator %s: %s" % (form, op, kind)


def node_src(cid, payload):
    if isinstance(payload, dict) and payload.get("globals"):
        decl = "".join("var %s = (%s); " % (k, v) for k, v in sorted(payload["globals"].items()))
        return decl + payload["src"]
    return payload["src"] if isinstance(payload, dict) else cid
