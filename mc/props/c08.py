"""C08  Objects, prototypes, functions and `this` behave as specified.

Explicit-state breadth-first exploration of operation histories over a small object graph
(three object variables, two constructors, one array). Every history is executed on the REAL
engine on a fresh Context; after a transition one observation vector of 144 primitive probes is
logged and compared with the vector V8 produced for the same history (expected-outcome tables).

  c08_hist_d2            all histories of length <= 2 over the full alphabet; the initial state and the
                         state after EVERY statement are observed
  c08_hist_core_d3       all length-3 histories over the 20-statement core alphabet   } only the state after the
  c08_hist_full_d3_<j>   all other length-3 histories over the full alphabet          } LAST statement is observed:
  c08_hist_core_d4_<j>   all length-4 histories over a 10-statement kernel            } every proper prefix is a case
                                                                                        of its own (prefix-closed set)
  c08_call               call form x function kind x probe (full product) + native functions
"""
import collections

from mc.core.runner import Space
from mc.core import store
from mc.gen import objhist as G
from .common import mismatch_kind

PROP = "C08"
LEVEL = "model_checking"
ASSUMPTIONS = [
    "the reference is V8 (node 20, strict mode): expected observation vectors were computed at build time for exactly "
    "the enumerated histories and are pinned by SHA-256 of the case list",
    "a state is identified with its reference observation vector (143 probes: reads, in, hasOwnProperty, descriptor "
    "kind, keys/for-in/entries order, prototype identity, instanceof, constructor, method this, fresh instances of "
    "both constructors); two reference states that no probe distinguishes are merged in the state count only, "
    "never in the exploration (every history is executed in full on a fresh Context)",
    "histories of length >= 3 log only the observation after their last statement; their proper prefixes are "
    "explored as separate cases (depth <= 2: every step observed), so every (history prefix, observation) pair is "
    "compared exactly once",
    "documented restrictions are respected: for-in is compared on own keys only, every defined property is "
    "writable/enumerable/configurable, no integer-like keys",
    "histories longer than 3 (full alphabet) / 4 (core alphabet) are not explored",
]
RUN = "mc.props.c08:run_case"
TL = 30

# kernel alphabet of the depth-4 exploration (subset of the core, so every prefix is in c08_hist_core_d3)
CORE4 = [
    "o1 = {a: 1, get b(){ return this.a }, set b(v){ this.c = v }}",
    "o2 = Object.create(o1)",
    "o2 = new F1()",
    "o3 = new F2()",
    "o2.b = 8",
    "delete o1.a",
    "Object.setPrototypeOf(o3, o2)",
    "F1.prototype = o1",
    "F2.prototype = Object.create(F1.prototype)",
    "Object.assign(o3, o1)",
]
assert all(s in G.CORE for s in CORE4)
N_FULL3 = 22
NAMES = G.probe_names()


# ------------------------------------------------------------------ worker side
def run_case(payload):
    from .common import engine
    return engine().run_program(_src(payload), tl=payload.get("tl", TL))


def _src(payload):
    if "src" in payload:
        return payload["src"]
    return G.program(tuple(payload["h"]), payload["every"])


def node_src(cid, payload):
    return _src(payload)


# ------------------------------------------------------------------ spaces
def _hist_cases(histories, every):
    return [(G.case_id(h), {"h": list(h), "every": every}) for h in histories]


def _full3(j):
    core = set(G.CORE)
    out = []
    for i, a in enumerate(G.FULL):
        if i % N_FULL3 != j:
            continue
        for b in G.FULL:
            for c in G.FULL:
                if a in core and b in core and c in core:
                    continue
                out.append((a, b, c))
    return out


def _core4(j):
    a = CORE4[j]
    return [(a,) + h for h in G.product(CORE4, 3)]


_REF = {}


def _ref():
    """case id of a history of length <= 3 (core) / <= 2 (full) -> reference state (observation vector without the
    statement result) after its last statement. Used for the non-triviality rule and the state count."""
    if _REF:
        return _REF
    for name, cases in (("c08_hist_d2", _hist_cases(G.upto(G.FULL, 2), True)),
                        ("c08_hist_core_d3", _hist_cases(G.product(G.CORE, 3), False))):
        exp = store.load_table(name, [c[0] for c in cases])
        for (cid, _), e in zip(cases, exp):
            log = e.rpartition("|")[0]
            last = log.rpartition(";")[2]
            _REF[cid] = last.partition(",")[2]
    return _REF


def nontrivial_hist(cid, payload, exp):
    """A history is non-trivial iff its last statement changes the reference state (the observation vector
    after it differs from the one before it) or throws."""
    h = payload["h"]
    if not h:
        return True
    log = exp.rpartition("|")[0]
    last = log.rpartition(";")[2]
    res, _, state = last.partition(",")
    if "throw:" in res:
        return True
    if payload["every"]:
        prev = log.rpartition(";")[0].rpartition(";")[2].partition(",")[2]
    else:
        prev = _ref().get(G.case_id(tuple(h[:-1])))
    return prev != state


def nontrivial_call(cid, payload, exp):
    # the probe observes something the call form or the function kind can influence
    return payload["probe"] not in ("function_length", "function_name", "prototype_property", "typeof") or \
        payload["form"] in ("plain", "bind", "bind_partial")


RULE_D2 = ("all %d histories of length <= 2 over the %d-statement alphabet (create by literal / accessor literal / "
           "__proto__ literal / Object.create / new, set with identifier, string and computed keys through data, own "
           "setter and inherited setter, delete, defineProperty, setPrototypeOf incl. cycles, F.prototype = obj, "
           "F.prototype.k = v, Object.assign, aliasing); initial state and every successor state observed with %d "
           "probes; non-trivial = the last statement changes the reference observation vector or throws"
           % (1 + len(G.FULL) + len(G.FULL) ** 2, len(G.FULL), G.N_PROBES))


def hist_space(name, cases, rule, bound):
    return Space(name, RUN, cases, oracle="table", nontrivial=nontrivial_hist, agree=agree, rule=rule, bound=bound,
                 batch=60)


# ------------------------------------------------------------------ chain x property-kind product, bind chains
KINDS3 = ["absent", "data", "getter", "setter", "getset"]


def _define(obj, kind, tag):
    if kind == "absent":
        return ""
    if kind == "data":
        return "Object.defineProperty(%s, 'x', {value: '%s', writable: true, enumerable: true, configurable: true}); " % (obj, tag)
    parts = []
    if kind in ("getter", "getset"):
        parts.append("get: function () { L.push('get%s:' + (this === bot ? 'bot' : this === mid ? 'mid' : this === top ? 'top' : '?')); return 'g%s' }" % (tag, tag))
    if kind in ("setter", "getset"):
        parts.append("set: function (v) { L.push('set%s:' + v + ':' + (this === bot ? 'bot' : this === mid ? 'mid' : this === top ? 'top' : '?')) }" % tag)
    return "Object.defineProperty(%s, 'x', {%s, enumerable: true, configurable: true}); " % (obj, ", ".join(parts))


CHAIN_OPS = {
    "read": "r = bot.x;",
    "write": "try { bot.x = 'w'; r = 'ok' } catch (e) { r = 'throw:' + e.name }",
    "write-mid": "try { mid.x = 'w'; r = 'ok' } catch (e) { r = 'throw:' + e.name }",
    "delete": "r = delete bot.x;",
    "in": "r = ('x' in bot) + '/' + ('x' in mid);",
    "compound": "try { bot.x += '!'; r = 'ok' } catch (e) { r = 'throw:' + e.name }",
    "method-call": "try { r = typeof bot.x === 'function' ? 'fn' : String(bot.x) } catch (e) { r = 'throw:' + e.name }",
}


def chain_cases():
    out = []
    for kt in KINDS3:
        for km in KINDS3:
            for kb in KINDS3:
                for opn, op in CHAIN_OPS.items():
                    src = ("var L = [], r; var top = {}, mid = Object.create(top), bot = Object.create(mid); " +
                           _define("top", kt, "T") + _define("mid", km, "M") + _define("bot", kb, "B") + op +
                           " __out(L.join()); __out(String(r)); __out([Object.prototype.hasOwnProperty.call(bot, 'x'), "
                           "Object.prototype.hasOwnProperty.call(mid, 'x'), Object.prototype.hasOwnProperty.call(top, 'x')].join()); "
                           "L = []; var after = [bot.x, mid.x, top.x].join(); __out(after); L.join()")
                    out.append(("chain top=%s mid=%s bot=%s op=%s :: %s" % (kt, km, kb, opn, src), {"src": src, "tl": TL}))
    return out


def bind_cases():
    out = []
    fn = "function f(a, b, c) { return [this === A ? 'A' : this === B ? 'B' : this === undefined ? 'u' : typeof this, a, b, c, arguments.length].join() }"
    binds = ["f", "f.bind(A)", "f.bind(A, 1)", "f.bind(A, 1, 2)", "f.bind(A).bind(B)", "f.bind(A, 1).bind(B, 2)", "f.bind(A, 1).bind(B)",
             "f.bind(A).bind(B, 2)", "f.bind(A, 1).bind(B, 2).bind(A, 3)", "f.bind(null, 1)", "f.bind(undefined).bind(A, 9)", "f.bind(5, 1)"]
    calls = ["g()", "g(7)", "g(7, 8)", "g.call(B, 7)", "g.apply(B, [7, 8])", "({m: g}).m(7)", "[7].map(g)[0]", "new g(7) instanceof f",
             "g.length", "typeof g.name", "g.bind(B, 5)(6)"]
    for b in binds:
        for c in calls:
            src = "var A = {n: 'A'}, B = {n: 'B'}; %s var g = %s; var r; try { r = %s } catch (e) { r = 'throw:' + e.name } String(r)" % (fn, b, c)
            out.append(("bind %s then %s :: %s" % (b, c, src), {"src": src, "tl": TL}))
    return out


# object-literal definition forms; keys are forced to collide (x by identifier, string, computed constant, computed variable,
# shorthand, method, getter, setter; y as a second key; __proto__ both as prototype setter and as computed own key)
LIT_FORMS = {
    "ident": "x: 'i'", "string": "'x': 's'", "computed-const": "['x']: 'cc'", "computed-var": "[kx]: 'cv'", "computed-expr": "['' + kx]: 'ce'",
    "shorthand": "x", "method": "x() { return 'm' }", "computed-method": "[kx]() { return 'cm' }", "getter": "get x() { L.push('get'); return 'g' }",
    "setter": "set x(v) { L.push('set:' + v) }", "computed-getter": "get [kx]() { L.push('cget'); return 'cg' }",
    "y-ident": "y: 'yi'", "y-computed": "[ky]: 'yc'", "y-same-var": "[kx + '']: 'x2', y: kx", "proto": "__proto__: P",
    "proto-computed": "['__proto__']: 'own'", "keyword-key": "if: 'kw', new: 'kw2'", "get-as-name": "get: 'plain-get', set: 'plain-set'",
}


def literal_cases():
    import itertools
    out = []
    names = list(LIT_FORMS)
    combos = [(a,) for a in names] + list(itertools.product(names, repeat=2))
    # triples: only those that define x at least twice (the collisions), to keep the space small
    xs = [n for n in names if not n.startswith("y-") and n not in ("proto", "proto-computed", "keyword-key", "get-as-name")]
    combos += [c for c in itertools.product(names, repeat=3) if sum(1 for n in c if n in xs) >= 2 and c[0] in xs]
    for c in combos:
        if c.count("proto") > 1:
            continue        # duplicate __proto__ is an early error in V8 and of no interest here
        lit = "{" + ", ".join(LIT_FORMS[n] for n in c) + "}"
        src = ("var L = [], P = {inh: 'P'}, kx = 'x', ky = 'y', x = 'sh'; var o = " + lit + "; var r = [];\n"
               "r.push(Object.keys(o).join('+')); var v = o.x; r.push(typeof v == 'function' ? 'fn:' + v.call(o) : String(v)); "
               "r.push(String(o.y)); r.push(Object.getPrototypeOf(o) === P ? 'P' : Object.getPrototypeOf(o) === Object.prototype ? 'O' : '?'); "
               "r.push(String(o.inh)); r.push(Object.prototype.hasOwnProperty.call(o, '__proto__')); r.push(String(o['if']) + String(o.get)); "
               "try { o.x = 'w'; r.push('w=' + String(o.x)) } catch (e) { r.push('wthrow:' + e.name) } r.push(L.join('/')); r.join()")
        out.append(("literal " + " , ".join(c) + " :: " + src, {"src": src, "tl": TL}))
    return out


BUILTIN_OBJECTS = ["Object", "Array", "String", "Number", "Boolean", "Function", "RegExp", "Math", "JSON", "Uint8Array", "Int32Array",
                   "Float64Array", "ArrayBuffer", "Object.prototype", "Error.prototype", "TypeError.prototype", "(function () { }).prototype",
                   "[1, 2]", "'ab'", "/a/g", "new Error('m')", "new Uint8Array(2)", "(function () { return arguments })(1, 2)",
                   "new String('ab')", "Object.create(null)", "5", "true"]
# (the Error constructors carry V8's own `stackTraceLimit`; functions and Number objects cannot hold properties in this engine - documented)


def _desc(name, full=False):
    return ("var d = Object.getOwnPropertyDescriptor(B, '%s');" % name,
            "d ? [d.enumerable, %stypeof d.value].join() : 'none'" % ("d.writable, d.configurable, " if full else ""))


BUILTIN_OBS = [
    ("", "Object.keys(B).join()"), ("var ks = []; for (var k in B) { ks.push(k) }", "ks.join()"), ("", "Object.values(B).length"),
    ("", "Object.entries(B).length"), ("", "Object.keys(Object.assign({}, B)).join()"), ("", "JSON.stringify(B)"),
    ("var t = {t: 1}; Object.assign(t, B);", "Object.keys(t).sort().join()"), ("", "JSON.stringify([B])"),
]


def builtin_enum_cases():
    out = []
    for b in BUILTIN_OBJECTS:
        for setup, expr in BUILTIN_OBS:
            src = "var B = %s; var r; try { r = (function () { %s return %s })() } catch (e) { r = 'throw:' + e.name } r" % (b, setup, expr)
            out.append(("E|" + src, {"src": src}))
    return out


API_RECV = ["{}", "{a: 1, b: 2}", "Object.create({inh: 1})", "Object.create(null)", "{get g() { return 7 }, set g(v) { this.s = v }}",
            "(function () { var o = {a: 1}; Object.defineProperty(o, 'h', {value: 2, enumerable: false, writable: true, configurable: true}); return o })()"]
API_KEYS = ["'a'", "'g'", "'h'", "'inh'", "'0'", "'1'", "'-0'", "'01'", "'length'", "'zz'", "0", "1.5", "undefined", "null", "{toString: function () { return 'a' }}"]
API_DESCS = ["{value: 1}", "{value: 1, writable: true, enumerable: true, configurable: true}", "{get: function () { return 'G' }}",
             "{get: function () { return 'G' }, enumerable: true}", "{set: function (v) { this.sv = v }}", "{}", "{enumerable: false}",
             "{value: undefined}", "5", "null", "undefined", "{get: 1}", "{value: 1, get: function () { }}"]
API_OBS = ("[(function (d) { return d ? [d.enumerable, 'value' in d, typeof d.get, typeof d.set, d.value].join() : 'none' })(Object.getOwnPropertyDescriptor(o, K)), o[K], K in o, o.hasOwnProperty(K), Object.keys(o).sort().join(), "
           "Object.values(o).length, o.length, typeof o.inh].join('|')")      # key order of integer-like keys, for-in over the chain, writable / configurable attributes: documented


def object_api_cases():
    out = []

    def add(src):
        src = "var r; try { r = (function () { %s })() } catch (e) { r = 'throw:' + e.name } r" % src
        out.append(("A|" + src, {"src": src}))
    for rv in API_RECV:
        for k in API_KEYS:
            add("var o = %s; var K = %s; return %s" % (rv, k, API_OBS))
            add("var o = %s; var K = %s; var d = delete o[K]; return d + '|' + %s" % (rv, k, API_OBS))
            add("var o = %s; var K = %s; o[K] = 'w'; return %s" % (rv, k, API_OBS))
            for d in API_DESCS:
                add("var o = %s; var K = %s; var res = Object.defineProperty(o, K, %s); return (res === o) + '|' + %s" % (rv, k, d, API_OBS))
        for k in API_KEYS[:6]:
            for d in API_DESCS[:6]:
                add("var o = %s; var K = %s; var P = {}; P[K] = %s; P.second = {value: 2, enumerable: true}; Object.defineProperties(o, P); return o.second + '|' + %s" % (rv, k, d, API_OBS))
                add("var K = %s; var P = {}; P[K] = %s; var o = Object.create(%s, P); return %s" % (k, d, rv, API_OBS))
        for src2 in ("{a: 9, z: 8}", "[7]", "'xy'", "null", "undefined", "5", "{get a() { return 'ga' }}", "Object.create({inh2: 1})"):
            add("var o = %s; var K = 'a'; var res = Object.assign(o, %s, {last: 1}); return (res === o) + '|' + %s" % (rv, src2, API_OBS))
        for proto in ("null", "{p: 1}", "5", "undefined", "o"):
            add("var o = %s; var K = 'p'; var res = Object.setPrototypeOf(o, %s); return (res === o) + '|' + (Object.getPrototypeOf(o) === null) + '|' + %s" % (rv, proto, API_OBS))
    return out


APPLY_ARGS = ["[1, 2]", "[]", "undefined", "null", "", "{length: 2, 0: 'a', 1: 'b'}", "{length: '2', 0: 'a', 1: 'b'}", "{length: 1.9, 0: 'a'}",
              "{length: -1, 0: 'a'}", "{length: NaN}", "{0: 'a'}", "{}", "new Uint8Array([7, 8])", "(function () { return arguments })(3, 4)",
              "'ab'", "5", "true", "[[1, 2]]", "[undefined, 2]", "{length: 2, get 0() { return 'g0' }, 1: 'b'}", "/a/", "function (a, b) { }",
              "Object.create({length: 1, 0: 'inherited'})", "new Array(3)", "{length: 2, 1: 'only-second'}"]
APPLY_FNS = ["function (a, b) { return [this === T, arguments.length, a, b] }", "(a, b) => [a, b]", "Math.max", "String.fromCharCode",
             "function () { return [].slice.call(arguments) }", "(function (a, b) { return [this.t, a, b] }).bind({t: 'bound'}, 'pre')"]


def apply_cases():
    out = []
    for f in APPLY_FNS:
        for a in APPLY_ARGS:
            for form in ("F.apply(T%s)",):       # (Function.prototype carries no methods in this engine: absent feature)
                src = "var T = {t: 1}; var F = %s; var r; try { r = %s } catch (e) { r = 'throw:' + e.name } r" % (f, form % (", " + a if a else ""))
                out.append(("P|" + src, {"src": src}))
    return out


PRODUCERS = [
    "[1, 2]", "[]", "[[1]][0]", "new Array(2)", "Array(1, 2)", "[1].map(function (x) { return x })", "[1].filter(function () { return true })",
    "[1, 2].slice(1)", "[1].concat([2])", "[1, 2, 3].splice(0, 1)", "[3, 1].sort()", "[3, 1].reverse()", "'a,b'.split(',')", "'ab'.split('')",
    "'abc'.match(/b/)", "'abab'.match(/b/g)", "/b/.exec('abc')", "JSON.parse('[1]')", "JSON.parse('[[1]]')[0]", "JSON.parse('{\"a\":[]}').a",
    "Object.keys({a: 1})", "Object.values({a: 1})", "Object.entries({a: 1})", "Object.entries({a: 1})[0]", "(function () { return [].slice.call(arguments) })(1)",
    "{}", "{a: 1}", "new Object()", "Object()", "Object({q: 1})", "Object.create({})", "Object.create(null)", "Object.assign({}, {a: 1})", "JSON.parse('{}')",
    "JSON.parse('{\"a\":{}}').a", "JSON.parse('[{}]')[0]", "Object.getOwnPropertyDescriptor({a: 1}, 'a')", "(function () { return arguments })(1)",
    "new Error('m')", "new TypeError('m')", "(function () { try { null.x } catch (e) { return e } })()", "Error.prototype", "Object.prototype",
    "/a/", "new RegExp('a')", "new Uint8Array(1)", "new Float64Array(1).subarray(0)", "new Uint8Array(1).buffer", "new ArrayBuffer(2)",
    "function () { }", "(function () { return function () { } })()", "() => 1", "Math.abs", "[].push", "(function () { }).bind(null)", "Math", "JSON",
    "new (function F() { this.a = 1 })()", "'str'", "5", "true", "null", "undefined",
]
PROVENANCE_OBS = ["X instanceof Array", "X instanceof Object", "X instanceof Error", "X instanceof RegExp", "X instanceof Function", "X instanceof Uint8Array",
                  "X instanceof ArrayBuffer", "X instanceof TypeError", "Array.isArray(X)", "Object.getPrototypeOf(X) === Object.getPrototypeOf([])",
                  "Object.getPrototypeOf(X) === Object.getPrototypeOf({})",        # (regexes, typed arrays, functions have no prototype OBJECT here: documented)
                  "(function () { Object.getPrototypeOf({}).viaProto = 6; return X.viaProto })()", "typeof X",
                  "X === null || X === undefined || typeof X !== 'object' && typeof X !== 'function' ? 'primitive' : Object(X) === X"]


def provenance_cases():
    out = []
    linked = PRODUCERS[:PRODUCERS.index("/a/")]          # regexes, typed arrays, buffers, functions, primitives, arguments: no prototype object (documented)
    for pr in PRODUCERS:
        for o in PROVENANCE_OBS:
            if ("viaProto" in o or "getPrototypeOf" in o) and (pr not in linked or "arguments })" in pr and "slice" not in pr):
                continue
            src = "var r; try { r = (function () { var X = %s; return %s })() } catch (e) { r = 'throw:' + e.name } r" % (pr, o.replace("X", "X"))
            out.append(("V|" + src, {"src": src}))
    return out


def core_spaces():
    return [
        Space("c08_provenance", RUN, provenance_cases, oracle="table", batch=200, bound="%d x %d" % (len(PRODUCERS), len(PROVENANCE_OBS)),
              rule="%d ways of obtaining a value (literals, constructors, every array- or object-returning built-in, nested results of "
                   "JSON.parse, match / exec results, descriptors, errors thrown by the engine, regexes, typed arrays, buffers, functions of "
                   "every kind, primitives) x %d questions about the chain (instanceof 8 constructors, isArray, prototype identity, a property "
                   "added to Object.prototype shows, typeof)" % (len(PRODUCERS), len(PROVENANCE_OBS))),
        Space("c08_apply_args", RUN, apply_cases, oracle="table", batch=100, bound="%d x %d" % (len(APPLY_FNS), len(APPLY_ARGS)),
              rule="apply with %d kinds of argument list (arrays, nothing, array-likes with odd lengths, typed arrays, arguments objects, "
                   "primitives, inherited and accessor elements) on %d kinds of function (declaration, arrow, built-ins, bound)" % (
                       len(APPLY_ARGS), len(APPLY_FNS))),
        Space("c08_object_api", RUN, object_api_cases, oracle="table", batch=200, bound="%d x %d x %d" % (len(API_RECV), len(API_KEYS), len(API_DESCS)),
              rule="%d receivers (plain, array, inheriting, null-prototype, accessor pair, hidden member) x %d keys (names, canonical and "
                   "non-canonical index strings, numbers, undefined / null, an object) x {observe, delete, assign, defineProperty with %d "
                   "descriptors, defineProperties, Object.create with descriptors, Object.assign from 8 sources, setPrototypeOf to 5 targets}: "
                   "afterwards the descriptor, read, `in`, hasOwnProperty, the set of keys, the number of values and length are compared" % (
                       len(API_RECV), len(API_KEYS), len(API_DESCS))),
        Space("c08_builtin_enum", RUN, builtin_enum_cases, oracle="table", batch=100, bound="%d x %d" % (len(BUILTIN_OBJECTS), len(BUILTIN_OBS)),
              rule="%d built-in constructors, namespaces, prototypes and instances of every kind x %d observations (keys, for-in, values, "
                   "entries, assign into a fresh and into an existing object, stringify alone and as an element): which members are "
                   "enumerable" % (
                       len(BUILTIN_OBJECTS), len(BUILTIN_OBS))),
        hist_space("c08_hist_d2", lambda: _hist_cases(G.upto(G.FULL, 2), True), RULE_D2, "depth <= 2, |A| = %d" % len(G.FULL)),
        hist_space("c08_hist_core_d3", lambda: _hist_cases(G.product(G.CORE, 3), False),
                   "all length-3 histories over the %d-statement core alphabet; the state after the last statement is "
                   "observed (prefixes are cases of c08_hist_d2)" % len(G.CORE), "depth 3, |A| = %d" % len(G.CORE)),
        Space("c08_chain", RUN, chain_cases, oracle="table", batch=60, bound="5^3 x 7",
              rule="three-object prototype chain x property kind per level {absent, data, getter only, setter only, getter+setter} "
                   "(125 chains) x {read, write on the lowest / middle object, delete, in, compound assignment, use}: which accessor "
                   "ran with which receiver, the result, own-property pattern afterwards and the three reads afterwards"),
        Space("c08_bind", RUN, bind_cases, oracle="table", batch=60, bound="12 x 11",
              rule="12 bind chains (none, single, double, triple, with partial arguments at each level, primitive this) x 11 call "
                   "forms (plain, with arguments, call, apply, as method, as callback, new, length, name, bound again)"),
        Space("c08_literal", RUN, literal_cases, oracle="table", batch=100, bound="18 + 18^2 + colliding triples",
              rule="object literals made of 1-3 definitions from %d forms (identifier, string, computed constant / variable / expression key, "
                   "shorthand, method, computed method, getter, setter, computed getter, second key, __proto__ as prototype and as computed "
                   "own key, keyword and get/set as plain names); all singles and pairs, and the triples that define x at least twice: "
                   "key order, which definition wins, prototype, accessor calls, a write afterwards" % len(LIT_FORMS)),
        Space("c08_call", RUN, lambda: G.call_cases() + G.native_cases(), oracle="table", nontrivial=nontrivial_call,
              agree=agree, batch=60, bound="%d forms x %d kinds x %d probes + natives" % (
                  len(G.CALL_FORMS), len(G.FUNCTION_KINDS), len(G.CALL_PROBES)),
              rule="full product call form {f() o.f() o[\"f\"]() call apply bind bind+call bind+partial new callback "
                   "getter setter} x function kind {declaration, expression, named expression, arrow at top level / in "
                   "method / in constructor, method shorthand, bound} x probe {this identity, this for primitive "
                   "thisArg, arguments.length, arguments[i], parameters, length, name, prototype, object / primitive "
                   "return; for `new`: instanceof and prototype link}, plus 4 native functions x 9 forms x 4 probes; "
                   "non-trivial = the probe can depend on the call form"),
    ]


def strata():
    st = []
    for j in range(N_FULL3):
        st.append(hist_space("c08_hist_full_d3_%d" % j, lambda j=j: _hist_cases(_full3(j), False),
                             "length-3 histories over the full alphabet whose first statement has index = %d mod %d "
                             "(minus the all-core ones); last state observed" % (j, N_FULL3),
                             "depth 3, |A| = %d" % len(G.FULL)))
    for j in range(len(CORE4)):
        st.append(hist_space("c08_hist_core_d4_%d" % j, lambda j=j: _hist_cases(_core4(j), False),
                             "length-4 histories over the %d-statement kernel starting with `%s`; last state observed"
                             % (len(CORE4), CORE4[j][:40]), "depth 4, |A| = %d" % len(CORE4)))
    return st


def spaces(tier, seed, all_strata=False):
    core = core_spaces()
    st = strata()
    if tier == "thorough" or all_strata:
        return core + st
    return core + [st[seed % len(st)]]


# ------------------------------------------------------------------ diagnosis
POS = [("", "result", "")]
for _o in ("o1", "o2", "o3"):
    for _k in G.KEYS:
        POS += [(_o, "read", _k), (_o, "in", _k), (_o, "hop", _k), (_o, "gopd", _k)]
    POS += [(_o, x, "") for x in ("keys", "forin", "entries", "proto", "instF1", "instF2", "ctor", "typeofhop", "mthis")]
POS += [("", x, "") for x in ("F1p", "F2p", "protoF1p", "protoF2p", "F1pctor", "nF1proto", "nF1instF1", "nF1instF2",
                               "nF1a", "nF1k", "nF1f", "nF1m", "nF1keys", "nF2proto", "nF2instF1", "nF2k", "nF2m",
                               "nF2g", "arra", "arrkeys")]
assert len(POS) == G.N_PROBES == len(NAMES)
IDX = {p: i for i, p in enumerate(POS)}

# root-cause classes, in attribution priority (a history is filed under the first class it witnesses)
CLASSES = collections.OrderedDict([
    ("host", "a host (Python) exception or limit escapes instead of a JavaScript outcome"),
    ("cycle", "Object.setPrototypeOf accepts a cyclic prototype chain (TypeError specified); later lookups recurse "
              "without bound (host RecursionError)"),
    ("fproto_assign", "assignment `F.prototype = obj` is ignored: F.prototype, `new F` and instanceof keep using the "
                      "original prototype object"),
    ("getter_shadow", "an inherited getter wins over an own data property of the receiver (getters are searched along "
                      "the whole chain before own properties)"),
    ("getter_only_assign", "assignment to an accessor property without setter does not throw TypeError (strict mode) "
                           "and creates a data property beside the getter"),
    ("define_over", "Object.defineProperty does not replace an existing property of the other kind (data and accessor "
                    "tables are separate, the stale entry survives and shows in entries/values/delete)"),
    ("delete_acc", "`delete` does not remove accessor properties"),
    ("assign_acc", "Object.assign skips accessor properties of the source and bypasses setters of the target"),
    ("delete_missing", "`delete` of a property that does not exist evaluates to false (true specified)"),
    ("in_acc", "`in` is false for an own accessor property"),
    ("in_chain", "`in` ignores the prototype chain (own data properties only)"),
    ("enum_acc", "Object.keys / entries / for-in omit own accessor properties"),
    ("enum_order", "enumeration order of own keys differs"),
    ("null_proto", "objects without prototype (Object.create(null), setPrototypeOf(o, null)) still answer "
                   "`hasOwnProperty` / `toString` lookups with a function"),
    ("array_proto", "array literals are not linked to Array.prototype (getPrototypeOf([]) is null)"),
    ("base_proto", "the `prototype` object of a function does not inherit from Object.prototype "
                   "(getPrototypeOf(F.prototype) is null)"),
    ("other", "other difference"),
])
UPSTREAM = ("fproto_assign", "cycle", "getter_only_assign", "define_over", "delete_acc", "assign_acc", "getter_shadow")
OP_CLASS = [
    ("prototype =", "fproto_assign"),
    ("Object.assign", "assign_acc"),
    ("Object.defineProperty", "define_over"),
    ("delete o", "delete_acc"),
]


def _keys(tok):
    return tok[2:-1].split(".") if tok.startswith('s"') and len(tok) > 3 else []


def _target(op):
    """(object variable, key) a statement writes to / deletes from, when that is evident from its text."""
    for o in ("o1", "o2", "o3"):
        for pre in ("delete " + o, o):
            if op.startswith(pre + ".") and len(op) > len(pre) + 1:
                return o, op[len(pre) + 1]
            if op.startswith(pre + "[k]"):
                return o, "a"
            if op.startswith(pre + '["'):
                return o, op[len(pre) + 2]
    return None, None


def witness(h, step_ops, ve, vo):
    """-> dict class -> (step, pos) of its first witness; '_down' collects differences that have no local
    explanation (they are consequences of an earlier transition)."""
    found = {}

    def add(c, s, j):
        if c not in found:
            found[c] = (s, j)

    for s, (e, o) in enumerate(zip(ve, vo)):
        if len(e) != len(o) or len(e) != G.N_PROBES:
            add("other", s, 0)
            continue
        op = step_ops[s]
        for j in range(G.N_PROBES):
            if e[j] == o[j]:
                continue
            obj, kind, key = POS[j]
            if kind in ("protoF1p", "protoF2p") and e[j] == 's"+OP"' and o[j] == 's"null"':
                add("base_proto", s, j)
            elif kind in ("F1p", "F2p", "F1pctor", "nF1proto", "nF2proto") or (
                    kind == "result" and "prototype =" in op):
                add("fproto_assign", s, j)
            elif kind == "result":
                tobj, tkey = _target(op)
                if "setPrototypeOf" in op and "throw:TypeError" in e[j]:
                    add("cycle", s, j)
                elif op.startswith("delete") and e[j] == "t" and o[j] == "f":
                    if tobj and o[IDX[(tobj, "gopd", tkey)]] == 's"acc"' and e[IDX[(tobj, "gopd", tkey)]] == 's"none"':
                        add("delete_acc", s, j)
                    else:
                        add("delete_missing", s, j)
                elif "throw:TypeError" in e[j] and "throw:" not in o[j] and tobj:
                    add("getter_only_assign", s, j)
                else:
                    add("_down", s, j)
            elif kind == "typeofhop":
                add("null_proto", s, j)
            elif kind in ("arra", "arrkeys") or "+AP" in e[j] or "+arr" in e[j]:
                add("array_proto", s, j)
            elif kind == "in" and e[j] == "t" and o[j] == "f":
                if e[IDX[(obj, "gopd", key)]] == 's"acc"':
                    add("in_acc", s, j)
                elif o[IDX[(obj, "read", key)]] != "u" or e[IDX[(obj, "read", key)]] == "u":
                    # the engine itself finds the property through the chain (or it is an inherited
                    # property whose value is undefined): `in` contradicts the engine's own read
                    add("in_chain", s, j)
                else:
                    add("_down", s, j)
            elif kind == "read" and e[IDX[(obj, "gopd", key)]] == 's"data"' and o[IDX[(obj, "gopd", key)]] == 's"data"' \
                    and e[IDX[(obj, "entries", "")]] == o[IDX[(obj, "entries", "")]]:
                # both sides hold the same own data property, yet the engine reads something else
                add("getter_shadow", s, j)
            elif kind in ("keys", "forin", "entries"):
                ke, ko = _keys(e[j]), _keys(o[j])
                ne, no = ke, ko
                if kind == "entries":
                    ne, no = [x.partition("=")[0] for x in ke], [x.partition("=")[0] for x in ko]
                missing = [x for x in ne if x not in no]
                extra = [x for x in no if x not in ne]
                if missing and not extra and all(x in G.KEYS and e[IDX[(obj, "gopd", x)]] == 's"acc"' for x in missing):
                    add("enum_acc", s, j)
                elif not missing and not extra and ne != no:
                    add("enum_order", s, j)
                elif not missing and not extra and kind == "entries" and all(
                        a == b or e[IDX[(obj, "gopd", a.partition("=")[0])]] == 's"acc"' for a, b in zip(ke, ko)
                        if a.partition("=")[0] in G.KEYS):
                    # same keys, the value of an accessor property differs: entries reads a stale data slot
                    add("define_over", s, j)
                else:
                    add("_down", s, j)
            else:
                add("_down", s, j)
    return found


def diagnose(h, every, exp, obs):
    """-> (primary class, first differing (step, pos), set of classes witnessed)."""
    ve, te = G.vectors(exp)
    vo, to = G.vectors(obs)
    ops = (["(initial state)"] + list(h)) if every else [h[-1]]
    if te != to or len(ve) != len(vo):
        if to == "Ehost:RecursionError" and any("setPrototypeOf" in x or "__proto__" in x for x in h):
            return "cycle", (len(vo), 0), {"cycle"}
        return "host", (len(vo), 0), {"host"}
    found = witness(h, ops, ve, vo)
    first = min(found.values()) if found else (0, 0)
    classes = set(found)
    if "_down" in classes:
        classes.discard("_down")
        s, j = found["_down"]
        if not any(c in found and found[c][0] <= s for c in UPSTREAM):
            # no witnessed upstream defect explains it: attribute it to the kind of statement in the history
            c = "other"
            for pat, cl in OP_CLASS:
                if any(pat in op for op in (h if not every else h[:max(s, 1)])):
                    c = cl
                    break
            classes.add(c)
    for c in CLASSES:
        if c in classes:
            return c, first, classes
    return "other", first, classes


# statistics collected by agree() in the parent process while a check runs
DIAG = {"first_probe": collections.Counter(), "primary": collections.Counter(), "witnessed": collections.Counter(),
        "first_kind": collections.Counter(), "call": collections.Counter(), "n": 0}


_PRIM_PROTO = ("F1.prototype = 5", 'F2.prototype = "str"')
_WRITES_THROUGH_PROTO = ("F1.prototype.k = 5", "F2.prototype.a = 7")


def _strict_write_to_primitive(exp, obs, cid):
    """`F.prototype = 5; F.prototype.k = 5`: the second statement writes a property of a primitive. V8 (strict code, as the tables
    are computed) throws a TypeError there, the engine ignores the write as sloppy code does - the engine does not implement
    strict mode, a documented difference outside this property. Only the value of that one statement may differ."""
    if not any(p in cid for p in _PRIM_PROTO) or not any(w in cid for w in _WRITES_THROUGH_PROTO):
        return False
    h = cid.split(G.SEP)
    E, O = exp.split(";"), obs.split(";")
    if len(E) != len(O) or exp.rpartition("|")[2] != obs.rpartition("|")[2]:
        return False
    steps = len(E) - len(h)          # the observation before the first statement (0 or 1 entries)
    for k, (a, b) in enumerate(zip(E, O)):
        if a == b:
            continue
        j = k - steps
        if not (0 <= j < len(h)) or h[j] not in _WRITES_THROUGH_PROTO:
            return False
        ea, ob = a.split(","), b.split(",")
        if len(ea) != len(ob) or ea[1:] != ob[1:] or "throw:TypeError" not in ea[0]:
            return False
    return True


def agree(exp, obs, cid):
    if exp == obs:
        return True
    if _strict_write_to_primitive(exp, obs, cid):
        return True
    try:
        _record(exp, obs, cid)
    except Exception:  # diagnosis must never influence the verdict
        DIAG["primary"]["(diagnosis failed)"] += 1
    return False


def agree_for_space(name):
    return lambda exp, obs, cid: exp == obs or _strict_write_to_primitive(exp, obs, cid)


def _record(exp, obs, cid):
    DIAG["n"] += 1
    if cid.startswith("call form="):
        DIAG["call"][cid.split(" probe=")[1]] += 1
        return
    h = () if cid == G.EMPTY else tuple(cid.split(G.SEP))
    every = exp.count(";") > 0 or not h
    c, (s, j), classes = diagnose(h, every, exp, obs)
    DIAG["primary"][c] += 1
    for x in classes:
        DIAG["witnessed"][x] += 1
    if c not in ("host", "cycle") or j:
        DIAG["first_probe"][NAMES[j]] += 1
        DIAG["first_kind"][POS[j][1]] += 1
    else:
        DIAG["first_probe"]["(program aborted: %s)" % obs.rpartition("|")[2]] += 1


def signature(sp, cid, payload, exp, obs):
    if sp.name == "c08_chain":
        parts = cid.split(" :: ")[0].split(" ")
        return "chain|" + parts[-1], "prototype chain with accessors, %s: %s" % (parts[-1], mismatch_kind(exp, obs))
    if sp.name == "c08_bind":
        call = cid.split(" :: ")[0].split(" then ")[1]
        return "bind|" + call, "bound function used as `%s`: %s" % (call, mismatch_kind(exp, obs))
    if sp.name == "c08_literal":
        forms = cid.split(" :: ")[0][len("literal "):].split(" , ")
        e, o = exp.rpartition("|")[2], obs.rpartition("|")[2]
        fields = ["key order", "value of x", "value of y", "prototype", "inherited read", "own __proto__", "keyword / get-set names",
                  "write afterwards", "accessor log"]
        if e.startswith("Rs") and o.startswith("Rs"):
            ef, of = e[3:-1].split(","), o[3:-1].split(",")
            bad = [fields[i] for i in range(min(len(ef), len(of), len(fields))) if ef[i] != of[i]] or ["shape"]
            what = "wrong " + " + ".join(bad)
        else:
            what = mismatch_kind(exp, obs)
        culprit = sorted(set(forms) & {"proto", "proto-computed", "computed-getter", "computed-method", "getter", "setter", "keyword-key",
                                       "get-as-name", "shorthand", "computed-var", "computed-expr", "computed-const"}) or ["plain"]
        return "literal|%s|%s" % ("+".join(culprit), what), "object literal with %s definitions: %s" % (" + ".join(culprit), what)
    if sp.name == "c08_call":
        return call_signature(payload, exp, obs)
    h = tuple(payload["h"])
    c, (s, j), classes = diagnose(h, payload["every"], exp, obs)
    what = CLASSES[c]
    if c == "host":
        what += ": " + mismatch_kind(exp, obs)
    return "hist|" + c, "object histories: " + what


KIND_CLASS = {"declaration": "ordinary function", "expression": "ordinary function",
              "named_expression": "ordinary function", "method_shorthand": "method shorthand",
              "arrow_top_level": "arrow function", "arrow_in_method": "arrow function",
              "arrow_in_constructor": "arrow function", "bound": "bound function",
              "arrow_in_arrow_in_method": "arrow function", "arrow_in_arrow_in_arrow_in_function": "arrow function",
              "arrow_in_callback_in_method": "arrow function", "getter_returning_arrow": "arrow function"}


CALL_TEXT = {
    ("this", "arrow function"): "arrow function does not capture `this` lexically (this comes from the call form: "
                                "receiver, call/apply/bind argument or undefined)",
    ("arguments", "arrow function"): "arrow function gets an `arguments` object of its own instead of seeing the "
                                     "enclosing function's (ReferenceError at top level)",
    ("prototype_property", "arrow function"): "arrow function has a `prototype` object",
    ("prototype_property", "method shorthand"): "method-shorthand function has a `prototype` object",
    ("construct", "arrow function"): "`new` on an arrow function constructs an object (TypeError specified)",
    ("construct", "method shorthand"): "`new` on a method-shorthand function constructs an object (TypeError specified)",
    ("construct", "bound function"): "`new` on a bound function uses the bound this / does not link the instance to "
                                     "the target's prototype",
    ("function_name", "bound function"): "name of a bound function is not \"bound <target name>\"",
    ("function_name", "ordinary function"): "function name is wrong (anonymous function expression assigned to a "
                                            "variable gets no name; f.bind(..).name lacks the `bound ` prefix)",
    ("function_name", "arrow function"): "function name is wrong (arrow assigned to a variable gets no name; "
                                         "bind lacks the `bound ` prefix)",
    ("function_name", "method shorthand"): "name of a method-shorthand function / of its bound copy is wrong",
    ("function_length", "native function"): "native functions have no `length`",
    ("function_name", "native function"): "native functions have no `name`",
    ("effect", "native function"): "native method read from an object stays bound to that object: call / apply / "
                                   "bind / a different receiver do not change its this",
    ("this", "bound function"): "binding a bound function again replaces its this (the first binding must win)",
}


def call_signature(payload, exp, obs):
    kind, form, probe = payload["kind"], payload["form"], payload["probe"]
    kc = "native function" if kind.startswith("native:") else KIND_CLASS[kind]
    te, to = exp.rpartition("|")[2], obs.rpartition("|")[2]
    if te != to:
        return "call|host|" + kc, "call forms: %s: %s" % (kc, mismatch_kind(exp, obs))
    pc = {"this_identity": "this", "this_primitive": "this", "arguments_length": "arguments",
          "arguments_values": "arguments", "typeof": "effect"}.get(probe, probe)
    if form == "new" and kc != "native function" and pc not in ("function_name", "function_length", "prototype_property"):
        pc = "construct"
    if form == "new" and kc != "native function" and pc in ("function_name", "function_length", "prototype_property"):
        # these programs also construct; if the post-call probe agrees the difference is in construction
        le, lo = exp.rpartition("|")[0], obs.rpartition("|")[0]
        if le.rpartition(",")[2] == lo.rpartition(",")[2]:
            pc = "construct"
    text = CALL_TEXT.get((pc, kc)) or "probe `%s` wrong for %s" % (pc.replace("_", " "), kc)
    return "call|%s|%s" % (pc, kc), "call forms: " + text


# ------------------------------------------------------------------ evidence
def extra_coverage(res):
    """State-space bookkeeping over the REFERENCE observations of the spaces that ran."""
    ran = {s["space"]: s for s in res.per_space}
    ref = _ref()
    states, trans = set(), set()
    steps = 0
    hist_cases = 0
    for sp in core_spaces() + strata():
        if sp.name not in ran or not sp.name.startswith("c08_hist"):
            continue
        cases = sp.cases()
        exp = store.load_table(sp.name, [c[0] for c in cases])
        hist_cases += len(cases)
        for (cid, payload), e in zip(cases, exp):
            h = payload["h"]
            vecs = e.rpartition("|")[0].split(";")
            if payload["every"]:
                prev = None
                for i, v in enumerate(vecs):
                    st = hash(v.partition(",")[2])
                    states.add(st)
                    if i:
                        trans.add((prev, h[i - 1]))
                        steps += 1
                    prev = st
            else:
                st = hash(vecs[-1].partition(",")[2])
                states.add(st)
                before = ref.get(G.case_id(tuple(h[:-1])))
                trans.add((hash(before), h[-1]))
                steps += 1
    dis = sum(s["disagreements"] for s in res.per_space if s["space"].startswith("c08_hist"))
    cov = {
        "states": len(states),
        "transitions": len(trans),
        "transition_executions_observed": steps,
        "traces_validated_against_impl": hist_cases - dis,
        "histories": hist_cases,
        "histories_disagreeing": dis,
        "histories_differing_only_in_getPrototypeOf_of_F_prototype": DIAG["primary"].get("base_proto", 0),
        "probes_per_observation": G.N_PROBES,
        "explanation": "states = distinct reference (V8) observation vectors reached; transitions = distinct "
                       "(reference state, statement) pairs executed on the engine and compared; a trace is validated "
                       "iff every observation it logs equals the reference. The engine has defects that are visible "
                       "in the initial state already (see first_differing_probe), so few traces validate; the listed "
                       "known findings carry the exact per-history outcomes.",
        "first_differing_probe": dict(DIAG["first_probe"].most_common(40)),
        "first_differing_probe_kind": dict(DIAG["first_kind"].most_common()),
        "histories_by_primary_root_cause": dict(DIAG["primary"].most_common()),
        "histories_witnessing_root_cause": dict(DIAG["witnessed"].most_common()),
        "call_form_disagreements_by_probe": dict(DIAG["call"].most_common()),
    }
    return cov


def post_expected(sp, cid, e):
    """Build-time self-check of the reference outcomes (tools/gen_tables.py)."""
    tail = e.rpartition("|")[2]
    assert tail not in ("Esyntax", "Etime", "Estack", "Ethrow"), (sp.name, cid, e[-200:])
    if sp.name.startswith("c08_hist"):
        vecs, _ = G.vectors(e)
        n = (1 + len(cid.split(G.SEP)) if cid != G.EMPTY else 1) if sp.name == "c08_hist_d2" else 1
        assert len(vecs) == n and all(len(v) == G.N_PROBES for v in vecs), (sp.name, cid, [len(v) for v in vecs])
    return e
