"""C03  Scripts can reach only JavaScript values, never host internals.

Part 1 (E1 product, differential): {27 receiver kinds} x {every internal / Python-dunder attribute name,
discovered at run time by introspecting every class of microjs.*} x {14 access forms}. A name that is not
an ECMAScript property name must behave exactly like fresh control names on the same receiver and form.
Part 2 (reachability invariant): after each program of a corpus (C05/C07 families, access-form scripts)
the whole object graph reachable from the context's globals, every value handed back by eval/get and
every argument received by an exposed host function is walked: everything must be a JavaScript value
(primitive, JSObject subclass, JSFunction, a native callable defined inside microjs, or the exposed
callable) - never None, an iterator, a CompiledFunction, a host container, a type, a module, a VM/Context.
"""
from mc.core.runner import Space

PROP = "C03"
LEVEL = "exploration"
ASSUMPTIONS = [
    "internal names are taken from dir() of every class and of representative instances in microjs.* at run time, plus a "
    "fixed Python dunder vocabulary; names that are ECMAScript property names (length, name, get, set, keys, ...) are not "
    "judged here because their behaviour is specified by other properties",
    "the graph walk sees what is reachable through property tables, element lists, prototypes, closure cells and bound "
    "attributes of engine objects; values that exist only transiently on the operand stack are not inspected",
]

RECEIVERS = {
    "int": "(7)", "float": "(1.5)", "string": '"abc"', "boolean": "true", "null": "null", "undefined": "undefined",
    "object": "({a: 1})", "bare-object": "Object.create(null)", "array": "[1, 2]", "Uint8Array": "(new Uint8Array(2))",
    "Float64Array": "(new Float64Array(2))", "Int32Array": "(new Int32Array(2))", "ArrayBuffer": "(new ArrayBuffer(8))",
    "function": "(function f(a) { return a })", "arrow": "(() => 1)", "bound": "(function f(a) { return a }).bind(null)",
    "native-method": "[].push", "bound-native": "[].push.bind([])", "Object": "Object", "Array": "Array", "RegExp": "RegExp",
    "Error": "Error", "regexp": "/a/g", "error": "(new Error('m'))", "arguments": "(function () { return arguments })(1)",
    "Math": "Math", "JSON": "JSON", "console": "console", "host-function": "hostfn", "for-in-var": "(function () { for (var k in {a: 1}) { return k } })()",
    "closure": "(function () { var x = 1; return function () { return x } })()", "instance": "(new (function F() { this.p = 1 })())",
}
FORMS = {
    "read": "R.NAME", "read-str": 'R["NAME"]', "call": "R.NAME()", "write-read": "var t = R; t.NAME = 1; t.NAME",
    "delete": "var t = R; delete t.NAME", "in": '"NAME" in R', "for-in": "var ks = []; for (var k in R) { ks.push(k) } ks.indexOf('NAME')",
    "keys": "Object.keys(R).indexOf('NAME')", "stringify": "JSON.stringify(R)", "typeof": "typeof R.NAME",
    "instanceof": "R.NAME instanceof Object", "new": "new R.NAME()", "as-prototype": "Object.create(R).NAME",
    "proto-literal": "({__proto__: R}).NAME", "hasOwn": "Object.prototype.hasOwnProperty.call(R, 'NAME')",
    "typeof-call": "typeof R.NAME === 'function' ? typeof R.NAME() : 'n/a'",
}
CONTROLS = ["zqxControlA", "_zqxControlB", "__zqxControlC__", "zqx_control_d"]
DUNDERS = """__class__ __dict__ __globals__ __self__ __func__ __code__ __closure__ __builtins__ __subclasses__ __mro__ __init__
__call__ __getattribute__ __getattr__ __setattr__ __delattr__ __reduce__ __reduce_ex__ __module__ __name__ __qualname__ __doc__
__new__ __del__ __repr__ __str__ __bytes__ __format__ __hash__ __bool__ __dir__ __get__ __set__ __slots__ __weakref__ __bases__
__base__ __wrapped__ __defaults__ __kwdefaults__ __annotations__ __sizeof__ __eq__ __ne__ __lt__ __iter__ __next__ __len__
__getitem__ __setitem__ __contains__ __add__ __import__ __loader__ __spec__ __file__ __path__ __traceback__ __cause__ __context__
__enter__ __exit__ __await__ __class_getitem__ __init_subclass__ __subclasshook__ __instancecheck__ func_globals gi_frame f_back
f_globals f_locals f_builtins f_code co_code co_consts tb_frame cr_frame""".split()
# Names that ECMAScript itself defines on some object: their behaviour belongs to other properties.
ES_NAMES = set("""length name prototype constructor message stack source flags global ignoreCase multiline dotAll unicode sticky
lastIndex index input get set has delete keys values entries push pop shift unshift slice splice concat join reverse indexOf
lastIndexOf includes find findIndex filter map forEach reduce reduceRight some every sort fill toString valueOf hasOwnProperty
test exec call apply bind match search replace split trim log error warn lineNumber columnNumber byteLength byteOffset buffer
subarray next done value arguments caller callee toJSON parse stringify then raw groups cause size add clear abs max min floor
ceil round random sqrt pow PI E __proto__ __defineGetter__ __defineSetter__ __lookupGetter__ __lookupSetter__ isArray of from
assign create freeze charAt at repeat""".split())


def _engine():
    from mc.props.common import engine
    return engine()


_names_cache = []


def internal_names(e):
    """Every attribute name of every class (and of representative instances) defined in microjs.*"""
    if _names_cache:
        return _names_cache[0]
    import inspect
    import sys
    names = set(DUNDERS)
    for modname, mod in list(sys.modules.items()):
        if not modname.startswith("microjs") or mod is None:
            continue
        for _, cls in inspect.getmembers(mod, inspect.isclass):
            if getattr(cls, "__module__", "").startswith("microjs"):
                names.update(dir(cls))
    ctx = e.Context()
    samples = [ctx, e._values.JSObject(), e._values.JSArray()]
    try:
        ctx.eval("var zf = function (a) { return a }; var zr = /a/; var zt = new Uint8Array(1);")
        samples += [ctx._globals["zf"], ctx._globals["zr"], ctx._globals["zt"], ctx._globals["Object"], ctx._globals["Math"]]
        samples.append(getattr(ctx._globals["zf"], "_compiled", None))
    except Exception:  # noqa: BLE001
        pass
    vm = e._vm.VM()
    samples.append(vm)
    for s in samples:
        if s is not None:
            names.update(dir(s))
            names.update(getattr(s, "__dict__", {}).keys())
    names = sorted(n for n in names if n not in ES_NAMES and n.isidentifier())
    _names_cache.append(names)
    return names


def run_probe(payload):
    """One (receiver, form): every internal name must give the same outcome as the control names."""
    e = _engine()
    recv, form = RECEIVERS[payload["recv"]], FORMS[payload["form"]]
    names = internal_names(e)

    def outcome(name):
        src = form.replace("NAME", name).replace("R", recv, 1) if False else form.replace("R", "\x00").replace("NAME", name).replace("\x00", recv)

        def setup(ctx):
            ctx._globals["hostfn"] = ctx._to_js(lambda *a: None)
        return e.run_program(src, tl=30, setup=setup)

    import re as _re
    has_name = "NAME" in form

    def norm(o, n):
        return _re.sub(r"(?<![A-Za-z0-9_$])" + _re.escape(n) + r"(?![A-Za-z0-9_$])", "NAME", o) if has_name else o

    ctl = {norm(outcome(c), c) for c in CONTROLS}
    if len(ctl) != 1:
        return "control names disagree with each other: %s\x00ok" % sorted(ctl)[:2]
    base = ctl.pop()
    bad = []
    for n in names:
        o = norm(outcome(n), n)
        if o != base:
            bad.append("%s -> %s (control %s)" % (n, o[:50], base[:40]))
            if len(bad) >= 20:
                break
    return ("ok" if not bad else "; ".join(bad)) + "\x00ok"


ALLOWED_PY_RESULT = (type(None), bool, int, float, str, list, dict)


def run_walk(payload):
    """Run a program with an exposed host function, then walk everything reachable."""
    e = _engine()
    V = e._values
    import types
    got_args = []

    class Opaque:
        secret = "host"

    RETURNS = {"tuple": (1, 2), "bytes": b"ab", "object": Opaque(), "class": Opaque, "lambda": (lambda: Opaque()), "set": {1},
               "nested": [(1, 2), {"k": Opaque()}, [b"x"]], "gen": (i for i in range(2)), "complex": 1j, "none": None, "int": 1}
    kind = payload.get("host_returns", "int")

    def hostfn(*a):
        got_args.extend(a)
        return RETURNS[kind]

    exposed = _callable_of_kind(payload.get("callable", "function"), hostfn)

    def setup(ctx):
        how = payload.get("install", "to_js")
        if how == "to_js":
            ctx._globals["hostfn"] = ctx._to_js(exposed)
        elif how == "set":
            ctx.set("hostfn", exposed)                      # the public API
        else:
            ctx.set("api", {"f": exposed, "l": [exposed]})   # nested inside host containers
            ctx.eval("var hostfn = api.f, hostfn2 = api.l[0];")

    oc, ctx = e.run_program(payload["src"], tl=50, setup=setup, want_ctx=True)
    bad = _walk(e, ctx, got_args, payload.get("result", "undefined"), exposed, RETURNS.get(kind), inner=hostfn)
    return ("ok" if not bad else "; ".join(bad[:6])) + "\x00ok"


CALLABLE_KINDS = ["function", "lambda", "partial", "wraps-decorated", "lru_cache", "bound-method", "callable-instance", "staticmethod",
                  "classmethod", "nested-closure"]


def _callable_of_kind(kind, fn):
    """The same host function exposed as different kinds of Python callable."""
    import functools
    if kind == "function":
        return fn
    if kind == "lambda":
        return lambda *a: fn(*a)
    if kind == "partial":
        return functools.partial(fn)
    if kind == "wraps-decorated":
        @functools.wraps(fn)
        def deco(*a):
            return fn(*a)
        return deco
    if kind == "lru_cache":
        # the cache is bypassed (maxsize=0) but the object is a functools._lru_cache_wrapper with __wrapped__
        return functools.lru_cache(maxsize=0)(lambda *a: fn(*[x if isinstance(x, (int, float, str, bool, type(None))) else 0 for x in a]))

    class Holder:
        def method(self, *a):
            return fn(*a)

        def __call__(self, *a):
            return fn(*a)

        @staticmethod
        def smethod(*a):
            return fn(*a)

        @classmethod
        def cmethod(cls, *a):
            return fn(*a)
    if kind == "bound-method":
        return Holder().method
    if kind == "callable-instance":
        return Holder()
    if kind == "staticmethod":
        return Holder.smethod
    if kind == "classmethod":
        return Holder.cmethod
    if kind == "nested-closure":
        def outer():
            def inner(*a):
                return fn(*a)
            return inner
        return outer()
    raise ValueError(kind)


def _walk(e, ctx, got_args, result_src, hostfn, handed_out=None, inner=None):
    """Everything reachable from the globals, every host-function argument and the value of result_src must be JavaScript values."""
    V = e._values
    import types
    bad = []
    seen = set()

    def is_native(v):
        mod = getattr(v, "__module__", None) or ""
        if isinstance(v, (types.FunctionType, types.MethodType, types.BuiltinFunctionType)):
            if isinstance(v, types.MethodType):
                mod = getattr(v.__func__, "__module__", "") or ""
            return (mod.startswith("microjs") or mod.startswith("mc.") or getattr(v, "__wrapped__", None) is hostfn or v is hostfn
                    or (getattr(v, "__wrapped__", None) is not None and getattr(v, "__wrapped__") is handed_out))
        own = [f for f in (hostfn, inner) if f is not None]
        if any(v is f or getattr(v, "__wrapped__", None) is f or getattr(v, "func", None) is f for f in own):
            return True     # the embedder's own callable, however it is spelled
        return isinstance(v, getattr(V, "JSBoundMethod", ())) or isinstance(v, getattr(V, "JSCallableObject", ()))

    stack = [("global." + k, v) for k, v in ctx._globals.items()]
    stack += [("host-function argument", a) for a in got_args]
    n = 0
    while stack and n < 20000:
        path, v = stack.pop()
        n += 1
        if v is V.UNDEFINED or v is V.NULL or isinstance(v, (bool, int, float, str)):
            continue
        if id(v) in seen:
            continue
        seen.add(id(v))
        if isinstance(v, V.JSObject):
            for k, x in v._properties.items():
                if not isinstance(k, str):
                    bad.append("%s has a non-string key %r" % (path, k))
                stack.append((path + "." + str(k), x))
            for k, x in list(getattr(v, "_getters", {}).items()) + list(getattr(v, "_setters", {}).items()):
                stack.append((path + ".<accessor " + str(k) + ">", x))
            if getattr(v, "_prototype", None) is not None:
                stack.append((path + ".<proto>", v._prototype))
            if isinstance(v, V.JSArray):
                for i, x in enumerate(v._elements[:2000]):
                    stack.append(("%s[%d]" % (path, i), x))
            continue
        if isinstance(v, V.JSFunction):
            for c in (getattr(v, "_closure_cells", None) or []):
                stack.append((path + ".<cell>", getattr(c, "value", c)))
            for attr in ("_prototype", "_bound_this", "_home_this"):
                if getattr(v, attr, None) is not None:
                    stack.append((path + ".<" + attr + ">", getattr(v, attr)))
            for x in (getattr(v, "_bound_args", None) or []):
                stack.append((path + ".<bound arg>", x))
            continue
        if is_native(v):
            continue
        bad.append("%s is a %s" % (path, type(v).__name__))
        if len(bad) >= 10:
            break
    # what eval hands back to Python
    try:
        e.CLOCK.reset("poll")
        r = ctx.eval(result_src)
        rs = [("eval result", r)]
        m = 0
        while rs and m < 20000:
            path, v = rs.pop()
            m += 1
            if isinstance(v, list):
                rs += [("%s[%d]" % (path, i), x) for i, x in enumerate(v[:2000])]
            elif isinstance(v, dict):
                rs += [(path + "." + str(k), x) for k, x in v.items()]
            elif isinstance(v, ALLOWED_PY_RESULT) or isinstance(v, (V.JSFunction, V.JSObject)) or v is hostfn or is_native(v):
                continue
            elif callable(v) and (v is handed_out or v is hostfn or v is inner or v is getattr(hostfn, "__wrapped__", None)
                                  or v is getattr(hostfn, "func", None)):
                continue        # a callable the embedder's own function handed out: exposed by the embedder, not an engine internal
            else:
                bad.append("%s handed to Python is a %s" % (path, type(v).__name__))
    except e._errors.JSError:
        pass
    except Exception as ex:  # noqa: BLE001
        bad.append("reading the result raises host " + type(ex).__name__)
    return bad


def _probe_cases():
    return [("%s, form %s" % (r, f), {"recv": r, "form": f}) for r in RECEIVERS for f in FORMS]


WALK_EXTRA = [
    ("for-in return", "function f() { for (var k in {a: 1, b: 2}) { return k } } var r1 = f(); var r2 = [f(), f()];", "r2"),
    ("for-of break", "var acc = []; for (var v of [1, 2, 3]) { acc.push(v); if (v == 2) break } var kept = acc;", "kept"),
    ("error objects", "var e1 = new Error('x'); var e2; try { null.x } catch (e) { e2 = e } var e3; try { throw new TypeError('t') } catch (e) { e3 = e }", "[e1.lineNumber, e2.lineNumber, e3.lineNumber, e3.columnNumber]"),
    ("arguments object", "var args = (function () { return arguments })(1, 'a', null);", "args"),
    ("regex results", "var m = /a(b)?/.exec('ac'); var parts = 'a,b'.split(','); var rep = 'aa'.replace(/a/g, function (x) { return x });", "[m, parts, rep]"),
    ("host call results", "var h1 = hostfn(); var h2 = hostfn(1, 'x', [1], {a: 1}, null, undefined, function () {});", "[h1, h2]"),
    ("typed arrays", "var t = new Uint8Array([1, 2]); var b = t.buffer; var s = t.subarray(1);", "[t.length, s.length]"),
    ("bound and native", "var p = [].push; var bp = [].push.bind([1]); var bf = (function () { return this }).bind({k: 1}); var res = bf();", "res"),
    ("getter setter", "var o = {get x() { return 1 }, set x(v) { this.y = v }}; o.x = 5; var d = Object.getOwnPropertyDescriptor(o, 'x');", "d"),
    ("closures in loops", "var fs = []; for (var i = 0; i < 3; i++) { fs.push(function () { return i }) } var got = fs.map(function (f) { return f() });", "got"),
    ("switch and labels", "var out = []; outer: for (var i = 0; i < 3; i++) { switch (i) { case 1: continue outer; default: out.push(i) } }", "out"),
    ("eval and Function", "var ev = (1, eval)('[1, {a: 2}]'); var fn = new Function('a', 'return [a, arguments]'); var fr = fn(1, 2);", "[ev, fr]"),
    ("JSON", "var j = JSON.parse('{\"a\":[1,{\"b\":null}]}'); var js = JSON.stringify(j);", "[j, js]"),
    ("Math and number methods", "var ms = [Math.max(1, 2), (5).toFixed(1), parseInt('7'), Number('x'), Math.floor(-0.5)];", "ms"),
    ("Object statics", "var ks = Object.keys({a: 1}); var en = Object.entries({a: 1}); var pr = Object.getPrototypeOf([]);", "[ks, en]"),
    ("exceptions through natives", "var caught = []; try { [1].forEach(function () { throw {k: 1} }) } catch (e) { caught.push(e) }", "caught"),
]


OPERANDS = "[-8, 0.5, 1 / 3, NaN, Infinity, -Infinity, -0, 1e308, 5e-324, 9007199254740993, 'x', '', '7', null, undefined, true, {}, [], [2]]"


def _walk_cases():
    from mc.gen import programs as P
    out = [("walk after: " + name, {"src": src, "result": res}) for name, src, res in WALK_EXTRA]
    for op in ["+", "-", "*", "/", "%", "**", "&", "|", "^", "<<", ">>", ">>>", "<", "<=", "==", "===", "&&", "||", "in", "instanceof"]:
        src = ("var V = %s, res = []; for (var i = 0; i < V.length; i++) for (var j = 0; j < V.length; j++) { try { res.push(V[i] %s V[j]) } "
               "catch (e) { res.push(e) } }" % (OPERANDS, op))
        out.append(("walk after: operator %s on every pair of 19 special operands" % op, {"src": src, "result": "res"}))
    for op in ["-", "+", "!", "~", "typeof ", "void "]:
        src = "var V = %s, res = []; for (var i = 0; i < V.length; i++) { try { res.push(%sV[i]) } catch (e) { res.push(e) } }" % (OPERANDS, op)
        out.append(("walk after: unary %s on 19 special operands" % op.strip(), {"src": src, "result": "res"}))
    for op in ["+=", "-=", "*=", "/=", "%=", "**=", "&=", "|=", "^=", "<<=", ">>=", ">>>="]:
        src = ("var V = %s, res = [], o = {}; for (var i = 0; i < V.length; i++) for (var j = 0; j < V.length; j++) { try { var t = V[i]; t %s V[j]; "
               "o.p = V[i]; o.p %s V[j]; res.push(t, o.p) } catch (e) { res.push(e) } }" % (OPERANDS, op, op))
        out.append(("walk after: compound %s on every pair of 19 special operands" % op, {"src": src, "result": "res"}))
    for upd in ["t++", "++t", "t--", "--t"]:
        src = ("var V = %s, res = []; for (var i = 0; i < V.length; i++) { try { var t = V[i]; res.push(%s, t) } catch (e) { res.push(e) } }"
               % (OPERANDS, upd))
        out.append(("walk after: update %s on 19 special operands" % upd, {"src": src, "result": "res"}))
    for kind in ("tuple", "bytes", "object", "class", "lambda", "set", "nested", "gen", "complex", "none"):
        src = ("var h = hostfn(); var keep = [h, {k: h}]; var viaCall = [1].map(hostfn); var viaMethod = ({m: hostfn}).m(); "
               "var t = typeof h; var called; try { called = typeof h === 'function' ? h() : 'n/a' } catch (e) { called = 'threw' }")
        out.append(("walk after: exposed callable returning a Python %s" % kind,
                    {"src": src, "result": "[h, keep, viaCall, viaMethod, called]", "host_returns": kind}))
    # built-in functions standing in for script functions (getter, setter, conversions, callbacks): whatever they return or
    # skip returning must still arrive as a JavaScript value
    for fn in ["console.log", "Math.max", "parseInt", "[].push", "[].pop", "''.trim", "JSON.stringify", "Object.keys", "isNaN", "String",
               "Array", "Object", "hostfn", "[].forEach", "/a/.exec", "Math.random", "(function () {}).call", "eval", "RegExp"]:
        src = ("var F = %s, got = []; function T(f) { try { got.push(f()) } catch (e) { got.push(e) } }\n"
               "var o = {}; T(function () { Object.defineProperty(o, 'x', {get: F, set: F}); return [o.x] }); T(function () { o.x = 1; return o.x });\n"
               "var v = {valueOf: F, toString: F, toJSON: F}; T(function () { return v + 1 }); T(function () { return String(v) }); "
               "T(function () { return JSON.stringify({k: v}) }); T(function () { return [v] + '' }); T(function () { return ({})[v] });\n"
               "T(function () { return [1, 2].map(F) }); T(function () { return [3, 1].sort(F) }); T(function () { return [1].filter(F) }); "
               "T(function () { return [1, 2].reduce(F) }); T(function () { return 'ab'.replace(/a/, F) }); T(function () { return 'ab'.replace('b', F) });\n"
               "T(function () { return JSON.stringify({a: 1}, F) }); T(function () { return JSON.parse('[1]', F) }); "
               "T(function () { return new F(1) }); T(function () { return F.call(null, 1) }); T(function () { return F.bind(null)(1) }); "
               "T(function () { return F.apply(null, [1]) });" % fn)
        out.append(("walk after: built-in %s used as getter, setter, conversion method and callback" % fn, {"src": src, "result": "got"}))
    # every try / catch / finally shape (all exit kinds of the three blocks, also while an exception is pending) around
    # for-in / for-of / switch operands: whatever a handler receives, and whatever is left in globals, is a JavaScript value
    from mc.gen import tryshapes as TS
    for sh in TS.SHAPES:
        body = TS.shape_src(sh, 0, 1)
        name = TS.sh_name(sh)
        for enc_name, enc in (("for-in", "for (var k in {a: 1, b: 2}) { %s }"), ("for-of", "for (var v of [1, 2]) { %s }"),
                              ("switch-in-for-in", "L: for (var k in {a: 1, b: 2}) { switch (k) { case 'a': %s } }"),
                              ("for-of-in-switch", "switch (1) { case 1: for (var v of [1, 2]) { %s } }")):
            if "return" in sh:
                src = ("var kept = []; function fn() { " + (enc % body) + " return 6 } for (var q = 0; q < 2; q++) { "
                       "try { kept.push(fn()) } catch (ez) { kept.push(ez) } }")
            else:
                src = "var kept = []; for (var q = 0; q < 2; q++) { try { " + (enc % body) + " } catch (ez) { kept.push(ez) } }"
            src = src.replace("__out(", "kept.push(")
            out.append(("walk after try shape %s inside %s" % (name, enc_name), {"src": src, "result": "kept"}))
    # whole control structures (two nested constructs, every exit that stays inside them) written INSIDE a finally block that runs
    # while an exception is pending, inside a catch block, and inside a finally block that interrupts a return
    from mc.props import c02 as C02
    import itertools as _it
    inner_constructs = ["for", "forin", "forof", "switch", "sw_df_hit", "label", "trycatch", "tryfinally", "dowhile"]
    for chain in _it.product(inner_constructs, repeat=2):
        for ex in ("break", "continue", "lbreak0", "lbreak1", "lcontinue0", "lcontinue1"):
            b = C02.inline_body(chain, ex, "iter1")
            if b is None or P.early_error([("for", None, "false", None, b)], in_function=True):
                continue
            body = P.stmts(b)
            if "continue" in ex and not any(k in P.LOOPS for k in chain):
                continue
            try:
                for place, tmpl in (("finally-with-pending-exception", "try { try { throw new Error('boom') } finally { %s } } catch (e) { kept.push(e) }"),
                                    ("catch-block", "try { null.x } catch (e) { kept.push(e); %s }"),
                                    ("finally-interrupting-return", "kept.push((function () { try { return 'ret' } finally { %s } })());")):
                    src = P.PRELUDE.replace("function g(x, y) { __out(x); __out(y); return x + y; }", "function g(x, y) { return x + y; }") +                         "var kept = []; function probe() { " + (tmpl % body) + " } try { probe() } catch (e2) { kept.push(e2) }"
                    src = src.replace("__out(", "kept.push(")
                    out.append(("walk after %s>%s exit %s inside a %s" % (chain[0], chain[1], ex, place), {"src": src, "result": "kept"}))
            except Exception:  # noqa: BLE001
                continue
    # typed arrays of every kind: fresh, after their buffer has been materialised, through views and subarrays
    for kind in ("Int8Array", "Uint8Array", "Uint8ClampedArray", "Int16Array", "Uint16Array", "Int32Array", "Uint32Array", "Float32Array", "Float64Array"):
        src = ("var t = new %s([1, 2, 3]); var before = [t[0], t[1], t[5], t.length]; var buf = t.buffer; var after = [t[0], t[2], t.length, buf.byteLength]; "
               "var sub = t.subarray(1); var subv = [sub[0], sub[1], sub[9], sub.length]; var view = new %s(buf); view[0] = 7; var seen = [t[0], view[0], view[1]]; "
               "var copy = new %s(t); var cp = [copy[0], copy[2]]; t.set([9], 1); var st = [t[1], sub[0]]; var viaMap = [].map.call(t, function (x) { return x }); "
               "var viaJoin = t.join(); var dv = new Float64Array(buf.byteLength >= 8 ? 1 : 0); var onBuf = new Uint8Array(buf, 1); var ob = [onBuf[0], onBuf.length];"
               % (kind, kind, kind))
        out.append(("walk after typed array %s (buffer, subarray, views, copy, set)" % kind,
                    {"src": src, "result": "[before, after, subv, seen, cp, st, viaMap, viaJoin, ob]"}))
    for ck in CALLABLE_KINDS:
        for how in ("to_js", "set", "nested"):
            for kind in ("int", "tuple", "nested", "object", "none", "lambda"):
                src = ("var h = hostfn(1, 'a', [1, {k: 2}], null); var keep = [h, {k: h}]; var viaCall = [1].map(hostfn); "
                       "var viaMethod = ({m: hostfn}).m(); var viaBind = hostfn.bind(null, 5)(6); var viaApply = hostfn.apply(null, [7, [8]]); "
                       "var again = hostfn(h);")
                out.append(("walk after: %s exposed by %s returning a Python %s" % (ck, how, kind),
                            {"src": src, "result": "[h, keep, viaCall, viaMethod, viaBind, viaApply, again, hostfn]", "host_returns": kind,
                             "callable": ck, "install": how}))
    from mc.gen import programs as P
    import itertools
    n = 0
    for chain in itertools.product(["for", "forin", "forof", "switch", "trycatch", "tryfinally", "label", "func"], repeat=2):
        for ex in ("none", "break", "continue", "return", "throw"):
            body = P.skeleton_body(list(chain), ex, "bare")
            if body is None:
                continue
            n += 1
            src = P.skeleton_source(body, "r = [0, f(), 2];")
            out.append(("walk after skeleton %s exit %s" % (">".join(chain), ex), {"src": src, "result": "r"}))
    return out


# ---------------------------------------------------------------------------------------------
# Part 3: what every built-in hands to the script (results, callback arguments, thrown values)

API_ARGS = ["", "cb", "cb, 0", "'b'", "/(x)?b|(c)/g, cb", "/(x)?(b)/, cb", "/(x)?b/", "-8, 0.5", "-8, 1 / 3", "2, 0.5", "0", "-1", "null",
            "[1, [2]]", "({a: 1, b: [2]})", "'{\"a\":[1,null]}', cb", "{a: 1}, cb", "hostfn", "1e400", "NaN"]


def run_api_walk(payload):
    e = _engine()
    from mc.props import c04
    recv, name = payload["recv"], payload["name"]
    rsrc = c04.RECEIVERS[recv] if recv else None
    got_args = []

    def hostfn(*a):
        got_args.extend(a)
        return 1

    def setup(ctx):
        ctx.set("hostfn", hostfn)

    target = ("r.%s" % name) if recv else name
    try:
        probe = e.Context()
        present = probe.eval(("typeof %s[%r] === 'function'" % (rsrc, name)) if recv else ("typeof %s === 'function'" % name))
    except Exception:  # noqa: BLE001
        present = False
    if not present:
        return "absent\x00absent"
    bad = []
    for av in API_ARGS:
        for form in (["%s(%s)"] if recv else ["%s(%s)", "new %s(%s)"]):
            call = form % (target, av)
            src = ("var seen = [], out, thrown; function cb() { seen.push(this); for (var i = 0; i < arguments.length; i++) seen.push(arguments[i]); "
                   "return 1 }\n" + ("var r = %s;\n" % rsrc if recv else "") + "try { out = %s } catch (e) { thrown = e }\n"
                   "var again; try { again = typeof out === 'function' ? out(1) : out && out.next ? out.next() : out && out[0] } catch (e) { }" % call)
            oc, ctx = e.run_program(src, tl=50, setup=setup, want_ctx=True)
            for b in _walk(e, ctx, got_args, "[out, seen, thrown, again]", hostfn):
                bad.append("%s: %s" % (call, b))
            del got_args[:]
            if len(bad) >= 6:
                break
    return ("ok" if not bad else "; ".join(bad[:6])) + "\x00ok"


def _api_walk_cases():
    from mc.props import c04
    out = []
    for recv in c04.RECEIVERS:
        for name in c04.CANDIDATES:
            out.append(("results of %s.%s" % (recv, name), {"recv": recv, "name": name}))
    for name in c04.GLOBAL_FUNCS:
        out.append(("results of %s(...)" % name, {"recv": None, "name": name}))
    return out


def _sp(name, runner, fn, rule, bound, batch=2):
    return Space(name, "mc.props.c03:" + runner, fn, oracle="inline", rule=rule, bound=bound, batch=batch, watchdog=300,
                 nontrivial=lambda cid, p, exp: True)


def spaces(tier, seed, all_strata=False):
    return [
        _sp("c03_names", "run_probe", _probe_cases,
            "32 receiver kinds x 16 access forms x every attribute name of every class/instance in microjs.* plus ~100 Python "
            "dunders (discovered at run time, ~500 names): outcome identical to 4 fresh control names", "32 x 16 x names"),
        _sp("c03_walk", "run_walk", _walk_cases,
            "object-graph walk after 16 hand-picked scripts and every two-level control-flow skeleton over 8 constructs x 5 "
            "exits used as an array-literal operand: every reachable value, every eval result and every host-function "
            "argument is a JavaScript value; plus the same host function exposed as 10 kinds of Python callable x 3 ways of "
            "installing it x 6 kinds of return value", "corpus", batch=10),
        _sp("c03_api_walk", "run_api_walk", _api_walk_cases,
            "every built-in method present on 35 receiver kinds and every global function, called with %d argument vectors (callbacks "
            "that record this and their arguments, regexes with groups that do not take part, negative bases with fractional "
            "exponents, an exposed host function as callback, ...): the result, what a callback received, a thrown value and one "
            "further step on the result are walked together with all globals" % len(API_ARGS), "receivers x methods x %d" % len(API_ARGS),
            batch=20),
    ]


def signature(sp, cid, payload, exp, obs):
    first = obs.split("; ")[0]
    if sp.name == "c03_names":
        return "names|" + cid, "internal attribute name behaves unlike an unknown property on %s: %s" % (cid, first[:90])
    if sp.name == "c03_api_walk":
        return "apiwalk|" + cid, "a built-in hands the script a non-JavaScript value (%s): %s" % (cid, first[:120])
    return "walk|" + first.split(" is a ")[-1][:30], "reachable non-JavaScript value: " + first[:120]
