"""C10  The regex engine is total: any pattern and subject, bounded work, no host errors.

E1: every string over the regex metacharacter vocabulary up to a length bound (constructor and literal
sites), flag strings, single-edit mutations of valid patterns, counted-quantifier and group-count sweeps;
catastrophic families x subject lengths x {time limit set, unset} with regex steps counted through the
verification hook. Oracle: outcome class (value / script-catchable SyntaxError / JSError family) and a
closed-form step budget. No reference matcher is needed: the property is about totality, not results.
"""
import itertools

from mc.core.runner import Space

PROP = "C10"
LEVEL = "exploration"
ASSUMPTIONS = [
    "work is measured in regex-VM steps through the MICROJS_VERIF hook and in virtual clock polls, not seconds",
    "pattern strings longer than the length bound and characters outside the 22-symbol vocabulary are not explored",
]
VOCAB = list("a1()[]{}*+?|\\^$.,-:=!<")
FLAGCH = list("gimsuyx")


def _engine():
    from mc.props.common import engine
    return engine()


CAUGHT = ('var r; try { var re = new RegExp(P, F); r = 1 } catch (e) { r = (e instanceof SyntaxError) ? 2 : '
          '"other:" + e.name } r')
USE = ('var re = new RegExp(P, F); var out = []; out.push(re.test("a1a(")); out.push(re.exec("") === null); '
       'out.push("a1a".replace(re, "x").length >= 0); out.push("a,1".split(re).length > 0); '
       'out.push("a1".search(re) >= -1); out.push(("a1".match(re) || []).length >= 0); 1')


def classify_pattern(e, ctx, p, f="", literal=False):
    """-> 'ok' or a description of how totality is violated for this pattern."""
    JSError = e._errors.JSError
    ctx._globals["P"] = p
    ctx._globals["F"] = f
    e.CLOCK.reset("poll")
    try:
        r = ctx.eval(CAUGHT)
    except JSError as ex:
        return "ctor: uncatchable %s" % type(ex).__name__
    except RecursionError:
        return "ctor: host RecursionError"
    except Exception as ex:  # noqa: BLE001
        return "ctor: host " + type(ex).__name__
    if r == 2:
        # rejected: uncaught, it must reach Python as a JSError
        e.CLOCK.reset("poll")
        try:
            ctx.eval("new RegExp(P, F)")
            return "ctor: rejected when caught, accepted when not"
        except JSError:
            pass
        except Exception as ex:  # noqa: BLE001
            return "ctor uncaught: host " + type(ex).__name__
    elif r == 1:
        e.CLOCK.reset("poll")
        try:
            ctx.eval(USE)
        except (e._errors.TimeLimitError, e._errors.MemoryLimitError):
            pass
        except JSError:
            pass
        except RecursionError:
            return "use: host RecursionError"
        except Exception as ex:  # noqa: BLE001
            return "use: host " + type(ex).__name__
    else:
        return "ctor: throws %s instead of SyntaxError" % (r,)
    if literal and "/" not in p and "\n" not in p and p != "" and not p.startswith("*"):
        e.CLOCK.reset("poll")
        try:
            ctx.eval("var re = /" + p + "/" + f + "; re.test('a1')")
        except JSError:
            pass
        except RecursionError:
            return "literal: host RecursionError"
        except Exception as ex:  # noqa: BLE001
            return "literal: host " + type(ex).__name__
    return "ok"


def run_bundle(payload):
    """payload: {'prefix': str, 'tails': n (all completions of length n over VOCAB), 'literal': bool}
    or {'patterns': [...], 'flags': [...]}"""
    e = _engine()
    ctx = e.Context(time_limit=60)
    bad = []
    if "prefix" in payload:
        pats = (payload["prefix"] + "".join(t) for t in itertools.product(VOCAB, repeat=payload["tails"]))
        flags = [""]
    else:
        pats = payload["patterns"]
        flags = payload.get("flags", [""])
    n = 0
    for p in pats:
        for f in flags:
            n += 1
            v = classify_pattern(e, ctx, p, f, payload.get("literal", False))
            if v != "ok":
                bad.append("%r/%s: %s" % (p, f, v))
                if len(bad) >= 40:
                    break
        if len(bad) >= 40:
            break
    obs = "ok" if not bad else "; ".join(bad)
    return obs + "\x00ok"


def run_single(payload):
    """One expensive pattern (huge counts, thousands of groups) in its own case."""
    e = _engine()
    ctx = e.Context(time_limit=200)
    return classify_pattern(e, ctx, payload["p"], payload.get("f", "")) + "\x00ok"


class _TooMuchWork(BaseException):
    pass


def run_work(payload):
    """Catastrophic family: count regex steps through the hook; check outcome class and the budget."""
    e = _engine()
    steps = [0]
    cap = payload["cap"]

    def hook(rvm, loop):
        steps[0] += 1
        if steps[0] > cap:
            raise _TooMuchWork()

    if e.set_re_hook(hook) == "none":
        e.set_re_hook(None)
        return "no-hook\x00no-hook"
    tl = payload.get("tl")
    try:
        ctx = e.Context(time_limit=tl)
        ctx._globals["S"] = payload["s"]
        e.CLOCK.reset("poll")
        try:
            ctx.eval(payload["src"])
            oc = "value"
        except e._errors.TimeLimitError:
            oc = "time"
        except e._errors.JSError:
            oc = "jserror"
        except _TooMuchWork:
            oc = "work exceeds the budget (> %d steps)" % cap
        except Exception as ex:  # noqa: BLE001
            oc = "host " + type(ex).__name__
    finally:
        e.set_re_hook(None)
    ok = oc in ("value", "time", "jserror") if tl else oc in ("value", "jserror")
    return (("ok" if ok else oc) + "\x00ok")


# ------------------------------------------------------------------ spaces

def _bundles(total_len, tail_len, literal):
    out = []
    for pre in itertools.product(VOCAB, repeat=total_len - tail_len):
        p = "".join(pre)
        out.append(("all %d-symbol patterns starting with %r (%s)" % (total_len, p, "ctor+literal" if literal else "ctor"),
                    {"prefix": p, "tails": tail_len, "literal": literal}))
    return out


def _short():
    pats = [""] + ["".join(t) for n in (1, 2) for t in itertools.product(VOCAB, repeat=n)]
    return [("all patterns of length <= 2, constructor and literal", {"patterns": pats, "literal": True})]


def _flags():
    fl = [""] + ["".join(t) for n in (1, 2, 3) for t in itertools.product(FLAGCH, repeat=n)]
    return [("flag strings over gimsuyx up to length 3 on pattern %r" % p, {"patterns": [p], "flags": fl})
            for p in ("a", "(a)|b", "^a$", "(", "[a", "a{2", "\\")]


def _mutations():
    from mc.gen import patterns as G
    base = [src for _, src, _ in G.patterns(3, G.ATOMS16)]
    base = base[::max(1, len(base) // 200)][:200]
    out = []
    for b in base:
        muts = set()
        for i in range(len(b)):
            muts.add(b[:i] + b[i + 1:])
        for i in range(len(b) + 1):
            for c in VOCAB:
                muts.add(b[:i] + c + b[i:])
        out.append(("single-character deletions and insertions of /%s/" % b,
                    {"patterns": sorted(muts), "literal": False}))
    return out


NS = [0, 1, 2, 255, 256, 1000, 65535, 65536, 1000000, 2147483648, 10 ** 20]


def _counted():
    out = []
    for n in NS:
        for form in ("a{%d}", "a{%d,}", "a{0,%d}", "a{%d,%d}", "(?:a{%d}){2}", "(a){%d}", "a{2,%d}?", "(?:){%d}", "(?:){0,%d}",
                     "(){%d}", "(?:|a){%d}", "(?:(?:){%d}){%d}", "\\b{%d}", "^{%d}"):
            p = form.replace("%d", str(n))
            out.append(("counted quantifier /%s/" % p, {"p": p}))
    for n in (1, 10, 100, 255, 256, 1000, 5000):
        out.append(("%d sequential groups" % n, {"p": "(a)" * n}))
        out.append(("%d sequential groups + backreference to the last" % n, {"p": "(a)" * n + "\\" + str(n)}))
    for n in (1, 10, 50, 100, 255, 256, 500, 1000):
        out.append(("%d nested groups" % n, {"p": "(" * n + "a" + ")" * n}))
        out.append(("%d nested non-capturing groups" % n, {"p": "(?:" * n + "a" + ")" * n}))
        out.append(("%d nested lookaheads" % n, {"p": "(?=" * n + "a" + ")" * n}))
        out.append(("class with %d ranges" % n, {"p": "[" + "a-z" * n + "]"}))
        out.append(("alternation of %d branches" % n, {"p": "|".join(["a"] * n)}))
    return out


FAMILIES = [
    ("(a+)+$", "a", "b"), ("(a*)*b", "a", "c"), ("(a|a)*b", "a", "c"), ("(a|aa)+$", "a", "b"), ("(.*)*x", "a", "b"),
    ("(a+)\\1+$", "a", "b"), ("(?=(a+)+b)a", "a", "c"), ("(?<=(a+)+b)c", "a", "c"), ("(?<=b(a+)+)c", "a", "c"), ("((a+)+)+$", "a", "b"),
    ("(?:a?){20}a{20}", "a", ""), ("^(a+)+$", "a", "!"), ("(?!(a+)+b)a", "a", "c"),
    ("^(?:(?=a)a|a)*$", "a", "!"), ("^(?:a(?<=a)|a(?<=a))*b", "a", ""), ("^(a*)(?:\\1a|a)*$", "a", "!"),
    # the work is done inside lookaround bodies (a scan of the rest of the subject per iteration)
    ("^(?:(?!.*z)a)+$", "a", ""), ("^(?:(?=.*$)a)+$", "a", ""), ("^(?:a(?<!z.*))+$", "a", ""), ("(?:(?=(a*))\\1a)*b", "a", "c"),
]
APIS = ["var re = new RegExp(P); re.test(S)", "var re = new RegExp(P); re.exec(S)", "S.match(new RegExp(P))",
        "S.replace(new RegExp(P, 'g'), 'x')", "S.split(new RegExp(P))", "S.search(new RegExp(P))", "S.match(P)", "S.search(P)"]
STEP_LIMIT = 100000


def _work(tier):
    out = []
    lens_tl = [10, 20, 40, 100, 1000] + ([10000] if tier == "thorough" else [])
    for pat, ch, tail in FAMILIES:
        for api in APIS:
            for n in lens_tl:
                s = ch * n + tail
                tl = 20
                # deadline after 20 polls: at most ~ (20+2) regex polls of 100 steps, plus VM slack
                cap = (tl + 4) * 100 * 4
                out.append(("%s via `%s` on %s^%d%s, time limit set" % (pat, api, ch, n, tail),
                            {"src": "var P = %s; %s" % (_js(pat), api), "s": s, "tl": tl, "cap": cap}))
        for api in APIS[:3]:
            for n in (10, 20) + ((30,) if tier == "thorough" else ()):
                s = ch * n + tail
                # no time limit: each start position may burn one step budget, a few per API call
                cap = STEP_LIMIT * (len(s) + 2) * 3
                out.append(("%s via `%s` on %s^%d%s, no time limit" % (pat, api, ch, n, tail),
                            {"src": "var P = %s; %s" % (_js(pat), api), "s": s, "tl": None, "cap": cap}))
    # without a time limit the step budget alone must stop a quadratic scan, through every API
    for pat, ch, tail in FAMILIES[-4:]:
        for api in APIS:
            # (8000 only for the anchored patterns: an unanchored quadratic scan of 8000 positions is within the engine's own
            # budget but takes minutes of wall time, which the harness's watchdog would report as a resource kill)
            for n in (300, 2000) + ((8000,) if tier == "thorough" and pat.startswith("^") else ()):
                s = ch * n + tail
                # anchored at ^: only the first start position can do real work (one step budget, a few API-internal matcher
                # runs), every other position fails within a few steps
                cap = STEP_LIMIT * 3 + 40 * len(s) if pat.startswith("^") else STEP_LIMIT * (len(s) + 2) * 3
                out.append(("%s via `%s` on %s^%d%s, no time limit" % (pat, api, ch, n, tail),
                            {"src": "var P = %s; %s" % (_js(pat), api), "s": s, "tl": None, "cap": cap}))
    # very many matches, each far below a poll interval: with a time limit the work must still stop within the poll budget
    for pat, ch in (("a", "a"), ("a|b", "a"), ("(a)(?=a|$)", "a"), ("\\ba", "a ")):
        for api in ("S.replace(new RegExp(P, 'g'), 'x')", "S.replace(new RegExp(P, 'g'), function (m) { return m })", "S.match(new RegExp(P, 'g'))",
                    "S.split(new RegExp(P))", "S.replaceAll(new RegExp(P, 'g'), 'y')", "var re = new RegExp(P, 'g'), n = 0; while (re.test(S)) { n++ }"):
            for n in (20000, 60000):
                s = ch * n
                tl = 20
                out.append(("%s via `%s` on (%s)^%d: many short matches, time limit set" % (pat, api, ch, n),
                            {"src": "var P = %s; %s" % (_js(pat), api), "s": s, "tl": tl, "cap": (tl + 4) * 100 * 4 + 4000}))
    # more backtrack entries than the matcher keeps (10 000): a catchable error or a result through every API, never a host one
    for pat, ch, tail in (("(?:a|b)*c", "a", ""), ("(a|b)*$", "a", "!"), ("(?:a?)*b", "a", ""), ("^(?:a|(b))+?$", "a", "!")):
        for api in APIS:
            for n in (9000, 12000, 30000):
                s = ch * n + tail
                for tl in (None, 2000):
                    out.append(("%s via `%s` on %s^%d%s (deep backtrack stack), %s" % (pat, api, ch, n, tail, "time limit set" if tl else "no time limit"),
                                {"src": "var P = %s; var r; try { r = (function () { return %s })() } catch (e) { r = e.name } r" % (_js(pat), api.split("; ")[-1] if "; " in api else api)
                                        if False else "var P = %s; %s" % (_js(pat), api), "s": s, "tl": tl, "cap": STEP_LIMIT * (len(s) + 2) * 3}))
    return out


def _js(s):
    return '"' + s.replace("\\", "\\\\").replace('"', '\\"') + '"'


CLASS_ITEMS = ["a", "z", "1", "-", "^", "\\d", "\\w", "\\s", "\\D", "\\b", "\\]", "\\-", ".", "\\x41", "\\u0041", "\\0"]


def _classes():
    out = []
    for neg in ("", "^"):
        pats = []
        for n in (1, 2, 3):
            for combo in itertools.product(CLASS_ITEMS, repeat=n):
                pats.append("[" + neg + "".join(combo) + "]")
        for i in range(0, len(pats), 400):
            out.append(("character classes %s#%d: all bodies of <= 3 items over %d item kinds" % (neg or "+", i // 400, len(CLASS_ITEMS)),
                        {"patterns": pats[i:i + 400], "literal": True}))
    return out


# ------------------------------------------------------------------ matching from every start position a script can set
POS_PATTERNS = ["a", "(?<=a)b", "(?<!a)b", "\\bc", "\\Bc", "^d", "d$", "(a)\\1", "(?=a)", "(?:)", "a*", "\\ud83d\\ude00", "[^a]", ".", "(?<=\\1(a))b",
                "(?<=^a)b", "\\b", "$"]
POS_FLAGS = ["y", "gy", "g", "my", "gm", "yu", "gu", "giy", "sy", ""]
POS_LASTINDEX = ["0", "1", "2", "3", "4", "5", "100000", "2147483648", "4294967296", "9007199254740993", "-1", "NaN", "Infinity", "-Infinity",
                 "1.5", "'2'", "null", "undefined", "{valueOf: function () { return 3 }}", "[1]"]
POS_SUBJECTS = ['""', '"a"', '"ab"', '"aab c"', '"a\\nd"', '"\\ud83d\\ude00a"', '"\\ud83d"', '"abcd"']
POS_CALLS = ["r.exec(S)", "r.test(S)", "S.match(r)", "S.replace(r, 'x')", "S.replace(r, function (m) { return m + m })", "S.split(r)", "S.search(r)",
             "S.replaceAll(r, 'x')"]


def run_positions(payload):
    """One (pattern, flags): every lastIndex x subject x call, twice in a row on the same RegExp (a long subject first)."""
    e = _engine()
    bad = []
    for li in POS_LASTINDEX:
        for subj in POS_SUBJECTS:
            for call in POS_CALLS:
                if "replaceAll" in call and "g" not in payload["flags"]:
                    continue
                src = ("var r = new RegExp(%s, %s), S = 'aab aab aab aab', out = []; try { out.push(r.exec(S)) } catch (e) { out.push(e.name) } "
                       "r.lastIndex = %s; S = %s; try { out.push(%s) } catch (e) { out.push(e.name) } try { out.push(%s, r.lastIndex) } "
                       "catch (e) { out.push(e.name) } out.length" % (_js(payload["p"]), _js(payload["flags"]), li, subj, call, call))
                oc = e.run_program(src, tl=200)
                t = oc.rpartition("|")[2]
                if t != "Rd4010000000000000" and not (t == "Ethrow" and "u" in payload["flags"]):
                    bad.append("lastIndex = %s, S = %s, %s: %s" % (li, subj, call, t))
                    if len(bad) >= 8:
                        return "; ".join(bad) + "\x00ok"
    return ("ok" if not bad else "; ".join(bad)) + "\x00ok"


def _positions():
    return [("/%s/%s from every lastIndex" % (p, f), {"p": p, "flags": f}) for p in POS_PATTERNS for f in POS_FLAGS]


def _sp(name, runner, fn, rule, bound, batch=4, watchdog=60):
    return Space(name, "mc.props.c10:" + runner, fn, oracle="inline", rule=rule, bound=bound, batch=batch,
                 watchdog=watchdog, nontrivial=lambda cid, p, exp: True, nondeterminism_is_violation=True)


def spaces(tier, seed, all_strata=False):
    core = [
        _sp("c10_len2", "run_bundle", _short, "every pattern string of length <= 2 over the 22-symbol metacharacter "
            "vocabulary through new RegExp and as a literal; accepted patterns are also used by test/exec/replace/"
            "split/search/match", "length <= 2", batch=1),
        _sp("c10_len3", "run_bundle", lambda: _bundles(3, 2, True), "every pattern string of length 3 (bundled by first symbol)",
            "length 3", batch=1),
        _sp("c10_len4", "run_bundle", lambda: _bundles(4, 2, False), "every pattern string of length 4 (bundled by 2-symbol prefix), "
            "constructor site", "length 4", batch=2),
        _sp("c10_classes", "run_bundle", _classes, "every character class (plain and negated) whose body is up to 3 items drawn from "
            "literals, '-', '^', shorthand escapes \\d \\w \\s \\D, \\b, escaped ] and -, hex/unicode/NUL escapes", "<= 3 items", batch=1),
        _sp("c10_flags", "run_bundle", _flags, "every flag string over gimsuyx up to length 3 on 7 patterns", "flags <= 3", batch=1),
        _sp("c10_mutations", "run_bundle", _mutations, "all single-character deletions and insertions (22 symbols) of 200 valid patterns",
            "1 edit", batch=4),
        _sp("c10_counted", "run_single", _counted, "counted quantifiers with n in {0,1,2,255,256,1000,65535,65536,1e6,2^31,1e20}, "
            "1..5000 sequential groups, 1..1000 nested groups/lookaheads, wide classes and alternations", "sweep",
            batch=1, watchdog=30),
        _sp("c10_positions", "run_positions", _positions, "%d patterns (lookbehind, word boundaries, anchors, back-references, empty matches, astral "
            "characters) x %d flag sets x %d values assigned to lastIndex (beyond the subject, beyond 2^32 and 2^53, negative, NaN, fractions, "
            "objects) x %d subjects (empty, shorter than the previous one, lone surrogate) x %d calls, each on a RegExp that has just matched "
            "a longer subject: a result or a catchable error, never a host exception" % (
                len(POS_PATTERNS), len(POS_FLAGS), len(POS_LASTINDEX), len(POS_SUBJECTS), len(POS_CALLS)),
            "%d x %d x %d x %d x %d" % (len(POS_PATTERNS), len(POS_FLAGS), len(POS_LASTINDEX), len(POS_SUBJECTS), len(POS_CALLS)), batch=2, watchdog=120),
        _sp("c10_work_" + tier, "run_work", lambda: _work(tier), "16 catastrophic-backtracking families x 8 regex-consuming "
            "APIs x subject lengths, with a time limit (work must stop within the poll budget) and without "
            "(work must stay within step_limit x positions); steps counted through the regex hook", "families x lengths",
            batch=2, watchdog=120),
    ]
    strata = [
        _sp("c10_len5_%s" % ("x%02x" % ord(c)), "run_bundle", (lambda c=c: [b for b in _bundles(5, 2, False) if b[1]["prefix"][0] == c]),
            "every pattern string of length 5 starting with %r" % c, "length 5", batch=2)
        for c in VOCAB
    ]
    if tier == "thorough" or all_strata:
        return core + strata
    return core + [strata[seed % len(strata)]]


def signature(sp, cid, payload, exp, obs):
    first = obs.split("; ")[0]
    how = first.split(": ", 1)[1] if ": " in first else first
    if sp.name.startswith("c10_work"):
        key = "work|" + obs
        return key, "catastrophic pattern: " + obs
    if sp.name == "c10_counted":
        return "counted|" + how, "large counted quantifier / many groups: " + how
    return "pattern|" + how, "pattern string: " + how
