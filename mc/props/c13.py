"""C13  Parsing respects the grammar: precedence, layout, and rejection.

E1: bounded-exhaustive exploration of
  (a) precedence   every expression tree with 2 operators (all 44 x 44 ordered pairs, every nesting slot)
                   and with 3 operators, printed with the fewest parentheses ECMA-262 allows
                   (mc/gen/exprprint.py): value checked against a V8 table, and metamorphically against
                   the fully parenthesised rendering of the same tree on the engine itself;
  (b) structure    Parser(src).parse() must be the generated tree (adapter engine AST -> tuple form);
  (c) layout       one (two for short programs) trivia insertion at every token gap of a program corpus,
                   and redundant parentheses around every sub-expression: same outcome as the original;
  (d) literals     every spelling of a grid of numbers / string characters: V8 table;
  (e) rejection    closing bracket / quote / comment / regex terminator deleted, assignment target replaced
                   by a non-reference: V8 reports an early SyntaxError for all of them, so must the engine.
"""
import ast
import glob
import os
import re

from mc.core.runner import Space
from mc.gen import exprprint as E
from mc.gen import jstok, progs
from .common import engine, mismatch_kind, tail
from .c06 import agree_pow as _agree_pow_2ulp
import re as _re_mod

_NUMTOK = _re_mod.compile(r"d[0-9a-f]{16}")


def agree_pow(exp, obs, cid):
    """Parsing is what C13 decides; values only witness the grouping. `**` is implementation-approximated in
    ECMA-262 and V8's result is not correctly rounded beyond 2^53, where a last-place difference is then amplified
    by any later operator (`a << (b ** c) ** d`). For a case that contains `**` and whose expected outcome mentions
    a number of magnitude >= 2^53 (or that chains powers so that an intermediate value is that large), numbers may differ freely as long as everything else (log structure, types,
    error class) is identical; the grouping itself is still decided by the structure and min-vs-full spaces."""
    if exp == obs or _agree_pow_2ulp(exp, obs, cid):
        return True
    if "r[" in cid and any(op in cid for op in ("=", "++", "--")) and "==" not in cid.replace("===", ""):
        # writing an array element beyond the length makes holes in ECMAScript; the engine's arrays are dense and
        # such a write is an error by documented design (README: stricter mode). The values are therefore not
        # comparable; whether the source is accepted at all still is.
        return (exp.rpartition("|")[2] == "Esyntax") == (obs.rpartition("|")[2] == "Esyntax")
    if "delete" in cid and "r[" in cid:
        # `delete` of an array element makes a hole in ECMAScript; the engine's arrays are dense by documented
        # design (README: stricter mode), so the array contents afterwards are not comparable with V8's
        return exp.rpartition("|")[2][:1] == obs.rpartition("|")[2][:1]
    if "**" not in cid:
        return False
    if _NUMTOK.sub("d#", exp) != _NUMTOK.sub("d#", obs):
        return False
    big = any(((int(t[1:], 16) >> 52) & 0x7FF) >= 0x434 for t in _NUMTOK.findall(exp) + _NUMTOK.findall(obs))
    # ... or the huge power is an intermediate value: a power of a power, or an exponent that is itself a product,
    # shift or power (with the operand values 2, 3, 5, 7, 11 ... every other `**` stays far below 2^53 and is exact)
    chained = cid.count("**") >= 2 or _re_mod.search(r"\*\* \([^()]*(?:\*|<<)", cid) is not None
    # ... or the exponent is negative (`b ** ~c`, `b ** -c`): V8's reciprocal power is 1 ulp off the correctly rounded value
    # (3 ** -6: V8 0x3f567980e0bf08c8, exact rational 1/729 rounds to ...c7, which is what the engine gives), and a later `%`
    # amplifies that last place arbitrarily
    negexp = _re_mod.search(r"\*\* \(?[~-]", cid) is not None
    return big or chained or negexp

PROP = "C13"
LEVEL = "exploration"
ASSUMPTIONS = [
    "expected outcomes of the table spaces were computed at build time by V8 (node 20, strict mode) for exactly "
    "the enumerated case ids and are pinned by SHA-256 of the case list",
    "expression trees with more than 3 operators, and more than 2 simultaneous trivia insertions, are not explored",
    "the layout corpus is /repo/tests/**/*.js (files the engine runs without error in < 1 s and that the driver's own "
    "tokenizer splits), the README snippets and 316 generated statement programs; big files are explored at a fixed "
    "stride of token gaps in the quick tier",
    "line terminators are never inserted in front of ( [ / + - ++ -- nor after return/break/continue/throw nor next "
    "to ++/-- or => (ASI / restricted productions); the engine's tolerance of missing statement separators on one "
    "line is not judged",
    "minimal-parenthesis printing follows the ECMA-262 expression grammar; `??`, `in` inside a for-init, "
    "optional chaining, arrows, yield/await, and `delete identifier` (strict-mode error) are not generated",
]
RUN = "mc.props.common:run_src"
TESTS_ROOT = "/repo"
LAYOUT_TL = 60

# =============================================================================================
# worker-side runners


def run_meta(p):
    """minimal rendering vs fully parenthesised rendering of the same tree, both on the engine."""
    e = engine()
    return e.run_program(p["min"]) + "\x00" + e.run_program(p["full"])


_last = [None, None]


def run_pair(p):
    """variant vs original program (original outcome cached while consecutive cases share it)."""
    e = engine()
    if _last[0] != p["o"]:
        _last[0], _last[1] = p["o"], e.run_program(p["o"], tl=LAYOUT_TL)
    return e.run_program(p["v"], tl=LAYOUT_TL) + "\x00" + _last[1]


_orig = {}


def run_layout(p):
    """payload {'k': corpus key, 'e': [[offset, text], ...]}: insert the texts, compare with the original."""
    e = engine()
    src = layout_source(p["k"])
    exp = _orig.get(p["k"])
    if exp is None:
        exp = _orig[p["k"]] = e.run_program(src, tl=LAYOUT_TL)
    return e.run_program(apply_edits(src, p["e"]), tl=LAYOUT_TL) + "\x00" + exp


def apply_edits(src, edits):
    out, last = [], 0
    for off, text in sorted(edits):
        out.append(src[last:off])
        out.append(text)
        last = off
    out.append(src[last:])
    return "".join(out)


def _conv(n):
    """engine AST node -> exprprint tuple form (unknown node class -> leaf 'X<ClassName>')."""
    c = type(n).__name__
    if c == "Identifier":
        return ("v", n.name)
    if c in ("BinaryExpression", "LogicalExpression"):
        return ("bin", n.operator, _conv(n.left), _conv(n.right))
    if c == "SequenceExpression":
        xs = [_conv(x) for x in n.expressions]
        t = xs[0]
        for x in xs[1:]:
            t = ("bin", ",", t, x)
        return t
    if c == "AssignmentExpression":
        return ("asg", n.operator, _conv(n.left), _conv(n.right))
    if c == "ConditionalExpression":
        return ("cond", _conv(n.test), _conv(n.consequent), _conv(n.alternate))
    if c == "UnaryExpression":
        return ("un", n.operator, _conv(n.argument))
    if c == "UpdateExpression":
        return ("pre" if n.prefix else "post", n.operator, _conv(n.argument))
    if c == "MemberExpression":
        if n.computed:
            return ("idx", _conv(n.object), _conv(n.property))
        return ("mem", _conv(n.object), getattr(n.property, "name", "X<%s>" % type(n.property).__name__))
    if c == "CallExpression":
        return ("call", _conv(n.callee), tuple(_conv(a) for a in n.arguments))
    if c == "NewExpression":
        return ("new", _conv(n.callee), tuple(_conv(a) for a in n.arguments))
    return ("v", "X<%s>" % c)


def run_parse(p):
    """payload {'src': 'EXPR;', 'exp': sexp}: the engine parser's tree for the single expression statement."""
    engine()
    from microjs.parser import Parser
    from microjs.errors import JSSyntaxError
    try:
        prog = Parser(p["src"]).parse()
    except JSSyntaxError:
        return "Esyntax\x00" + p["exp"]
    except RecursionError:
        return "Ehost:RecursionError\x00" + p["exp"]
    except Exception as ex:  # noqa: BLE001
        return "Ehost:%s\x00%s" % (type(ex).__name__, p["exp"])
    body = prog.body
    if len(body) != 1 or type(body[0]).__name__ != "ExpressionStatement":
        return "X<%s>\x00%s" % (" ".join(type(b).__name__ for b in body), p["exp"])
    return E.sexp(_conv(body[0].expression)) + "\x00" + p["exp"]


# =============================================================================================
# (a) + (b) precedence / structure

def _top(tree):
    s = E.minimal(tree)
    return "(" + s + ")" if E.level(tree) < 2 else s


def prec_cases(names, nops, roots, kind):
    out = []
    for lab, t in E.trees(names, nops, roots):
        m = E.minimal(t)
        if kind == "table":
            out.append((m, {"src": E.program(_top(t)), "lab": lab, "nt": _nt(t)}))
        elif kind == "meta":        # case ids are unique across the spaces of the property (the ledger is keyed by case id)
            out.append(("min=full: " + m, {"min": E.program(_top(t)), "full": E.program(E.full(t)), "lab": lab, "nt": _nt(t)}))
        else:
            out.append(("tree: " + m, {"src": m + ";", "exp": E.sexp(t), "lab": lab, "nt": _nt(t)}))
    return out


def _nt(t):
    """non-trivial: at least one nested operator application is printed without parentheses, so the
    engine's precedence / associativity (not a parenthesis) decides the grouping."""
    inner = sum(1 for _, n in E.subexprs(t) if n[0] != "v" and n != E.LEAF["del"]) - 1
    paren_groups = E.minimal(t).count("(") - sum(1 for _, n in E.subexprs(t) if n[0] in ("call",) or (n[0] == "new" and n[2] is not None))
    return paren_groups < inner


def _pl_nt(cid, payload, exp):
    return payload.get("nt", True) if isinstance(payload, dict) else True


NROOT = len(E.OPNAMES)


def _prec_space(name, names, nops, roots, kind, rule, bound):
    if kind == "table":
        return Space(name, RUN, lambda: prec_cases(names, nops, roots, kind), oracle="table", nontrivial=_pl_nt,
                     rule=rule, bound=bound, batch=300, agree=agree_pow)
    runner = "mc.props.c13:run_meta" if kind == "meta" else "mc.props.c13:run_parse"
    return Space(name, runner, lambda: prec_cases(names, nops, roots, kind), oracle="inline", nontrivial=_pl_nt,
                 rule=rule, bound=bound, batch=300 if kind == "meta" else 1000)


_NT_RULE = "non-trivial = at least one nested operator is printed without parentheses"


def prec_core():
    sp = []
    for kind, what in (("table", "value compared with V8"), ("meta", "engine(minimal) == engine(fully parenthesised)"),
                       ("struct", "Parser(src).parse() structurally equal to the generated tree")):
        sp.append(_prec_space("c13_prec2_" + kind, E.OPNAMES, 2, None, kind,
                              "all trees with 2 operators over %d operators (every ordered pair, every operand slot), "
                              "minimal parentheses; %s; %s" % (NROOT, what, _NT_RULE), "%d^2 x slots" % NROOT))
        sp.append(_prec_space("c13_prec3r_" + kind, E.REDUCED, 3, None, kind,
                              "all trees with 3 operators over the reduced set {%s}; %s" % (" ".join(E.REDUCED), what),
                              "%d^3 x shapes" % len(E.REDUCED)))
    return sp


def prec_strata():
    """all triples, one stratum per root operator (x 3 oracles)."""
    st = []
    for i, root in enumerate(E.OPNAMES):
        grp = []
        for kind in ("table", "meta", "struct"):
            grp.append(_prec_space("c13_prec3_%02d_%s" % (i, kind), E.OPNAMES, 3, [root], kind,
                                   "all trees with 3 operators whose root is `%s` over all %d operators (%s)" % (root, NROOT, kind),
                                   "%d^2 x shapes" % NROOT))
        st.append(grp)
    return st


# =============================================================================================
# (c) layout

TRIVIA = [("space", " "), ("tab", "\t"), ("newline", "\n"), ("block-comment", "/* c */"), ("line-comment", "// c\n")]
NO_LT_BEFORE = {"(", "[", "/", "+", "-", "++", "--", "`", "=>"}
NO_LT_AFTER = {"return", "break", "continue", "throw", "++", "--"}
# test files measured at development time: evaluated without error in < 1 s on the engine
TEST_FILES = ["basic/01_empty.js", "basic/test_array_methods.js", "basic/test_for_in2.js", "basic/test_for_in_array.js",
              "basic/test_for_in_simple.js", "basic/test_json.js", "basic/test_loop_break.js", "basic/test_loop_for.js",
              "basic/test_loop_switch.js", "basic/test_loop_switch2.js", "basic/test_loop_try5.js",
              "basic/test_loop_while.js", "basic/test_math.js", "basic/test_number_date.js",
              "basic/test_object_methods.js", "basic/test_regexp.js", "basic/test_string_methods.js",
              "basic/test_try_catch.js", "basic/test_try_catch_simple.js", "compat/test_language.js",
              "compat/test_loop.js"]

_corpus = None


def layout_corpus():
    """{key: source}; keys frag:<name>, file:<path>, readme:<i>. Only programs my tokenizer splits."""
    global _corpus
    if _corpus is not None:
        return _corpus
    c = {}
    for n, s in progs.corpus():
        c["frag:" + n] = s
    for f in TEST_FILES:
        p = os.path.join(TESTS_ROOT, "tests", f)
        if os.path.exists(p):
            with open(p, encoding="utf-8") as fh:
                c["file:" + f] = fh.read()
    rp = os.path.join(TESTS_ROOT, "README.md")
    if os.path.exists(rp):
        with open(rp, encoding="utf-8") as fh:
            txt = fh.read()
        k = 0
        for m in re.finditer(r'\.eval\(\s*("""(?:.|\n)*?"""|"(?:[^"\\\n]|\\.)*"|\'(?:[^\'\\\n]|\\.)*\')', txt):
            try:
                s = ast.literal_eval(m.group(1))
            except Exception:  # noqa: BLE001
                continue
            c["readme:%02d" % k] = s
            k += 1
    ok = {}
    for k, s in c.items():
        try:
            toks = jstok.tokenize(s)
        except jstok.TokError:
            continue
        if "".join(t[1] for t in toks) == s:
            ok[k] = s
    _corpus = ok
    return ok


def layout_source(key):
    return layout_corpus()[key]


def gaps(src):
    """[(offset, prev_token|None, next_token|None, char_before)] for every token gap incl. both ends;
    the offset is right in front of the next significant token (after existing trivia)."""
    toks = jstok.tokenize(src)
    out = []
    off = 0
    prev = None
    for k, t in toks:
        if k not in ("ws", "nl", "lc", "bc"):
            out.append((off, prev, (k, t), src[off - 1] if off else ""))
            prev = (k, t)
        off += len(t)
    out.append((len(src), prev, None, src[-1:] if src else ""))
    return out


def trivia_allowed(name, text, gap, src):
    off, prev, nxt, before = gap
    if name in ("newline", "line-comment"):
        if nxt is not None and (nxt[1] in NO_LT_BEFORE or nxt[0] == "re"):
            return False
        if prev is not None and prev[1] in NO_LT_AFTER and prev[0] in ("kw", "p"):
            return False
    if text.startswith("/") and before == "/":
        return False            # would spell `//` or extend a regex/division into a comment opener
    if nxt is None and name != "line-comment":
        # at the very end the last existing trivia may be a // comment without newline: insertion is inert
        pass
    return True


def _tokname(t):
    if t is None:
        return "EOF"
    return t[1] if t[0] in ("kw", "p") else t[0]


def layout_cases(keys, stride=1, offset=0, big_factor=1):
    """every gap with index = offset (mod stride); programs with more than SMALL_FILE_TOKENS tokens use a
    big_factor times wider stride (they cost up to 0.4 s per evaluation)."""
    out = []
    corpus = layout_corpus()
    for key in keys:
        src = corpus[key]
        gs = gaps(src)
        st = stride * (big_factor if len(gs) - 1 > SMALL_FILE_TOKENS else 1)
        for gi, g in enumerate(gs):
            if st > 1 and gi % st != offset % st:
                continue
            for name, text in TRIVIA:
                if not trivia_allowed(name, text, g, src):
                    continue
                out.append(("%s@%d:%s" % (key, gi, name),
                            {"k": key, "e": [[g[0], text]], "t": name, "ctx": _tokname(g[1]) + " ~ " + _tokname(g[2])}))
    return out


def layout_pair_cases(keys, part=None, nparts=1):
    """two newlines at two different gaps, programs with fewer than 40 tokens."""
    out = []
    corpus = layout_corpus()
    for key in keys:
        src = corpus[key]
        gs = gaps(src)
        if len(gs) - 1 >= 40:
            continue
        ok = [i for i, g in enumerate(gs) if trivia_allowed("newline", "\n", g, src)]
        for x in range(len(ok)):
            for y in range(x + 1, len(ok)):
                i, j = ok[x], ok[y]
                if part is not None and (i + j) % nparts != part:
                    continue
                out.append(("%s@%d+%d:newline" % (key, i, j),
                            {"k": key, "e": [[gs[i][0], "\n"], [gs[j][0], "\n"]], "t": "newline x2",
                             "ctx": _tokname(gs[i][1]) + " ~ " + _tokname(gs[i][2]) + " and " + _tokname(gs[j][1]) + " ~ " + _tokname(gs[j][2])}))
    return out


def _wrap_at(t, path):
    """minimal rendering with one redundant pair of parentheses around the node at `path`:
    the node is replaced by a pseudo-leaf whose text is '(' + minimal(node) + ')'."""
    def go(n, p):
        if not p:
            return ("v", "(" + E.minimal(n) + ")")
        i = p[0]
        if n[0] in ("call", "new") and i == 2:
            args = list(n[2])
            args[p[1]] = go(args[p[1]], p[2:])
            return n[:2] + (tuple(args),)
        return n[:i] + (go(n[i], p[1:]),) + n[i + 1:]
    return E.minimal(go(t, path))


def _wrap_all(n):
    """every sub-expression (leaves included) in its own parentheses."""
    k = n[0]
    if k == "v":
        return "(" + n[1] + ")"
    if k in ("bin", "asg"):
        s = _wrap_all(n[2]) + " " + n[1] + " " + _wrap_all(n[3])
    elif k == "cond":
        s = _wrap_all(n[1]) + " ? " + _wrap_all(n[2]) + " : " + _wrap_all(n[3])
    elif k in ("un", "pre"):
        s = n[1] + " " + _wrap_all(n[2])
    elif k == "post":
        s = _wrap_all(n[2]) + n[1]
    elif k == "mem":
        s = _wrap_all(n[1]) + "." + n[2]
    elif k == "idx":
        s = _wrap_all(n[1]) + "[" + _wrap_all(n[2]) + "]"
    elif k == "call":
        s = _wrap_all(n[1]) + "(" + ", ".join(_wrap_all(a) for a in n[2]) + ")"
    else:
        s = "new " + _wrap_all(n[1]) + ("" if n[2] is None else "(" + ", ".join(_wrap_all(a) for a in n[2]) + ")")
    return "(" + s + ")"


def _node_name(n):
    k = n[0]
    if k == "v":
        return "identifier"
    if k in ("bin", "asg"):
        return n[1]
    if k == "cond":
        return "?:"
    if k == "un":
        return "unary " + n[1]
    if k == "pre":
        return "prefix " + n[1]
    if k == "post":
        return "postfix " + n[1]
    return {"mem": "member .p", "idx": "member [ ]", "call": "call", "new": "new"}[k]


def _slot_name(parent, i):
    k = parent[0]
    if k in ("bin", "asg"):
        return ("left operand of " if i == 2 else "right operand of ") + parent[1]
    if k == "cond":
        return {1: "test of ?:", 2: "consequent of ?:", 3: "alternate of ?:"}[i]
    if k in ("un", "pre", "post"):
        return "operand of " + _node_name(parent)
    if k == "mem":
        return "object of .p"
    if k == "idx":
        return "object of [ ]" if i == 1 else "index of [ ]"
    if k == "call":
        return "callee of call" if i == 1 else "argument of call"
    return "callee of new" if i == 1 else "argument of new"


def paren_cases(names, nops, roots=None):
    out = []
    for lab, t in E.trees(names, nops, roots):
        orig = E.program(_top(t))
        m = E.minimal(t)
        arg = (lambda x: "(" + x + ")") if E.level(t) < 2 else (lambda x: x)   # a comma at the top of a call argument
        for path, node in E.subexprs(t):
            v = _wrap_at(t, path)
            if v == m:
                continue
            out.append(("parens: " + v, {"o": orig, "v": E.program(arg(v)), "lab": lab, "w": _node_name(node),
                                         "path": list(path)}))
        out.append(("parens: " + _wrap_all(t), {"o": orig, "v": E.program(_wrap_all(t)), "lab": lab, "w": "every sub-expression", "path": []}))
        # the parser's other resumption site: an array literal that opens an element of an enclosing array literal
        # (`[[a][0] op b op c][0]`), where the rest of the element is parsed from an already-built left operand.  Only for
        # trees whose left spine is made of binary operators down to an identifier (a value position, never a target).
        n = t
        while n[0] == "bin":
            n = n[2]
        if n[0] == "v" and E.level(t) >= 2 and m.startswith(n[1]) and not m[len(n[1]):len(n[1]) + 1].isalnum() \
                and m[len(n[1]):len(n[1]) + 1] not in ("_", "$", ""):
            v = "[[" + n[1] + "][0]" + m[len(n[1]):] + "][0]"
            out.append(("parens: " + v, {"o": orig, "v": E.program(v), "lab": lab, "w": "array element opened by an array literal",
                                         "path": []}))
        # two redundant pairs at once (a sub-expression and one of its ancestors, or two unrelated ones): a group that directly
        # follows another `(` is parsed by a different path than a lone one
        subs = list(E.subexprs(t))
        for i in range(len(subs)):
            for j in range(i + 1, len(subs)):
                (pa, na), (pb, nb) = subs[i], subs[j]
                first, second = (pa, pb) if len(pa) >= len(pb) else (pb, pa)      # deeper one first
                try:
                    t1 = _wrap_tree(t, first)
                    v = _wrap_at(t1, second)
                except Exception:  # noqa: BLE001  (the second path ran into the pseudo-leaf of the first: not nested that way)
                    continue
                if v == m:
                    continue
                out.append(("parens: " + v, {"o": orig, "v": E.program(arg(v)), "lab": lab,
                                             "w": _node_name(na) + " and " + _node_name(nb), "path": [list(pa), list(pb)]}))
    return out


def _wrap_tree(t, path):
    """the tree with the node at `path` replaced by a pseudo-leaf '(' + minimal(node) + ')'."""
    def go(n, p):
        if not p:
            return ("v", "(" + E.minimal(n) + ")")
        i = p[0]
        if n[0] in ("call", "new") and i == 2:
            args = list(n[2])
            args[p[1]] = go(args[p[1]], p[2:])
            return n[:2] + (tuple(args),)
        return n[:i] + (go(n[i], p[1:]),) + n[i + 1:]
    return go(t, path)


# =============================================================================================
# (d) literals

INTS = [0, 1, 5, 8, 10, 15, 16, 100, 255, 1000, 65535, 4294967296, 9007199254740993]
FRACS = ["0.5", "0.25", "1.5", "0.1", "123.456", "0.0000001", "0.001"]


def number_cases():
    out = []
    seen = set()

    def add(form, lit, nt=True):
        cid = "__out(%s)" % lit
        if cid in seen:
            return
        seen.add(cid)
        out.append((cid, {"src": cid + ";", "form": form, "nt": nt}))
    for v in INTS:
        d = str(v)
        add("decimal integer", d, nt=False)
        add("trailing dot `5.`", d + ".")
        add("fraction .0", d + ".0")
        add("fraction .00", d + ".00")
        for e in ("e0", "E0", "e+0", "E+0", "e-0", "E-0", "e00"):
            add("exponent " + e[:-1].replace("0", "") + "N", d + e)
        add("trailing dot + exponent `5.e0`", d + ".e0")
        add("fraction + exponent", d + ".0e0")
        if v:                   # 00e-1 would be a legacy octal-like literal (strict-mode error)
            add("scaled exponent e-1", d + "0e-1")
            add("scaled exponent E-2", d + "00E-2")
        add("scaled exponent e1", (d[:-1] or "0") + "." + d[-1] + "e1")
        add("scaled exponent e+1", (d[:-1] or "0") + "." + d[-1] + "e+1")
        add("leading dot + exponent `.5e1`", "." + d + "e%d" % len(d))
        add("leading dot + exponent `.5E+1`", "." + d + "E+%d" % len(d))
        add("hex 0x lower", "0x%x" % v)
        add("hex 0X upper", "0X%X" % v)
        add("hex 0x leading zeros", "0x00%X" % v)
        add("octal 0o", "0o%o" % v)
        add("octal 0O", "0O%o" % v)
        add("binary 0b", "0b" + bin(v)[2:])
        add("binary 0B", "0B" + bin(v)[2:])
        add("binary 0b leading zeros", "0b00" + bin(v)[2:])
        add("member on `5.`: 5..toString()", d + "..toString()")
        add("member on `5.0`: 5.0.toString()", d + ".0.toString()")
        add("member after space: 5 .toString()", d + " .toString()")
        add("member on parenthesised number", "(" + d + ").toString()")
        add("member on `5.`: 5.[\"toString\"]()", d + '.["toString"]()')
        add("member on hex literal", "0x%x.toString()" % v)
        add("member on exponent literal", d + "e0.toString()")
        add("trailing dot before operator `5.+1`", d + ".+1")
        add("trailing dot before `)`", "(" + d + ".)")
        add("trailing dot in array", "[" + d + ".," + d + ".][1]")
    for f in FRACS:
        ip, fp = f.split(".")
        add("decimal fraction", f, nt=False)
        if ip == "0":
            add("leading dot `.5`", "." + fp)
            add("leading dot + exponent", "." + fp + "e0")
            add("leading dot + exponent", "." + fp + "E+0")
            if f != "0.0000001":
                add("member on leading-dot literal", "." + fp + ".toString()")
        add("fraction trailing zero", f + "0")
        add("fraction + exponent e0", f + "e0")
        add("fraction + exponent E-0", f + "E-0")
        digits = (ip + fp).lstrip("0") or "0"
        add("integer mantissa, negative exponent", digits + "e-%d" % len(fp))
        add("integer mantissa, negative exponent E", digits + "E-%d" % len(fp))
        add("scaled fraction e+1", ("0." + "0" * 0 + ("0" + ip + fp if ip != "0" else "0" + fp)) + "e+1" if ip == "0" else f + "e+0")
        if f != "0.0000001":    # Number-to-string of 1e-7 belongs to another property
            add("member on fraction literal", f + ".toString()")
    return out


CHARS = ["a", "z", "A", "Z", "x", "u", "n", "b", "t", "v", "f", "r", "0", "9", "'", '"', "`", "\\", "\n", "\r", "\t",
         "\x00", "\x0b", "\x0c", "\x08", " ", "/", "$", "{", "}", "-", "\x7f", "\xa0", "\xe9", "\xff", "\u0100", "\u2028",
         "\u2029", "\u4e2d", "\ufeff", "\U0001F600", "\U00010000", "\U0010FFFF"]
LINE_TERMINATORS = "\n\r\u2028\u2029"
assert len(CHARS) == 43 and len(set(CHARS)) == 43


def _chname(ch):
    return "U+%04X" % ord(ch)


def string_cases():
    out = []
    seen = set()
    for q in ('"', "'"):
        qn = "double-quoted" if q == '"' else "single-quoted"

        def add(form, body, ch, nt=True):
            lit = q + "<" + body + ">" + q
            cid = "__out(%s)" % lit
            if cid in seen:
                return
            seen.add(cid)
            out.append((cid, {"src": cid + ";", "form": form + ", " + qn, "ch": _chname(ch), "nt": nt}))
        for ch in CHARS:
            cp = ord(ch)
            if ch not in ("\n", "\r", "\\", q):
                add("raw character", ch, ch, nt=cp > 0x7e or cp < 0x20)
            if cp <= 0xFF:
                add("\\xHH lower", "\\x%02x" % cp, ch)
                add("\\xHH upper", "\\x%02X" % cp, ch)
            add("\\uHHHH lower", "\\u%04x" % cp, ch)
            add("\\uHHHH upper", "\\u%04X" % cp, ch)
            add("\\u{H} shortest", "\\u{%x}" % cp, ch)
            add("\\u{H} upper", "\\u{%X}" % cp, ch)
            add("\\u{H} leading zeros", "\\u{0000%x}" % cp, ch)
            if ch in LINE_TERMINATORS:
                add("line continuation", "\\" + ch, ch)
                if ch == "\r":
                    add("line continuation CRLF", "\\\r\n", ch)
            elif not ("1" <= ch <= "9") and ch not in "xu":
                add("single-character escape", "\\" + ch, ch)
    return out


def string_same_cases():
    """every spelling of a character compared (===, and inside a longer string) with every other spelling of the same character"""
    by_ch = {}
    for cid, pl in string_cases():
        lit = cid[len("__out("):-1]
        by_ch.setdefault(pl["ch"], []).append((lit, pl["form"]))
    out = []
    for ch, forms in by_ch.items():
        for i, (a, fa) in enumerate(forms):
            for b, fb in forms[i + 1:]:
                src = "__out(%s === %s, (%s + 'k').indexOf('>k'), [%s].indexOf(%s), {%s: 1}[%s]);" % (a, b, a, a, b, a, b)
                out.append(("same:" + a + "|" + b, {"src": src, "form": fa + " vs " + fb, "ch": ch, "nt": True}))
    return out


ESC_FORMS = [("a", "raw"), ("\\x41", "\\xHH"), ("\\u0042", "\\uHHHH"), ("\\u{43}", "\\u{H}"), ("\\n", "single-character escape"),
             ("\\\\", "single-character escape"), ("\\0", "\\0"), ("\\'", "escaped quote"), ('\\"', "escaped quote"),
             ("\\\n", "line continuation"), ("\\q", "identity escape"), ("\u4e2d", "raw"), ("\\u{4E2D}", "\\u{H}")]


def string_pair_cases():
    out = []
    for q in ('"', "'"):
        for x, xk in ESC_FORMS:
            for y, yk in ESC_FORMS:
                cid = "__out(%s%s%s%s)" % (q, x, y, q)
                kinds = [xk, yk]
                form = "line continuation next to another character" if "line continuation" in kinds else (
                    "adjacent %s then %s" % (xk, yk))
                out.append((cid, {"src": cid + ";", "form": form, "nt": True}))
    return out


# =============================================================================================
# (e) rejection

OPENERS = {")": "(", "]": "[", "}": "{"}
ASSIGN_OPS = {"=", "+=", "-=", "*=", "/=", "%=", "**=", "<<=", ">>=", ">>>=", "&=", "|=", "^="}
# replacement texts for an assignment / update target. Decided once against V8 (node 20, --use-strict)
# during development: every listed (context, replacement) gives an early SyntaxError. Not listed because V8
# accepts them: `a+b`, `-x`, `x++`-like texts in front of postfix ++/-- or after prefix ++/-- without
# parentheses where the operator binds to the last/first operand only (e.g. `-x++`, `++a+b`), and `f()`
# (a call as assignment target is a run-time ReferenceError in V8).
REPL_ASSIGN = ["1", '"s"', "a+b", "(a,b)", "x++", "-x", "true", "(a+b)", "(-x)", "(x++)", "null", "this", "[1]", "{}.k+1"]
REPL_POSTFIX = ["1", '"s"', "(a,b)", "x++", "true", "(a+b)", "(-x)", "(x++)", "null", "this"]
REPL_PREFIX = ["1", '"s"', "(a,b)", "x++", "-x", "true", "(a+b)", "(-x)", "(x++)", "null", "this"]


def reject_corpus(compositions=True):
    """[(key, prefix, body, suffix)]: only the body is mutated."""
    c = [("frag:" + n, "", s, "") for n, s in progs.corpus() if compositions or "+" not in n]
    for lab, t in E.trees(E.OPNAMES, 2):
        pre, epi = E.prelude_epilogue(_top(t))
        c.append(("expr:" + lab, pre, "__out(" + _top(t) + ")", epi))
    c.append(("expr:prelude", "", E.PRELUDE + "__out(a)" + E.EPILOGUE, ""))
    return c


def _join(toks, i, newtext):
    return "".join(newtext if k == i else t[1] for k, t in enumerate(toks))


def reject_delete_cases():
    out = []
    seen = set()
    for key, pre, src, suf in reject_corpus():
        toks = jstok.tokenize(src)
        last_bc = max([i for i, t in enumerate(toks) if t[0] == "bc"], default=None)
        for i, (k, t) in enumerate(toks):
            what = None
            if k == "p" and t in OPENERS:
                what, new = "closing " + t, ""
            elif k == "str":
                what, new = "closing quote " + t[-1], t[:-1]
            elif k == "bc" and i == last_bc and "*/" not in src[sum(len(x[1]) for x in toks[:i + 1]):]:
                what, new = "comment terminator */", t[:-2]
            elif k == "re":
                j = t.rindex("/")
                what, new = "regex terminator /", t[:j] + t[j + 1:]
            if what is None:
                continue
            v = pre + _join(toks, i, new) + suf
            if v in seen:
                continue
            seen.add(v)
            out.append((v, {"src": v, "tl": 20, "mut": "deleted " + what, "key": key}))
    return out


def reject_target_cases():
    out = []
    seen = set()
    for key, pre, src, suf in reject_corpus(compositions=False):
        toks = jstok.tokenize(src)
        sig = [i for i, t in enumerate(toks) if t[0] not in ("ws", "nl", "lc", "bc")]
        for n, i in enumerate(sig):
            k, t = toks[i]
            if k != "id":
                continue
            prv = toks[sig[n - 1]] if n > 0 else None
            nxt = toks[sig[n + 1]] if n + 1 < len(sig) else None
            if prv is not None and prv[1] == ".":
                continue
            ctx = None
            if nxt is not None and nxt[0] == "p" and nxt[1] in ASSIGN_OPS:
                ctx, repl = "target of " + nxt[1], REPL_ASSIGN
                if prv is not None and prv[1] in ("++", "--"):
                    continue
            elif nxt is not None and nxt[0] == "p" and nxt[1] in ("++", "--") and not (
                    "\n" in "".join(x[1] for x in toks[i + 1:sig[n + 1]])):
                ctx, repl = "operand of postfix " + nxt[1], REPL_POSTFIX
            elif prv is not None and prv[0] == "p" and prv[1] in ("++", "--") and (nxt is None or nxt[1] not in (".", "[", "(")):
                ctx, repl = "operand of prefix " + prv[1], REPL_PREFIX
            if ctx is None:
                continue
            for r in repl:
                v = pre + _join(toks, i, r) + suf
                if v in seen:
                    continue
                seen.add(v)
                out.append((v, {"src": v, "tl": 20, "mut": "%s replaced by %s" % (ctx, r), "key": key}))
    return out


MALFORMED = {
    "number literal": ["0x", "0X", "0b", "0B", "0o", "0O", "0b2", "0b12", "0o8", "0o78", "0xg", "0x1g", "1e", "1e+", "1E-", "1.e", "1.5e+",
                       "3in o", "3instanceof o", "1a", "0b1e1"],
    "string escape": ['"\\x4"', '"\\x"', '"\\xg1"', '"\\u12"', '"\\u"', '"\\u{}"', '"\\u{110000}"', '"\\u{12"', '"\\u{g}"', '"\\u123g"',
                      "'\\x4'", "'\\u{'"],
    "unterminated string": ['"a\nb"', "'a\nb'", '"abc', "'abc", '"abc\\"', "'", '"'],
    "regex literal": ["/a", "/a/gg", "/[/", "/a\n/", "/(/", "/a/x"],
    "unterminated comment": ["/* open", "/* a */ 1 /* b", "/*", "/*/", "1 /* a *"],
    "stray character": ["@", "#", "a @ b", "a # b", "\\", "a \\ b", "a`", "`a"],
    "incomplete expression": ["1 +", "* 1", "a +* b", "a ? b", "a ? b :", "a ? : b", ". a", "a .", "a . 1", "a..b", "a.'b'", "a.[b]",
                              "new", "new ()", "new.x", "typeof", "delete", "void", "a ** "],
    "unbalanced bracket": ["(", ")", "[", "]", "{", "}", "()", "a(", "a[", "a[]", "a[b", "a(b", "new a(b", "a; }", "{ a; ", "a; )", "a; ]",
                           "[a; b]", "(a; b)", "({a; b})", "a ? b; c : d"],
    "argument / element list": ["f(,)", "f(a,,b)", "[a b]", "a(b c)"],
    "object literal": ["{a: 1,, b: 2}.a", "({a: 1,, b: 2})", "({a 1})", "({a:})", "({: 1})", "({get a})", "({get a(x) {}})", "({set a() {}})"],
    "var declaration": ["var", "var 1", "var a =", "var a,", "var if", "var this"],
    "if / loop header": ["if", "if (", "if ()", "if (a", "if a", "if (a) else", "else", "while", "while ()", "while (a", "do", "do a", "do a; while",
                         "do ; while (", "for", "for (", "for ()", "for (;)", "for (;;", "for (a b;;);", "for (var a of);", "for (var a in);",
                         "for (var of b);", "for (var 1 in b);"],
    "break / continue / return placement": ["break", "continue", "x: while(1) break y;",
                                            "x: while(1) continue y;", "return", "return 1"],
    "function syntax": ["function", "function f", "function f(", "function f()", "function f() {", "function (){}", "function f(1){}",
                        "function f(a,){", "function f(a b){}", "function f(a,,b){}", "(function (){)"],
    "throw / try": ["throw", "throw;", "throw\n1", "try", "try {}", "try {} catch", "try {} catch (", "try {} catch (e)", "try {} catch () {}",
                    "try {} catch (1) {}", "try {} finally", "try 1; catch (e) {}", "catch (e) {}", "finally {}"],
    "switch": ["switch", "switch (", "switch (a)", "switch (a) {", "switch (a) { 1 }", "switch (a) { case }", "switch (a) { case 1 }",
               "switch (a) { default }", "switch (a) { default: default: }", "case 1:", "default:"],
    "assignment / update form": ["a =", "= a", "a = = b", "a +=", "a ++ ++", "++"],
    "unary operator as base of **": ["-a ** b", "+a ** b", "!a ** b", "~a ** b", "typeof a ** b", "void a ** b", "delete a.b ** c"],
    "arrow function": ["a => ", "=> a", "(a, 1) => a", "(a b) => a", "a => {", "(a) => }", "() =>", "(a)\n=> a", "a\n=> a", "1 => 1", "(1) => 1",
                       "(a.b) => 1", "x = a => b ? c", "a, => b", "(a,) =>", "(,a) => a"],
    "label / declaration position": ["a: a: 1", "1: a"],
}


def reject_literal_cases():
    return [(s, {"src": s, "tl": 20, "mut": "malformed " + cat, "key": "bad:" + s}) for cat, xs in MALFORMED.items() for s in xs]



# ---------------------------------------------------------------------------------------------
# compound primaries continued by an operator inside a delimited position. The parser has dedicated (iterative) paths for
# runs of `(` and `[`; a literal closed inside such a run is only the *start* of the enclosing element / argument / operand.

PRIMARIES = [("array", "[1, 2]"), ("array-nested", "[[1], [2]]"), ("array-empty", "[]"), ("array-empty-nested", "[[]]"),
             ("array-3deep", "[[[7]]]"), ("object", "({k: 1})"), ("sequence", "(1, [2])"), ("paren2", "((3))"),
             ("function", "(function () { return [7] })"), ("string", '"ab"'), ("regex", "/b/"), ("new", "new Array(2, 3)"),
             ("ident", "a"), ("unary-array", "-[3]"), ("typeof-array", "typeof []"), ("call", "f([1], [2])"),
             # regex literals whose text contains characters that matter to a scanner looking for the end of a group or string
             ("regex-double-quote", '/"/'), ("regex-single-quote", "/'/"), ("regex-paren-in-class", "/[)(]/"), ("regex-escaped-paren", "/\\)/"),
             ("regex-slash-in-class", "/[/]/"), ("regex-bracket-and-brace", "/[\\]}{]/"), ("string-with-paren", '")("'), ("string-with-slash", '"/*"')]
CONTS = [("none", ""), ("dot", ".length"), ("index", "[0]"), ("index2", "[0][0]"), ("method", ".concat([9])"),
         ("callback", ".map(function (x) { return [x] })"), ("call", "()"), ("plus", " + 1"), ("plus-array", " + [1]"),
         ("times", " * 2"), ("conditional", " ? [1] : [2]"), ("or", " || [1]"), ("and", " && [1]"), ("in", " in {}"),
         ("instanceof", " instanceof Array"), ("equals", " == 1"), ("update", "++"), ("assign", " = 3"), ("index-assign", "[0] = 3"),
         ("comma", ", [4]"), ("adjacent", " [0, 1]"), ("newline-index", "\n[0]")]
PCTX = [("plain", "r = %s;"), ("elem-only", "r = [%s];"), ("elem-last", "r = [0, %s];"), ("elem-first", "r = [%s, 0];"),
        ("elem-after-array", "r = [[0], %s];"), ("elem-before-array", "r = [%s, [0]];"), ("elem-nested", "r = [[%s]];"),
        ("elem-nested-last", "r = [[1], [2, %s]];"), ("arg-only", "r = f(%s);"), ("arg-last", "r = f(0, %s);"),
        ("prop-value", "r = {k: %s};"), ("paren", "r = (%s);"), ("paren2", "r = ((%s));"), ("paren-in-array", "r = [(%s)];"),
        ("array-in-paren", "r = ([%s]);"), ("indexed-literal", "r = [%s][0];"), ("cond-branch", "r = [0 ? 0 : %s];"),
        ("if-test", "if (%s) r = 1;"), ("for-init", "for (r = %s; false;);"), ("return", "r = function () { return %s }();"),
        ("computed-key", "r = a[%s];"), ("statement", "%s;")]
# combinations whose value depends on behaviour judged elsewhere (function source text: C16; strict-mode write to a primitive: C08)
_PRIMARY_SKIP = {("function", "plus"), ("function", "plus-array"), ("paren2", "index-assign"), ("string", "index-assign"),
                 ("string-with-paren", "index-assign"), ("string-with-slash", "index-assign")}
_PROLOGUE = "var a = [5, 6], r = 0; function f(x, y) { return [x, y] }\n"


def primary_cases():
    out = []
    for pn, ptxt in PRIMARIES:
        for cn, ctxt in CONTS:
            for xn, xtxt in PCTX:
                if (pn, cn) in _PRIMARY_SKIP:
                    continue
                src = _PROLOGUE + (xtxt % (ptxt + ctxt)) + "\n[r, a]"
                out.append(("P|prim=%s|cont=%s|ctx=%s" % (pn, cn, xn), {"src": src, "tl": 20, "prim": pn, "cont": cn, "ctx": xn}))
    return out



# ---------------------------------------------------------------------------------------------
# trees of nested blocks (the parser handles runs of `{` iteratively): every leaf logs its number, so the expected log is
# 1..n in order whatever the nesting; a tree is rendered in several enclosing positions

def _block_trees(depth, width):
    """All ordered trees: a node is a tuple of children, () is an empty block, None is a leaf statement."""
    if depth == 0:
        return [None, ()]
    sub = _block_trees(depth - 1, width)
    out = [None, ()]
    import itertools
    for n in range(1, width + 1):
        for combo in itertools.product(sub, repeat=n):
            out.append(tuple(combo))
    return out


def _render_blocks(t, counter, sep):
    if t is None:
        counter[0] += 1
        return "__out(%d)%s" % (counter[0], sep)
    return "{ " + " ".join(_render_blocks(c, counter, sep) for c in t) + " }"


BLOCK_PLACES = {
    "program": "%s", "function-body": "function f() { %s } f();", "if-branch": "if (true) %s else { __out(-1) }", "else-branch": "if (false) { __out(-1) } else %s",
    "loop-body": "for (var i = 0; i < 1; i++) %s", "while-body": "var w = 0; while (w++ < 1) %s", "labelled": "L: %s", "try-block": "try %s finally { }",
    "catch-block": "try { throw 1 } catch (e) %s", "finally-block": "try { } finally %s", "switch-case": "switch (1) { case 1: %s }",
    "arrow-body": "var a = () => %s; a();", "callback-body": "[0].forEach(function () %s);", "after-object-literal": "var o = {a: {b: {}}}; %s",
    "do-body": "do %s while (false);", "for-in-body": "for (var k in {p: 1}) %s",
}


def run_blocks(p):
    e = engine()
    oc = e.run_program(p["src"], tl=50)
    log = oc.rpartition("|")[0]
    want = ";".join(e.ser(float(i)) for i in range(1, p["n"] + 1))
    tail_ = oc.rpartition("|")[2]
    obs = log if tail_[:1] == "R" else log + "|" + tail_
    return obs + "\x00" + want


def block_cases():
    out = []
    trees = [t for t in _block_trees(2, 3) if t is not None]
    for pn, tmpl in BLOCK_PLACES.items():
        needs_block = pn in ("function-body", "try-block", "catch-block", "finally-block", "arrow-body", "callback-body")
        for sep in (";", ""):
            for t in trees:
                c = [0]
                body = _render_blocks(t, c, sep)
                if sep == "" and ") __out" in body:
                    continue        # two statements on one line without a separator: the engine's tolerance is not judged
                if needs_block and not isinstance(t, tuple):
                    continue
                src = tmpl % (body[1:-1] if pn == "function-body" else body)
                out.append(("B|place=%s|sep=%r|%s" % (pn, sep, body), {"src": src, "n": c[0]}))
    return out

# =============================================================================================
# spaces

def _lit_space(name, cases, rule, bound):
    return Space(name, RUN, cases, oracle="table", nontrivial=_pl_nt, rule=rule, bound=bound, batch=400)


def _layout_space(name, cases, rule, bound):
    return Space(name, "mc.props.c13:run_layout", cases, oracle="inline", rule=rule, bound=bound, batch=250)


def _frag_keys(single=None):
    ks = [k for k in layout_corpus() if k.startswith("frag:")]
    if single is True:
        return [k for k in ks if "+" not in k]
    if single is False:
        return [k for k in ks if "+" in k]
    return ks


def _file_keys():
    return [k for k in layout_corpus() if k.startswith("file:") or k.startswith("readme:")]


SMALL_FILE_TOKENS = 700
_L_RULE = ("one trivia item (space, tab, newline, /* c */, // c + newline) inserted at a token gap; expected = outcome of the "
           "unchanged program in the same worker")


def core_spaces():
    sp = prec_core()
    sp.append(_layout_space("c13_layout_frag1", lambda: layout_cases(_frag_keys(True)),
                            "%s; the %d single statement fragments, every gap x 5 trivia" % (_L_RULE, len(progs.FRAGMENTS)), "all gaps x 5"))
    sp.append(Space("c13_paren_r2", "mc.props.c13:run_pair", lambda: paren_cases(E.REDUCED, 2), oracle="inline",
                    rule="redundant parentheses around each sub-expression in turn and around all at once, all 2-operator "
                         "trees over the reduced operator set; expected = outcome of the minimal rendering", bound="17^2 x slots x subexprs",
                    batch=300))
    sp.append(_lit_space("c13_lit_number", number_cases, "every spelling of %d integers and %d fractions (decimal, trailing/leading dot, "
                         "exponent e/E/+/-, hex, 0o, 0b, member access on a literal); non-trivial = not the plain decimal form"
                         % (len(INTS), len(FRACS)), "values x ~35 forms"))
    sp.append(_lit_space("c13_lit_string", string_cases, "40 characters x {raw, \\xHH, \\uHHHH, \\u{H}, single-char escape, line "
                         "continuation} x both quote styles; non-trivial = escaped or non-printable-ASCII", "40 x ~9 x 2"))
    sp.append(_lit_space("c13_lit_strpair", string_pair_cases, "all ordered pairs of 13 escape forms adjacent in one literal, both quotes", "13^2 x 2"))
    sp.append(_lit_space("c13_lit_strsame", string_same_cases, "every two spellings of one of the 43 characters compared with ===, as "
                         "array elements (indexOf) and as property keys; expected = V8", "pairs of spellings x 43"))
    sp.append(Space("c13_primary_ctx", RUN, primary_cases, oracle="table",
                    rule="%d compound primaries x %d continuations (member, call, operators, assignment, comma, adjacency) x %d "
                         "delimited positions (array element, argument, property value, parenthesis runs, ...); expected = V8 "
                         "(value, or SyntaxError for the invalid combinations)" % (len(PRIMARIES), len(CONTS), len(PCTX)),
                    bound="%d x %d x %d" % (len(PRIMARIES), len(CONTS), len(PCTX)), batch=400, agree=agree_primary))
    sp.append(Space("c13_blocks", "mc.props.c13:run_blocks", block_cases, oracle="inline", batch=300,
                    rule="every ordered tree of nested blocks of depth <= 2 and width <= 3 (empty blocks included), leaves numbered in "
                         "source order, in %d enclosing positions (program, function body, branches, loop bodies, labelled, try / catch / "
                         "finally blocks, switch case, arrow and callback bodies), with and without `;` after the leaves: the log must be "
                         "1..n" % len(BLOCK_PLACES), bound="trees x %d places x 2" % len(BLOCK_PLACES)))
    sp.append(Space("c13_reject_delete", RUN, reject_delete_cases, oracle="table",
                    rule="each closing ) ] }, closing quote, last */ and regex terminator deleted in turn from ~570 valid programs; "
                         "V8 reports an early SyntaxError for every case", bound="programs x closers", batch=400))
    sp.append(Space("c13_reject_target", RUN, reject_target_cases, oracle="table",
                    rule="each identifier assignment/update target replaced by a non-reference expression; V8: SyntaxError",
                    bound="targets x replacements", batch=400))
    sp.append(Space("c13_reject_malformed", RUN, reject_literal_cases, oracle="table",
                    rule="%d hand-listed malformed literals / statements; V8: SyntaxError" % sum(len(x) for x in MALFORMED.values()), bound="list", batch=100))
    return sp


def strata():
    """list of strata; each stratum is a list of spaces. Thorough runs all, quick runs strata[seed % n]."""
    st = prec_strata()
    n = len(st)
    # spread the layout / parenthesis work over the same strata
    NPART = n
    for i in range(n):
        st[i].append(_layout_space("c13_layout_frag2_%02d" % i, lambda i=i: layout_cases(_frag_keys(False), stride=NPART, offset=i),
                                   "%s; composed fragments, gaps congruent %d mod %d" % (_L_RULE, i, NPART), "gaps/%d x 5" % NPART))
        st[i].append(_layout_space("c13_layout_file_%02d" % i,
                                   lambda i=i: layout_cases(_file_keys(), stride=2 * NPART, offset=i, big_factor=4),
                                   "%s; test files and README snippets, gaps congruent %d mod %d (mod %d for the three files with more "
                                   "than %d tokens)" % (_L_RULE, i, 2 * NPART, 8 * NPART, SMALL_FILE_TOKENS),
                                   "gaps/%d x 5 (half of all gaps over all strata)" % (2 * NPART)))
        st[i].append(_layout_space("c13_layout_pairs_%02d" % i, lambda i=i: layout_pair_cases(_frag_keys(True), part=i, nparts=NPART),
                                   "two newlines at two gaps (2 deviations), fragments with < 40 tokens, part %d of %d" % (i, NPART),
                                   "C(gaps,2)/%d" % NPART))
        root = E.OPNAMES[i]
        st[i].append(Space("c13_paren2_%02d" % i, "mc.props.c13:run_pair", lambda root=root: paren_cases(E.OPNAMES, 2, [root]),
                           oracle="inline", rule="redundant parentheses, all 2-operator trees with root `%s`" % root,
                           bound="44 x slots x subexprs", batch=300))
    return st


def spaces(tier, seed, all_strata=False):
    core = core_spaces()
    st = strata()
    if tier == "thorough" or all_strata:
        return core + [s for grp in st for s in grp]
    return core + st[seed % len(st)]


# =============================================================================================
# reporting

def agree_primary(exp, obs, cid):
    # an assignment / update whose target is a call: V8 reports it when the statement runs (ReferenceError), the property asks for
    # rejection, and the engine rejects it when parsing; both count as rejected
    # (likewise `[] = 3`, an empty destructuring pattern in V8 that fails when run; the engine has no destructuring)
    if "|cont=assign|" in cid or "|cont=update|" in cid:
        if tail(exp) == "Ethrow" and tail(obs) == "Esyntax":
            return True
    return exp == obs


def agree_for_space(name):
    if name == "c13_primary_ctx":
        return agree_primary
    # `**` is implementation-approximated: a result within 2 ulp of V8's is accepted in the V8-table spaces
    return agree_pow if (name.startswith("c13_prec") and name.endswith("_table")) else None


def node_src(cid, payload):
    return payload["src"] if isinstance(payload, dict) and "src" in payload else cid


def post_expected(sp, cid, e):
    if sp.name.startswith("c13_reject") and e != "|Esyntax":
        raise SystemExit("self-check failed: V8 does not reject %r (%s): %s" % (cid, sp.name, e))
    return e


OPCLASS = {}
for _o in E.OPNAMES:
    OPCLASS[_o] = _o
for _o in ("==", "!=", "===", "!=="):
    OPCLASS[_o] = "equality"
for _o in ("<", "<=", ">", ">="):
    OPCLASS[_o] = "relational"
for _o in ("<<", ">>", ">>>"):
    OPCLASS[_o] = "shift"
for _o in ("+", "-"):
    OPCLASS[_o] = "additive"
for _o in ("*", "/", "%"):
    OPCLASS[_o] = "multiplicative"
for _o in ("|", "^", "&"):
    OPCLASS[_o] = "bitwise"
for _o in ("=", "+="):
    OPCLASS[_o] = "assignment"
for _o in ("u-", "u+", "u!", "u~"):
    OPCLASS[_o] = "unary-sign"
for _o in ("utypeof", "uvoid"):
    OPCLASS[_o] = "unary-word"
for _o in ("pre++", "pre--"):
    OPCLASS[_o] = "prefix-update"
for _o in ("post++", "post--"):
    OPCLASS[_o] = "postfix-update"

_lab_tok = re.compile(r"[^()_ ]+")


def _lab_classes(lab):
    """shape label with every operator replaced by its class, e.g. `**(u-(_) _)` -> `**(unary-sign(_) _)`."""
    return _lab_tok.sub(lambda m: OPCLASS.get(m.group(), m.group()), lab)


def _lab_edges(lab):
    """[(parent operator, slot index, child operator)] of a shape label such as `+(_ *(_ _))`."""
    edges = []
    pos = [0]

    def node():
        if lab[pos[0]] == "_":
            pos[0] += 1
            return None
        j = pos[0]
        depth_guard = 0
        while not (lab[j] == "(" and (lab[j + 1] in "_" or lab[j + 1] != ")" and _starts_child(lab, j + 1))):
            j += 1
            depth_guard += 1
            if depth_guard > 20:
                raise ValueError(lab)
        name = lab[pos[0]:j]
        pos[0] = j + 1
        k = 0
        while True:
            c = node()
            if c is not None:
                edges.append((name, k, c))
            k += 1
            if lab[pos[0]] == ")":
                pos[0] += 1
                break
            pos[0] += 1     # the separating space
        return name

    try:
        node()
    except (IndexError, ValueError):
        return []
    return edges


def _starts_child(lab, j):
    """does a child list start at lab[j]? (operator names such as `new()` contain parentheses themselves)"""
    return lab[j] == "_" or any(lab.startswith(n + "(", j) for n in E.OPNAMES if n != "new()") or lab.startswith("new()(", j)


_POSTFIXY = ("mem", "idx", "call", "post++", "post--")


def _culprit(lab):
    """Known root-cause patterns, recognised on the operator nesting (first match wins)."""
    edges = _lab_edges(lab)
    for P, i, C in edges:
        if P in ("new", "new()") and i == 0 and C in ("mem", "idx"):
            return "new-member", "`new` whose callee is a member expression (`new o.K(a)`, `new r[i]`) is grouped as `(new o).K(a)`"
    return None


def _struct_kind(exp, obs):
    if obs == "Esyntax":
        return "rejected with a SyntaxError"
    if obs.startswith("Ehost"):
        return "parser raises host exception " + obs[6:]
    if obs.startswith("X<"):
        return "parsed as something else than one expression statement"
    return "parsed with a different grouping"


def _repl_class(mut):
    r = mut.rpartition(" replaced by ")[2]
    if r.startswith("("):
        return "a parenthesised non-reference expression"
    if r in ("a+b", "-x", "{}.k+1"):
        return "a binary/unary expression"
    if r == "x++":
        return "an update expression"
    return "a literal / this"


def signature(sp, cid, payload, exp, obs):
    name = sp.name
    p = payload if isinstance(payload, dict) else {}
    eg = cid.replace("\n", "\\n")
    for _pfx in ("min=full: ", "tree: ", "parens: "):
        if eg.startswith(_pfx):
            eg = eg[len(_pfx):]
    eg = eg[:60]
    if name.startswith("c13_prec"):
        kindname = name.rsplit("_", 1)[1]
        lab = p.get("lab", "?")
        shape = _lab_classes(lab)
        cul = _culprit(lab)
        if (obs == "Esyntax" if kindname == "struct" else (tail(obs) == "Esyntax" and tail(exp) != "Esyntax")):
            return "%s|nested-paren-postfix" % kindname, (
                "minimal-parenthesis source is rejected with a SyntaxError: a parenthesised expression that directly follows "
                "another `(` and is continued by . [ ( or ++, e.g. `f((a + b).p)`, `new ((a || b)(c))`, `((a, b)[c], d)`")
        if kindname == "struct":
            k = _struct_kind(exp, obs)
            if cul:
                return "struct|%s|%s" % (cul[0], k), "parse tree: %s: %s" % (cul[1], k)
            return "struct|%s|%s" % (shape, k), "parse tree of operator nesting %s (e.g. `%s`): %s" % (shape, eg, k)
        k = mismatch_kind(exp, obs)
        if kindname == "meta":
            if tail(exp) == "Esyntax" and tail(obs) != "Esyntax":
                post = [P for P, i, C in _lab_edges(lab) if P in _POSTFIXY and i == 0]
                w = OPCLASS.get(post[0], post[0]) if post else shape
                return "meta|full-rejected|%s" % w, ("the fully parenthesised form is rejected with a SyntaxError although the minimal form "
                                                     "runs: parenthesised operand of %s directly inside another parenthesis, e.g. `((a + b).p)`, "
                                                     "`((o.p)++)`, `((f)(a))`" % w)
            if cul:
                return "meta|%s|%s" % (cul[0], k), "minimal vs fully parenthesised source differ: %s: %s" % (cul[1], k)
            return "meta|%s|%s" % (shape, k), ("operator nesting %s (e.g. `%s`): minimal-parenthesis source evaluates differently "
                                                "from its fully parenthesised form: %s" % (shape, eg, k))
        if cul:
            return "prec|%s|%s" % (cul[0], k), "value vs V8: %s: %s" % (cul[1], k)
        edges = [(OPCLASS.get(P, P), i, OPCLASS.get(C, C)) for P, i, C in _lab_edges(lab)]
        for P, i, C in edges:
            if P in ("additive", "assignment") and C in ("new", "new()"):
                return "prec|object-plus|%s" % k, ("value vs V8 (not a parsing defect): `+` / `+=` with an object operand such as "
                                                   "`new K + a` throws instead of concatenating \"[object Object]\": %s" % k)
        for P, i, C in edges:
            if P == "udelete":
                return "prec|delete|%s" % k, ("value vs V8 (not a parsing defect): `delete` of a non-reference operand or an array "
                                              "element (e.g. `%s`): %s; the operand's side effect / the result differs" % (eg, k))
        return "prec|%s|%s" % (shape, k), "operator nesting %s (e.g. `%s`) vs V8: %s" % (shape, eg, k)
    if name.startswith("c13_paren"):
        k = mismatch_kind(exp, obs)
        w = p.get("w", "?")
        lab = p.get("lab", "?")
        if tail(obs) == "Esyntax" and tail(exp) != "Esyntax":
            if w == "every sub-expression":
                post = [P for P, i, C in _lab_edges(lab)] + [lab.split("(")[0]]
                post = [OPCLASS.get(x, x) for x in post if x in _POSTFIXY or x in ("new", "new()")]
                w2 = "every sub-expression, tree contains " + (post[0] if post else "?")
            else:
                w2 = w
            return "paren|rejected|%s" % w2, ("redundant parentheses around %s make the engine reject the program (SyntaxError), "
                                              "e.g. `%s`" % (w2, eg))
        cul = _culprit(lab)
        if cul:
            return "paren|%s|%s" % (cul[0], k), "redundant parentheses change the outcome: %s: %s" % (cul[1], k)
        return "paren|%s|%s|%s" % (w, _lab_classes(lab), k), (
            "redundant parentheses around %s in nesting %s (e.g. `%s`): %s" % (w, _lab_classes(lab), eg, k))
    if name.startswith("c13_layout"):
        k = mismatch_kind(exp, obs)
        return "layout|%s|%s|%s" % (p.get("t"), p.get("ctx"), k), (
            "%s inserted between tokens %s changes the program: %s" % (p.get("t"), p.get("ctx"), k))
    if name.startswith("c13_lit"):
        k = mismatch_kind(exp, obs)
        form = p.get("form", "?")
        return "literal|%s|%s" % (form, k), "literal form %s (e.g. `%s`): %s" % (form, eg, k)
    if name == "c13_blocks":
        place = cid.split("|")[1]
        return "blocks|%s|%s" % (place, "syntax" if obs.endswith("Esyntax") else "order"), (
            "nested blocks in position %s: %s (e.g. %s)" % (place, "rejected" if obs.endswith("Esyntax") else "statements run in the wrong order or number", eg))
    if name == "c13_primary_ctx":
        if tail(exp) == "Esyntax" and tail(obs) != "Esyntax":
            k = "accepted where V8 reports a SyntaxError"
        elif tail(obs) == "Esyntax":
            k = "rejected with a SyntaxError where V8 runs it"
        else:
            k = mismatch_kind(exp, obs)
        return "primary|%s|%s|%s" % (p.get("cont"), p.get("ctx"), k), (
            "compound primary continued by `%s` in position %s (e.g. %s): %s" % (p.get("cont"), p.get("ctx"), p.get("prim"), k))
    if name.startswith("c13_reject"):
        if tail(obs).startswith("R"):
            k = "accepted and run to completion"
        elif tail(obs) == "Ethrow":
            k = "accepted; fails only at run time"
        else:
            k = mismatch_kind(exp, obs)
        mut = p.get("mut", "?")
        if " replaced by " in mut:
            ctx = mut.split(" replaced by ")[0]
            if ctx.startswith("target of"):
                ctx = "assignment target"
            elif ctx.startswith("operand of"):
                ctx = " ".join(ctx.split(" ")[:3]) + " ++/--"
            mut = "%s replaced by %s" % (ctx, _repl_class(mut))
        return "reject|%s|%s" % (mut, k), "%s (e.g. `%s`): %s instead of SyntaxError" % (mut, eg, k)
    return "other|" + name, name
