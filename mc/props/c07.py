"""C07  Exceptions unwind to the right handler; finally runs exactly once.

E1 (bounded exhaustive grammar):
  A  throw sites x handler placement x expression context x handler form x tail      (V8 table)
  B  try shapes {try exit} x {catch exit} x {finally exit} x {enclosing}, nested two deep (V8 table)
  C  shift invariance of reported error locations (metamorphic, inline oracle)
"""
import re
import struct

from mc.core.runner import Space
from mc.gen import tryshapes as G
from .common import engine, tail as _tail

PROP = "C07"
LEVEL = "exploration"
ASSUMPTIONS = [
    "expected outcomes of families A and B were computed at build time by V8 (node 20, strict mode) for exactly "
    "the enumerated case ids and are pinned by SHA-256 of the case list",
    "an uncaught throw is compared only as outcome class `throw` (the text of JSError is not compared)",
    "lineNumber/columnNumber are engine-specific: only their invariance under a shift of the program by k lines "
    "and k columns (k in {1, 7}) is checked, not their absolute value",
    "throw sites, contexts, handler placements and try shapes outside the enumerated grammar (e.g. generators, "
    "labelled break/continue, switch, three-deep nesting) are not explored",
]
RUN = "mc.props.common:run_src"
RUN_SHIFT = "mc.props.c07:run_shift"

CORE_PL = ["inline", "top", "same", "caller", "native_forEach", "none"]
NATIVE_PL = [p for p in G.PLACEMENTS if p.startswith("native_")]
ALL_CTX = G.CORE_CONTEXTS + G.EXTRA_CONTEXTS


def nontrivial(cid, payload, exp):
    return payload.get("nt", True) if isinstance(payload, dict) else True


def _space(name, cases, rule, bound):
    return Space(name, RUN, cases, oracle="table", nontrivial=nontrivial, rule=rule, bound=bound, batch=200)


# ------------------------------------------------------------------------------------------------ family A
def _in_quick(pl, ctx, hf, tail):
    """Combinations already enumerated by the core / forms / native strata spaces."""
    if ctx not in G.CORE_CONTEXTS:
        return False
    if pl in CORE_PL and ((hf == "catch" and tail == "v") or pl == "none"):
        return True
    if pl == "same":
        return True
    if pl.startswith("native_") and hf == "catch":
        return True
    return False


def _forms_cases():
    out = G.a_cases(G.SITES, ["same"], G.CORE_CONTEXTS, ["catch"], ["t"])
    out += G.a_cases(G.SITES, ["same"], G.CORE_CONTEXTS, ["catch_finally", "finally_in_catch"], G.TAILS)
    return out


def _native_cases(pl):
    tails = ["t"] if pl == "native_forEach" else G.TAILS
    return G.a_cases(G.SITES, [pl], G.CORE_CONTEXTS, ["catch"], tails)


def _full_cases(pl):
    out = []
    for site in G.SITES:
        for ctx in ALL_CTX:
            if not G.site_applicable(site, pl, ctx):
                continue
            if pl == "none":
                if not _in_quick(pl, ctx, "-", "-"):
                    out.append((G.a_id(site, pl, ctx, "-", "-"),
                                {"src": G.strip(G.build_a(site, pl, ctx)), "tl": 30, "nt": False}))
                continue
            for hf in G.HFORMS:
                for tail in G.TAILS:
                    if _in_quick(pl, ctx, hf, tail):
                        continue
                    out.append((G.a_id(site, pl, ctx, hf, tail),
                                {"src": G.strip(G.build_a(site, pl, ctx, hf, tail)), "tl": 30, "nt": True}))
    return out


RULE_A = ("throw site x handler placement x expression context; the catch block logs tagged checks of the caught "
          "value (typeof, identity, instanceof Error/<Ctor>, name, typeof message), the code after the try logs "
          "variables assigned before/after the throw inside the same expression, then an independent "
          "try/finally/catch + call runs (stale handler / operand residue detector), then the program ends with a "
          "value (tail=v) or an uncaught throw (tail=t). Non-trivial = a handler is on the path (placement != none)")


def a_core_spaces():
    return [
        _space("c07_sites_core", lambda: G.a_cases(G.SITES, CORE_PL, G.CORE_CONTEXTS), RULE_A,
               "%d sites x %d placements x %d contexts" % (len(G.SITES), len(CORE_PL), len(G.CORE_CONTEXTS))),
        _space("c07_sites_forms", _forms_cases, RULE_A + "; handler forms catch / catch+finally / try-finally inside "
               "try-catch, both tails, handler in the function that evaluates the context",
               "%d sites x %d contexts x 5 form/tail combinations" % (len(G.SITES), len(G.CORE_CONTEXTS))),
    ]


def a_native_strata():
    return [_space("c07_sites_%s" % pl, lambda pl=pl: _native_cases(pl),
                   RULE_A + "; handler two frames up with the native frame %s in between" % pl[7:],
                   "%d sites x %d contexts x 2 tails" % (len(G.SITES), len(G.CORE_CONTEXTS))) for pl in NATIVE_PL]


def a_full_spaces():
    return [_space("c07_sites_full_%s" % pl, lambda pl=pl: _full_cases(pl),
                   RULE_A + "; every context (14), handler form (3) and tail (2) not already in the quick spaces",
                   "%d sites x 14 contexts x 3 forms x 2 tails" % len(G.SITES)) for pl in G.PLACEMENTS]


# ------------------------------------------------------------------------------------------------ family B
RULE_B = ("try statement shapes {try exit: normal/break/continue/return/throw} x {catch: absent/normal/break/continue/"
          "return/rethrow/throw new} x {finally: absent/normal/break/continue/return/throw} in every enclosing that "
          "makes the exits legal; every block logs a distinct integer, loops run 2 iterations, return values and "
          "caught values are logged. Non-trivial = a try block is left abruptly or a finally block is present")
SMALL60 = G.smallest(60)
_SMALLSET = set(SMALL60)


def _nest_all_cases(t_exit, pos):
    outers = [s for s in G.SHAPES if s[0] == t_exit]
    out = []
    for o in outers:
        inners = [i for i in G.SHAPES if not (o in _SMALLSET and i in _SMALLSET)]
        out += G.nest_cases(["funcloop"], [o], inners, ["v"], [pos])
    return out


def b_core_spaces():
    return [
        _space("c07_shapes_base", lambda: G.b_cases(G.ENC_NAMES, G.SHAPES, G.TAILS), RULE_B,
               "205 shapes x 7 enclosings (legal ones) x 2 tails"),
        _space("c07_nest60_funcloop_v", lambda: G.nest_cases(["funcloop"], SMALL60, SMALL60, ["v"]),
               RULE_B + "; the 60 smallest shapes nested two deep (inner shape in the try, catch or finally block)",
               "60 x 60 x 3 positions"),
    ]


def b_strata():
    st = []
    for enc, tail in (("outer_funcloop", "v"), ("loop_in_outer", "v"), ("funcloop", "t")):
        st.append(_space("c07_nest60_%s_%s" % (enc, tail),
                         lambda enc=enc, tail=tail: G.nest_cases([enc], SMALL60, SMALL60, [tail]),
                         RULE_B + "; 60 smallest nested two deep, enclosing %s, tail %s" % (enc, tail), "60 x 60 x 3"))
    for t in G.T_EXITS:
        for pos in ("try", "catch", "finally"):
            st.append(_space("c07_nest_all_%s_%s" % (t, pos), lambda t=t, pos=pos: _nest_all_cases(t, pos),
                             RULE_B + "; every shape whose try block exits by %s, with every shape nested in its %s "
                             "block (function+loop enclosing)" % (t, pos), "41 x 205"))
    return st


# ------------------------------------------------------------------------------------------------ family C
_LOC = re.compile(r'\[s"L",([^,\]]*),([^,\]]*)\]')


def _add(ser_num, k):
    if len(ser_num) == 17 and ser_num[0] == "d":
        x = struct.unpack(">d", bytes.fromhex(ser_num[1:]))[0]
        return "d" + struct.pack(">d", x + k).hex()
    return ser_num


def shift_expected(base, k):
    return _LOC.sub(lambda m: '[s"L",%s,%s]' % (_add(m.group(1), k), _add(m.group(2), k)), base)


def run_shift(payload):
    """Metamorphic runner: unshifted program, then the program moved down by k lines and the throwing line moved
    right by k columns (k = 1, 7). Reported line/column must move by exactly k; everything else is identical."""
    e = engine()
    src = payload["src"]
    tl = payload.get("tl", 30)
    base = e.run_program(G.strip(src), tl=tl)
    obs, exp = [base], [base]
    for k in (1, 7):
        obs.append(e.run_program("\n" * k + src.replace(G.MARK, " " * k), tl=tl))
        exp.append(shift_expected(base, k))
    # ... and the line itself is the line of the code that raised the error (the marked line), wherever that code sits:
    # at program level, in a function, in a callback run by a built-in, in an accessor
    # multi-line constructs in front of the program (tokens the parser looks ahead over, comments, continued strings) move
    # the reported line by exactly the number of line breaks they contain
    for pre in PRELUDES:
        k = pre.count("\n")
        obs.append(e.run_program(pre + G.strip(src), tl=tl))
        exp.append(_LOC.sub(lambda m: '[s"L",%s,%s]' % (_add(m.group(1), k), m.group(2)), base))
    m = _LOC.search(base)
    want = src[:src.index(G.MARK)].count("\n") + 1
    got = "none"
    if m and len(m.group(1)) == 17 and m.group(1)[0] == "d":
        got = "%g" % struct.unpack(">d", bytes.fromhex(m.group(1)[1:]))[0]
    if '[s"L",' in base:
        obs.append("line=" + got)
        exp.append("line=%d" % want)
    return " ## ".join(obs) + "\x00" + " ## ".join(exp)


PRELUDES = [
    "var pre0 = (1 +\n 2);\n",
    "var pre1 = (pa,\n pb\n) => pa;\n",
    "var pre2 = ((1,\n 2),\n (3));\n",
    "var pre3 = [1,\n 2]; var pre4 = {a: 1,\n b: (2\n)};\n",
    "/* multi\n line\n comment */ var pre5 = 'a\\\nb'; // tail\n",
    "function pre6(a,\n b) {\n return (a\n + b)\n}\npre6(1,\n 2);\n",
    "var pre7 = (function () {\n return (1) })(\n);\nif ((pre7 ===\n 1)) {\n}\n",
]
SHIFT_PL = ["inline", "same", "caller", "native_forEach"]
SHIFT_CTX = ["stmt", "add_r"]


def shift_cases():
    out = []
    for site in G.SITES:
        if site.ctor is None:
            continue
        for pl in SHIFT_PL:
            for ctx in SHIFT_CTX:
                if not G.site_applicable(site, pl, ctx):
                    continue
                out.append(("C|site=%s|pl=%s|ctx=%s" % (site.name, pl, ctx),
                            {"src": G.build_a(site, pl, ctx, "catch", "v", loc=True), "tl": 30}))
    return out


def shift_space():
    return Space("c07_shift", RUN_SHIFT, shift_cases, oracle="inline",
                 nontrivial=lambda cid, payload, exp: '[s"L",d' in exp,
                 rule="programs of family A that catch an error object and log e.lineNumber/e.columnNumber, run "
                      "unshifted and shifted by k in {1, 7} leading newlines plus k leading spaces on the throwing "
                      "line; expected = unshifted outcome with line and column increased by k, and the reported line is the marked "
                      "line (the line of the code that raised the error); also behind 7 multi-line preludes (parenthesised expressions, arrow parameter lists, literals, comments, continued strings, calls) which move the line by their line-break count. Non-trivial = the unshifted run reports a numeric line", bound="error sites x 4 placements x 2 contexts x k in {1,7}",
                 batch=50)


# ------------------------------------------------------------------------------------------------ family E
# an uncaught throw reaches the embedder as a JSError that describes the thrown value

UNCAUGHT_VALUES = [
    ("number", "5", ["5"]), ("string", "'some text'", ["some text"]), ("null", "null", ["null"]), ("undefined", "undefined", ["undefined"]),
    ("boolean", "false", ["false"]), ("Error", "new Error('plain msg')", ["Error", "plain msg"]),
    ("TypeError", "new TypeError('type msg')", ["TypeError", "type msg"]), ("RangeError", "new RangeError('range msg')", ["RangeError", "range msg"]),
    ("SyntaxError", "new SyntaxError('syntax msg')", ["SyntaxError", "syntax msg"]),
    ("ReferenceError", "new ReferenceError('ref msg')", ["ReferenceError", "ref msg"]),
    ("renamed-error", "(function () { var e = new Error('renamed msg'); e.name = 'MyError'; return e })()", ["MyError", "renamed msg"]),
    ("error-like-object", "({name: 'LikeName', message: 'like msg'})", ["LikeName", "like msg"]),
    ("object-with-toString", "({toString: function () { return 'custom text' }})", ["custom text"]),
    ("array", "[1, 2, 3]", ["1,2,3"]), ("empty-message", "new TypeError()", ["TypeError"]),
]
UNCAUGHT_RUNTIME = [
    ("null-member", "null.x", ["TypeError"]), ("undefined-call", "undefined()", ["TypeError"]), ("unknown-identifier", "noSuchName", ["ReferenceError", "noSuchName"]),
    ("repeat-negative", "'a'.repeat(-1)", ["RangeError"]), ("bad-regex", "new RegExp('(')", ["SyntaxError"]), ("bad-json", "JSON.parse('{')", ["SyntaxError"]),
    ("toFixed-range", "(1).toFixed(200)", ["RangeError"]), ("bad-uri", "decodeURIComponent('%')", ["URIError"]),
]
UNCAUGHT_PLACES = {
    "top": "@;", "function": "function f() { @; } f();", "nested-function": "function f() { function g() { @; } g(); } f();",
    "callback": "[1].forEach(function () { @; });", "sort-comparator": "[2, 1].sort(function () { @; });", "getter": "({get p() { @; }}).p;",
    "valueOf": "+{valueOf: function () { @; }};", "indirect-eval": "(1, eval)(\"@;\");", "new-Function": "new Function(\"@;\")();",
    "finally-passes": "try { @; } finally { var done = 1; }", "rethrow": "try { @; } catch (e) { throw e; }",
    "catch-in-callee-only": "function f() { try { return 1 } catch (e) { } } f(); @;", "arrow": "var a = () => { @; }; a();",
    "bound": "var b = (function () { @; }).bind(null); b();", "constructor": "function K() { @; } new K();",
    "toJSON": "JSON.stringify({toJSON: function () { @; }});", "replace-callback": "'a'.replace(/a/, function () { @; });",
}


def run_uncaught(payload):
    e = engine()
    e.CLOCK.reset("poll")
    ctx = e.Context(time_limit=100)
    try:
        r = ctx.eval(payload["src"])
        return "returned %r\x00JSError mentioning %s" % (r, payload["need"])
    except e._errors.JSError as ex:
        text = str(ex)
        missing = [n for n in payload["need"] if n not in text]
        kind = type(ex).__name__
        if kind not in ("JSError", "JSTypeError", "JSRangeError", "JSReferenceError", "JSSyntaxError", "JSURIError"):
            return "%s: %s\x00ok" % (kind, text[:80])
        return ("ok" if not missing else "JSError %r does not mention %s" % (text[:100], missing)) + "\x00ok"
    except BaseException as ex:  # noqa: BLE001
        return "host %s\x00ok" % type(ex).__name__


def uncaught_cases():
    out = []
    for pn, tmpl in UNCAUGHT_PLACES.items():
        for vn, vsrc, need in UNCAUGHT_VALUES:
            stmt = "throw " + vsrc
            if pn in ("indirect-eval", "new-Function"):
                stmt = stmt.replace("\\", "\\\\").replace('"', '\\"')
            out.append(("E|place=%s|throw=%s" % (pn, vn), {"src": tmpl.replace("@", stmt), "need": need}))
        for vn, vsrc, need in UNCAUGHT_RUNTIME:
            stmt = vsrc
            if pn in ("indirect-eval", "new-Function"):
                stmt = stmt.replace("\\", "\\\\").replace('"', '\\"')
            out.append(("E|place=%s|raise=%s" % (pn, vn), {"src": tmpl.replace("@", stmt), "need": need}))
    return out


def e_space():
    return Space("c07_uncaught", "mc.props.c07:run_uncaught", uncaught_cases, oracle="inline", batch=60,
                 rule="%d thrown values and %d run-time / built-in errors left uncaught in %d places (program level, functions, callbacks "
                      "of built-ins, accessors, conversions, nested eval, new Function, finally without catch, rethrow, arrows, bound "
                      "functions, constructors): eval raises a JSError whose text contains the error's name and message (or the string "
                      "form of a thrown non-error value)" % (len(UNCAUGHT_VALUES), len(UNCAUGHT_RUNTIME), len(UNCAUGHT_PLACES)),
                 bound="%d x %d" % (len(UNCAUGHT_VALUES) + len(UNCAUGHT_RUNTIME), len(UNCAUGHT_PLACES)))


# ------------------------------------------------------------------------------------------------ tiers
def _interleave(*lists):
    out = []
    n = max(len(x) for x in lists)
    for i in range(n):
        for x in lists:
            if i < len(x):
                out.append(x[i])
    return out


# ------------------------------------------------------------------------------------------------ family D
def midexpr_cases():
    """A throw in mid-expression caught by a try that sits INSIDE a construct keeping operands of its own on the
    stack (for-in / for-of iterators, a switch discriminant, an array / call / object literal under construction)
    of the SAME function: operands pending at the throw must be dropped exactly down to the try's own depth."""
    out = []
    throwers = {
        "callee-throw": ("function T() { throw 7 }", "T()"),
        "runtime-typeerror": ("var N = null;", "N.x"),
        "native-rangeerror": ("", "'a'.repeat(-1)"),
        "callback-throw": ("", "[1].map(function () { throw 8 })"),
        "getter-throw": ("var G = {get g() { throw 9 }};", "G.g"),
        "valueof-throw": ("var V = {valueOf: function () { throw 10 }};", "(V + 1)"),
    }
    contexts = ["r = 1 + %s;", "r = [1, 2, %s, 4];", "r = g3(1, %s, 3);", "r = {a: 1, b: %s};", "r = (1, 2) + (3 * %s);",
                "r = q[%s];", "r = 'x' + (c ? %s : 0) + 'y';", "r = g3(g3(1, 2, %s), 5, 6);"]
    handlers = {
        "catch": "try { %(stmt)s } catch (e) { __out(typeof e === 'object' ? e.name : e) }",
        "catch-finally": "try { %(stmt)s } catch (e) { __out(typeof e === 'object' ? e.name : e) } finally { __out(70) }",
        "finally-outer": "try { try { %(stmt)s } finally { __out(71) } } catch (e2) { __out(typeof e2 === 'object' ? e2.name : e2) }",
    }
    enclosings = {
        "for-in": "for (var k in {a: 1, b: 2, c: 3}) { %(h)s __out(k); }",
        "for-of": "for (var v of [10, 20, 30]) { %(h)s __out(v); }",
        "switch": "switch (sw) { case 1: %(h)s __out(11); case 2: __out(12); break; default: __out(13) }",
        "nested-loops": "for (var k in {a: 1, b: 2}) { for (var v of [5, 6]) { %(h)s __out(k + v); } }",
        "array-literal-iife": "r2 = [1, (function () { for (var k in {p: 1, q: 2}) { %(h)s __out(k) } return 2 })(), 3]; __out(r2.join());",
        "for-in-with-finally-continue": "for (var k in {a: 1, b: 2, c: 3}) { try { %(h)s if (k == 'b') continue; __out(k) } finally { __out(72) } }",
        "labelled-break": "L: for (var k in {a: 1, b: 2}) { for (var v of [1, 2]) { %(h)s if (v == 2) break L; __out(k + v) } }",
    }
    for en, etmpl in enclosings.items():
        for tn, (tdecl, texpr) in throwers.items():
            for ci, ctx in enumerate(contexts):
                for hn, htmpl in handlers.items():
                    body = etmpl % {"h": htmpl % {"stmt": ctx % texpr}}
                    for scope in ("top", "function"):
                        pre = "var c = true, sw = 1, r, r2, q = [1, 2]; function g3(a, b, d) { return a + b + d } " + tdecl + " "
                        if scope == "top":
                            src = pre + body + " __out(90); typeof r"
                        else:
                            src = pre + "function run() { " + body + " return 91 } __out(run()); __out(run()); typeof r"
                        cid = "D|enc=%s|thrower=%s|ctx=%d|h=%s|scope=%s :: %s" % (en, tn, ci, hn, scope, src)
                        out.append((cid, {"src": src, "tl": 30}))
    return out


def d_space():
    return Space("c07_midexpr", RUN, midexpr_cases, oracle="table", batch=200,
                 rule="a throw in mid-expression (6 throw kinds x 8 expression contexts) caught by a try (3 handler forms) nested inside "
                      "7 constructs that keep their own operands on the stack (for-in, for-of, switch, nested loops, literal under "
                      "construction, finally+continue, labelled break), at top level and inside a function called twice",
                 bound="7 x 6 x 8 x 3 x 2")


# ------------------------------------------------------------------------------------------------ family F
# two built-ins on the stack at once, with the handler between them, outside both or inside the inner one; the outer built-in
# goes on with its next element after the error was handled

NEST = {   # name -> template with BODY (run once per element / call); every one of them calls back into script
    "forEach": "[1, 2].forEach(function (v) { BODY })",
    "map": "[1, 2].map(function (v) { BODY return v })",
    "filter": "[1, 2].filter(function (v) { BODY return true })",
    "reduce": "[1, 2].reduce(function (a, v) { BODY return a + v }, 0)",
    "some": "[1, 2].some(function (v) { BODY return false })",
    "sort": "[2, 1].sort(function (a, b) { BODY return a - b })",
    "replace": '"ab".replace(/[ab]/g, function (m0) { BODY return m0 })',
    "toString": "String({toString: function () { BODY return 's' }})",
    "valueOf": "+{valueOf: function () { BODY return 1 }}",
    "toJSON": "JSON.stringify([{toJSON: function () { BODY return 1 }}, {toJSON: function () { BODY return 2 }}])",
    "getter": "({get p() { BODY return 1 }}).p",
    "call": "(function () { BODY }).call(null)",
    "apply": "(function () { BODY }).apply(null, [])",
    "new": "new (function () { BODY })()",
    "join": "[{toString: function () { BODY return 'j' }}, 1].join()",
}
THROWS = [("value", "throw 'boom';"), ("error", "throw new RangeError('r');"), ("runtime", "null.x;"), ("none", "")]
HANDLER_AT = ["between", "outside", "inner", "between-finally", "between-rethrow"]


def nested_src(outer, inner, thrower, where):
    tb = "__out('i'); " + thrower
    if where == "inner":
        tb = "try { " + tb + " } catch (e) { __out(['in', typeof e === 'object' ? e.name : e]); }"
    inner_call = NEST[inner].replace("BODY", tb)
    if where == "between":
        mid = "try { %s; __out('after-inner'); } catch (e) { __out(['mid', typeof e === 'object' ? e.name : e]); }" % inner_call
    elif where == "between-finally":
        mid = "try { try { %s; } finally { __out('fin'); } } catch (e) { __out(['mid', typeof e === 'object' ? e.name : e]); }" % inner_call
    elif where == "between-rethrow":
        mid = "try { %s; } catch (e) { __out('re'); throw e; }" % inner_call
    else:
        mid = inner_call + "; __out('after-inner');"
    outer_call = NEST[outer].replace("BODY", "__out('o'); " + mid + " __out('o-end');")
    return ("var r; try { r = %s; __out('done'); } catch (e) { __out(['out', typeof e === 'object' ? e.name : e]); } "
            "try { [1].forEach(function () { throw 'p' }) } catch (e) { __out(['probe', e]); } "
            "try { [3].map(function () { try { [4].forEach(function () { throw 'q' }) } catch (e) { __out(['probe2', e]); } }) } catch (e) { __out(['leak', e]); } "
            "typeof r" % outer_call)


def nested_cases():
    out = []
    for o in NEST:
        for i in NEST:
            for tn, t in THROWS:
                for w in HANDLER_AT:
                    if tn == "none" and w not in ("between", "outside"):
                        continue
                    out.append(("F|outer=%s|inner=%s|throw=%s|handler=%s" % (o, i, tn, w), {"src": nested_src(o, i, t, w), "tl": 50}))
    return out


DEPTH_NATIVES = {
    "forEach": "[1].forEach(function () { rec(n + 1) })",
    "map": "[1].map(function () { return rec(n + 1) })",
    "sort": "[2, 1].sort(function () { rec(n + 1); return 0 })",
    "replace": "'a'.replace(/a/, function () { rec(n + 1); return '' })",
    "toString": "String({toString: function () { rec(n + 1); return '' }})",
    "getter+forEach": "({get p() { [1].forEach(function () { rec(n + 1) }); return 1 }}).p",
    "call": "rec.call(null, n + 1)",
    "eval": "eval('rec(' + (n + 1) + ')')",
}


def depth_cases():
    """unbounded recursion through a built-in, stopped by the engine's own limit; the RangeError is caught at nesting level 0, 1
    or 2 of built-ins; afterwards exceptions must still be routed to the right handlers"""
    out = []
    for name, call in DEPTH_NATIVES.items():
        for level in (0, 1, 2):
            for repeat in (1, 3):
                guarded = "try { rec(0) } catch (e) { __out(['caught', e instanceof RangeError]); }"
                for _ in range(level):
                    guarded = "[1, 2].forEach(function (v) { __out(['lv', v]); %s; try { [1].map(function () { throw 'm' }) } catch (e) { __out(['m', e]); } })" % guarded
                src = ("function rec(n) { %s } for (var k = 0; k < %d; k++) { %s } "
                       "try { [1].forEach(function () { throw 'p' }) } catch (e) { __out(['probe', e]); } "
                       "try { [3].map(function () { try { [4].forEach(function () { throw 'q' }) } catch (e) { __out(['probe2', e]); } __out('cont'); }) } catch (e) { __out(['leak', e]); } "
                       "try { [5].forEach(function () { [6].forEach(function () { throw 'z' }) }); } catch (e) { __out(['probe3', e]); } 'end'"
                       % (call, repeat, guarded))
                out.append(("G|native=%s|catch-level=%d|repeat=%d" % (name, level, repeat), {"src": src, "tl": 5000}))
    return out


LOOPS_H = {
    "for-of": ("for (var x of [1, 2, 3]) { __out(['it', x]); BODY __out('body-end'); }", True),
    "for-in": ("for (var x in {a: 1, b: 2, c: 3}) { __out(['it', x]); BODY __out('body-end'); }", True),
    "for": ("for (var x = 0; x < 3; x++) { __out(['it', x]); BODY __out('body-end'); }", True),
    "while": ("var x = 0; while (x++ < 3) { __out(['it', x]); BODY __out('body-end'); }", True),
    "do-while": ("var x = 0; do { __out(['it', x]); BODY __out('body-end'); } while (++x < 3);", True),
    "switch": ("switch (2) { case 1: __out('c1'); case 2: __out('c2'); BODY __out('body-end'); case 3: __out('c3'); }", False),
    "labelled-block": ("LB: { __out('blk'); BODY __out('body-end'); }", False),
    "for-of in for-of": ("for (var w of [10, 20]) { __out(['outer-it', w]); for (var x of [1, 2]) { __out(['it', x]); BODY __out('body-end'); } __out('outer-body-end'); }", True),
    "switch in for-of": ("for (var w of [10, 20]) { __out(['outer-it', w]); switch (1) { case 1: BODY __out('body-end'); } __out('outer-body-end'); }", False),
}
PENDING = {    # what is in flight when the finally block runs
    "exception": "try { __out('t'); throw 'pend'; } finally { __out('f'); EXIT }",
    "exception-in-catch": "try { throw 'first'; } catch (e1) { try { __out('t'); throw 'pend'; } finally { __out('f'); EXIT } }",
    "runtime-error": "try { __out('t'); null.x; } finally { __out('f'); EXIT }",
    "exception-from-native": "try { [1].forEach(function () { throw 'pend' }); } finally { __out('f'); EXIT }",
    "return-value": None,      # only inside a function
    "normal": "try { __out('t'); } finally { __out('f'); EXIT }",
    "nested-finally": "try { try { throw 'pend'; } finally { __out('f1'); } } finally { __out('f2'); EXIT }",
    "exception, exit in inner loop": "try { throw 'pend'; } finally { for (var z of [1, 2]) { __out(['z', z]); break; } EXIT }",
}
WRAP = {
    "program": "%s",
    "function": "(function () { %s return 'fn-end' })()",
    "callback": "[1, 2].forEach(function (cbv) { __out(['cb', cbv]); %s })",
    "outer-try": "try { %s __out('after'); } finally { __out('outer-fin'); }",
    "outer-catch": "try { %s __out('after'); } catch (eo) { __out(['outer-catch', eo]); } finally { __out('outer-fin'); }",
}


def finally_exit_cases():
    out = []
    for ln, (loop, is_loop) in LOOPS_H.items():
        exits = ["break;"] + (["continue;"] if is_loop else [])
        if ln == "labelled-block":
            exits = ["break LB;"]
        if ln == "for-of in for-of":
            exits = ["break;", "continue;"]
        for pn, pend in PENDING.items():
            if pend is None:
                continue
            for ex in exits:
                body = pend.replace("EXIT", ex)
                for wn, wrap in WRAP.items():
                    core = loop.replace("BODY", body)
                    src = ("var r; try { r = " + ("0; " + wrap % core if wn in ("program", "outer-try", "outer-catch") else wrap % core + ";") +
                           " __out('done'); } catch (e) { __out(['escaped', e && e.name ? e.name : e]); } for (var y of [7, 8]) { __out(['y', y]); } typeof r")
                    out.append(("H|loop=%s|pending=%s|exit=%s|in=%s" % (ln, pn, ex.rstrip(";"), wn), {"src": src, "tl": 50}))
    return out


ERR_SOURCES = [
    ("Error", "new Error('m')"), ("Error-no-message", "new Error()"), ("Error-empty", "new Error('')"), ("Error-number", "new Error(5)"),
    ("Error-object-message", "new Error({toString: function () { return 'from-toString' }})"), ("Error-called", "Error('called')"),
    ("TypeError", "new TypeError('t')"), ("RangeError", "new RangeError('r')"), ("SyntaxError", "new SyntaxError('s')"),
    ("ReferenceError", "new ReferenceError('f')"), ("TypeError-called", "TypeError('tc')"),
    ("renamed", "(function () { var e = new Error('m'); e.name = 'Custom'; return e })()"),
    ("name-emptied", "(function () { var e = new TypeError('m'); e.name = ''; return e })()"),
    ("message-emptied", "(function () { var e = new TypeError('m'); e.message = ''; return e })()"),
    ("name-undefined", "(function () { var e = new TypeError('m'); e.name = undefined; return e })()"),
    ("message-number", "(function () { var e = new Error('m'); e.message = 42; return e })()"),
    ("own-toString", "(function () { var e = new Error('m'); e.toString = function () { return 'mine' }; return e })()"),
    ("inheriting", "Object.create(new RangeError('proto-msg'))"), ("prototype-itself", "TypeError.prototype"),
    ("error-like", "({name: 'Like', message: 'lm', toString: Error.prototype.toString})"),
]
ERR_RUNTIME = ["null.x", "undefined.f()", "noSuchName", "(void 0)()", "new Array(-1)", "'a'.repeat(-1)", "JSON.parse('{')", "new RegExp('(')",
               "(1).toFixed(200)", "[].reduce(function () { })", "null[0] = 1", "({}).x.y", "new (function () { }).missing()", "decodeURIComponent('%')",
               "eval('(')", "x = y + 1"]
ERR_OBS = ["String(e)", "'' + e", "e.toString()", "[e].join()", "e + ''", "'<' + [e, e] + '>'", "e.name", "e.message", "typeof e.message",
           "e instanceof Error", "e instanceof TypeError", "e instanceof RangeError", "Object.keys(e).join()", "JSON.stringify(e)",
           "typeof e.stack", "e.toString === Error.prototype.toString", "e.constructor === Error"]


def error_text_cases():
    out = []
    for name, src in ERR_SOURCES:
        for o in ERR_OBS:
            p = "var e = %s; var r; try { r = %s } catch (x) { r = 'throw:' + x.name } r" % (src, o)
            out.append(("T|%s|%s" % (name, o), {"src": p}))
    # errors raised by the engine: the message text is implementation-defined, its relation to the rendering is not
    for src in ERR_RUNTIME:
        p = ("var e; try { %s; e = 'no error' } catch (x) { e = x } "
             "[typeof e === 'object' && e !== null ? e.name : e, e instanceof Error, typeof e.message, String(e) === (e.message ? e.name + ': ' + e.message : e.name), "
             "'' + e === String(e), e.toString() === String(e), Object.keys(e).join(), e instanceof SyntaxError, e instanceof TypeError, e instanceof RangeError, "
             "e instanceof ReferenceError]" % src)
        out.append(("T|runtime|" + src, {"src": p, "tl": 5000}))
    return out


def f_spaces():
    return [Space("c07_nested", RUN, nested_cases, oracle="table", batch=200,
                  rule="%d x %d ordered pairs of built-ins that call back into script (outer runs its callback twice) x {throw a value, "
                       "throw an Error, runtime TypeError, nothing} x handler {between the two built-ins, outside both, inside the inner "
                       "callback, between with finally, between and re-thrown}; the log shows which handler ran, that the outer built-in went "
                       "on with its next element, and three probes afterwards; expected = V8" % (len(NEST), len(NEST)),
                  bound="%d^2 x 4 x 5" % len(NEST)),
            Space("c07_error_text", RUN, error_text_cases, oracle="table", batch=100,
                  rule="%d error objects (every constructor, called and constructed, odd messages, renamed, name / message emptied, own toString, "
                       "inheriting, error-like) x %d renderings and tests (String, +, toString, join, name, message, instanceof, keys, "
                       "stringify); %d errors raised by the engine itself: class, instanceof, and that the rendering is name + ': ' + message "
                       "(the message text itself is implementation-defined)" % (len(ERR_SOURCES), len(ERR_OBS), len(ERR_RUNTIME)),
                  bound="%d x %d + %d" % (len(ERR_SOURCES), len(ERR_OBS), len(ERR_RUNTIME))),
            Space("c07_finally_exit", RUN, finally_exit_cases, oracle="table", batch=200,
                  rule="break / continue written inside a finally block while an exception (thrown, runtime, from a built-in, in a catch, "
                       "through nested finally) or nothing is pending, inside %d kinds of loop / switch / labelled block (for-of and for-in "
                       "keep an iterator on the stack), at program level, in a function, in a callback, inside outer try/finally and "
                       "try/catch/finally; the log shows every iteration, every finally block and a for-of loop run afterwards; expected "
                       "= V8" % len(LOOPS_H), bound="%d x 7 x 2 x 5" % len(LOOPS_H)),
            Space("c07_depth", RUN, depth_cases, oracle="table", batch=4, watchdog=120,
                  rule="unbounded recursion through %d kinds of built-in, stopped by the engine's depth limit, RangeError caught at built-in "
                       "nesting level 0 / 1 / 2, once or three times; afterwards three probes check that exceptions are still routed to "
                       "the right handler; expected = V8 (the log does not depend on the depth at which the limit is hit)" % len(DEPTH_NATIVES),
                  bound="%d x 3 x 2" % len(DEPTH_NATIVES))]


def spaces(tier, seed, all_strata=False):
    core = a_core_spaces() + b_core_spaces() + [shift_space(), d_space(), e_space()] + f_spaces()
    native = a_native_strata()
    bst = b_strata()
    if tier == "thorough" or all_strata:
        return core + native + bst + a_full_spaces()
    strata = _interleave(native[1:], bst[:3], bst[3:])
    # native_forEach tail=t is tiny and always included; one further stratum by seed
    return core + [native[0], strata[seed % len(strata)]]


# ------------------------------------------------------------------------------------------------ triage
def _d(n):
    return "d" + struct.pack(">d", float(n)).hex()


A_MEANING = {_d(k): "%s (%d)" % (v, k) for k, v in {
    1: "throwing function entered", 2: "try body entered", 3: "native callback entered",
    4: "inner native callback entered", 20: "script callback/accessor entered",
    -1: "statement after the throw executed", -2: "code after the throwing expression executed",
    -3: "try body continued after the throw", -4: "code after inner try/finally executed",
    80: "catch entered", 70: "finally ran", 71: "inner finally ran", 89: "after-try sentinel",
    90: "tail sentinel"}.items()}


def _num(s):
    if len(s) == 17 and s[0] == "d":
        try:
            return struct.unpack(">d", bytes.fromhex(s[1:]))[0]
        except ValueError:
            return None
    return None


def _split(outcome):
    log, _, t = outcome.rpartition("|")
    return (log.split(";") if log else []), t


def _first_diff(le, lo):
    for i in range(max(len(le), len(lo))):
        a = le[i] if i < len(le) else "<end>"
        b = lo[i] if i < len(lo) else "<end>"
        if a != b:
            return i, a, b
    return None, None, None


def _tag(entry):
    m = re.match(r'\[s"([A-Za-z]+)",', entry)
    return m.group(1) if m else None


TAG_TEXT = {"ty": "typeof e", "id": "identity e === thrown", "isE": "e instanceof Error", "isC": "e instanceof <Ctor>",
            "nm": "e.name", "tm": "typeof e.message", "msg": "e.message", "k": "property of the thrown object",
            "L": "line/column"}


def _kind_common(te, to):
    if to.startswith("Ehost"):
        return "host exception " + to[1:]
    if to in ("Etime", "Ememory"):
        return "runs into the %s limit" % to[1:]
    if to == "Esyntax":
        return "program rejected as a syntax error"
    return None


def _kind_a(exp, obs):
    le, te = _split(exp)
    lo, to = _split(obs)
    k = _kind_common(te, to)
    if k:
        return k, "pre"
    i, a, b = _first_diff(le, lo)
    c80, s89 = _d(80), _d(89)
    region = "pre"
    if i is not None and s89 in le[:i]:
        region = "post"
    if i is None:
        if te.startswith("R") and to == "Ethrow":
            return "throws at the end of the program where a value is specified", "post"
        if te == "Ethrow" and to.startswith("R"):
            return "final uncaught throw is swallowed (program returns a value)", "post"
        return "completion value differs (operand residue)", "post"
    if region == "pre":
        ta, tb = _tag(a), _tag(b)
        if ta and ta == tb:
            return "caught value wrong: %s" % TAG_TEXT.get(ta, ta), "site"
        if a == c80 and b in (_d(-1), _d(-2), _d(-3)):
            return "no exception raised, execution continues", "site"
        if a == c80 and b == "<end>" and to == "Ethrow":
            return "exception not caught by the handler (escapes as uncaught)", "pre"
        if ta and b == "<end>" and to == "Ethrow":
            return "catch block itself throws while inspecting the caught value (check %s)" % TAG_TEXT.get(ta, ta), "site"
        if te == "Ethrow" and a == "<end>":
            return "uncaught throw expected, execution continues (%s)" % A_MEANING.get(b, "other"), "pre"
        return "wrong path before/inside the handler: expected %s, observed %s" % (
            A_MEANING.get(a, "check " + (ta or a[:12])), A_MEANING.get(b, "check " + (tb or b[:12]))), "pre"
    return "state after the catch is wrong: expected %s, observed %s" % (
        A_MEANING.get(a, "value"), A_MEANING.get(b, "value")), "post"


def _b_class(n):
    if n is None:
        return "value"
    n = int(n)
    if n in (100, 101):
        return "loop iteration start"
    if n == 5:
        return "after loop"
    if n == 6:
        return "normal return of fn"
    if n in (7, 8, 9, 10):
        return {7: "outer try entered", 8: "outer catch", 9: "outer finally", 10: "after outer try"}[n]
    if n == -9:
        return "exception escapes fn"
    if n == 90:
        return "tail"
    m = n % 50
    lvl = "inner " if n > 50 else ""
    if m in (1, 2, 3, 4):
        return lvl + {1: "try entered", 2: "catch entered", 3: "finally", 4: "after try"}[m]
    if 11 <= m <= 13:
        return "return value"
    if 21 <= m <= 23:
        return "thrown value"
    return "value"


def _kind_b(exp, obs):
    le, te = _split(exp)
    lo, to = _split(obs)
    k = _kind_common(te, to)
    if k:
        return k
    i, a, b = _first_diff(le, lo)
    if i is None:
        if te.startswith("R") and to == "Ethrow":
            return "throws at the end of the program where a value is specified"
        if te == "Ethrow" and to.startswith("R"):
            return "final uncaught throw is swallowed (stale handler)"
        return "completion value differs (operand residue)"
    ca = "end of log" if a == "<end>" else _b_class(_num(a))
    cb = "end of log" if b == "<end>" else _b_class(_num(b))
    if "finally" in ca and "finally" not in cb:
        return "finally block skipped (observed %s)" % cb
    if "finally" in cb and "finally" not in ca:
        return "finally block runs where it must not / a second time (expected %s)" % ca
    if "catch" in ca and "catch" not in cb:
        return "catch block not entered (observed %s)" % cb
    if "catch" in cb and "catch" not in ca:
        return "catch block entered wrongly (expected %s)" % ca
    return "control continues at the wrong place: expected %s, observed %s" % (ca, cb)


def _shape_class(name):
    t, c, f = name.split(".")
    if t != "throw" and c != "absent":
        c = "any"
    return "try:%s catch:%s finally:%s" % (t, c, f)


def _features(*names):
    fs = set()
    for nm in names:
        t, c, f = nm.split(".")
        if t in ("break", "continue", "return"):
            fs.add("abrupt-try-exit")
        if t == "throw" and c in ("rethrow", "thrownew"):
            fs.add("throw-from-catch")
        if t == "throw" and c in ("break", "continue", "return"):
            fs.add("abrupt-catch-exit")
        if f in ("break", "continue", "return", "throw"):
            fs.add("abrupt-finally")
        elif f == "normal":
            fs.add("finally")
    return "+".join(sorted(fs)) or "plain"


def signature(sp, cid, payload, exp, obs):
    if sp.name == "c07_uncaught":
        what = cid.split("|")[2]
        return "uncaught|%s|%s" % (what, obs[:12]), "uncaught %s: the JSError given to the embedder: %s" % (what, obs[:120])
    if cid.startswith("D|"):
        parts = dict(x.split("=", 1) for x in cid.split(" :: ")[0].split("|")[1:])
        from .common import mismatch_kind
        return "D|" + parts["enc"] + "|" + parts["thrower"], "mid-expression throw (%s) caught inside %s: %s" % (
            parts["thrower"], parts["enc"], mismatch_kind(exp, obs))
    d = G.parse_id(cid)
    fam = d["family"]
    if fam == "C":
        o = obs.split(" ## ")
        e = exp.split(" ## ")
        kind = _kind_common("", _tail(o[-1])) if o else None
        if not kind:
            kind = "line/column do not shift by k"
            for k, (a, b) in zip((0, 1, 7), zip(e, o)):
                if _LOC.sub("L", a) != _LOC.sub("L", b):
                    kind = "shifting the program changes behaviour other than line/column"
                    break
                ma, mb = _LOC.search(a), _LOC.search(b)
                if ma and mb and ma.group(1) != mb.group(1):
                    kind = "line does not shift by k"
                    break
                if ma and mb and ma.group(2) != mb.group(2):
                    kind = "column does not shift by k (location is not on the throwing line?)"
                    break
        site = G.SITE_BY_NAME[d["site"]]
        key = "C|%s|%s|%s" % (site.group, d["pl"], kind)
        return key, "shift invariance, %s site, handler placement %s: %s" % (site.group, d["pl"], kind)
    if fam == "A":
        site = G.SITE_BY_NAME[d["site"]]
        kind, region = _kind_a(exp, obs)
        plc = "native" if d["pl"].startswith("native_") else d["pl"]
        if region == "site":
            key = "A|site=%s|%s" % (site.name, kind)
            what = "throw site %s (`%s`): %s" % (site.name, site.code, kind)
        elif region == "post":
            key = "A|pl=%s,ctx=%s|%s" % (plc, d["ctx"], kind)
            what = "handler placement %s, throwing call in context `%s`: %s" % (d["pl"], G.CTX[d["ctx"]], kind)
        elif "native callback entered" in kind:
            key = "A|%s,pl=%s|%s" % (site.group, d["pl"], kind)
            what = "%s throw site, handler placement %s: %s" % (site.group, d["pl"], kind)
        else:
            key = "A|%s,pl=%s|%s" % (site.group, plc, kind)
            what = "%s throw site, handler placement %s: %s" % (site.group, plc, kind)
        return key, what
    kind = _kind_b(exp, obs)
    if fam == "B":
        cls = _shape_class(d["shape"])
        return "B|%s|%s" % (cls, kind), "try shape [%s]: %s" % (cls, kind)
    feats = _features(d["outer"], d["inner"])
    return ("B2|%s|%s|%s" % (d["pos"], feats, kind),
            "two-deep try nesting (inner in %s block; features %s): %s" % (d["pos"], feats, kind))
