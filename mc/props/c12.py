"""C12  A context keeps its own state: persistent, isolated, usable after errors.

E2 explicit-state search. The reference model (one dict of tracked globals + built-in mutation flags per
context) is explored breadth-first in the parent (it is pure Python); every model transition
(state --op--> state') becomes one case: the representative history of the source state is replayed on
FRESH real contexts (live objects cannot be copied), the operation is applied, and after EVERY step every
context in play is observed (get of each tracked name, calls, built-in probes, typeof of an undefined name)
and compared with the model. States are deduplicated on the model state; that is sound because any
disagreement between implementation and model is itself reported, so merged histories have equal
observable futures as far as the property is concerned.
"""
import collections

from mc.core.runner import Space

PROP = "C12"
LEVEL = "model_checking"
ASSUMPTIONS = [
    "two contexts (three in the thorough tier): one without limits, one with a time limit, one with time and memory limits",
    "time is the virtual poll clock; 'tick' advances it past the time limit between evals",
    "operations outside the 23-operation alphabet and histories longer than the depth bound are not explored",
]

CONFIGS = [{"tl": None, "ml": None}, {"tl": 3, "ml": None}, {"tl": 3, "ml": 20000}]
LONG = "a" * 60 + "b"

# name, needs (None | 'time' | 'limit'), source or API call, expected outcome class, model update
OPS = [
    ("var a=1", None, "var a = 1;", "value", {"a": 1}),
    ("a=a+1", None, "a = (typeof a === 'number' ? a : 0) + 1;", "value", "inc"),
    ("def f->10", None, "function f() { return 10 }", "value", {"f": 10}),
    ("def f->20", None, "function f() { return 20 }", "value", {"f": 20}),
    ("call f", None, "f()", "call", {}),
    ("Object.prototype.zz=1", None, "Object.prototype.zz = 1;", "value", {"zz": 1}),
    ("Math.yy=2", None, "Math.yy = 2;", "value", {"yy": 2}),
    ("replace parseInt", None, "parseInt = function () { return 42 };", "value", {"pi": 42}),
    ("a=5 then throw", None, "a = 5; throw new Error('x');", "throw", {"a": 5}),
    ("a=6 then loop forever", "time", "a = 6; while (true) { }", "time", {"a": 6}),
    ("a=7 then recurse forever", "limit", "a = 7; (function r() { return 1 + r() })();", "limit", {"a": 7}),
    ("syntax error", None, "var a = ;", "syntax", {}),
    ("indirect eval var b=8", None, "(1, eval)('var b = 8');", "value", {"b": 8}),
    ("new Function c=9", None, "new Function('c = 9')();", "value", {"c": 9}),
    ("keep regex", None, "var re = /a+$/;", "value", {"re": 1}),
    ("use kept regex", None, "typeof re === 'object' ? re.test('" + LONG + "') : 'nore'", "regex", {}),
    # 244 matcher steps = two deadline polls, well inside every limit: must give its value whatever happened in earlier evals
    ("use kept regex briefly", None, "typeof re === 'object' ? re.test('aaaaaaaaaab') : 'nore'", "value", {}),
    # objects kept in globals whose built-in methods were already used by an earlier evaluation
    ("keep array, use map", None, "var ga = [1, 2]; ga.map(function (x) { return x }).length;", "value", {"ga": 1}),
    ("kept array: callback throws inside try", None,
     "typeof ga === 'object' ? (function () { try { ga.map(function (x) { throw new Error('e' + x) }) } catch (e) { return 'caught' + e.message } "
     "try { ga.map(function (x) { return null.p }) } catch (e) { return 'caught' + (e instanceof TypeError) } return 'none' })() : 'noga'",
     "value", {}),
    # a few thousand instructions inside callbacks: far below every limit, but enough for a deadline poll
    ("kept array: long callback", None,
     "typeof ga === 'object' ? ga.map(function (x) { var s = 0; for (var k = 0; k < 60; k++) { s += k } return s }).length : 'noga'", "value", {}),
    ("kept array: callback loops forever", "time",
     "typeof ga === 'object' ? ga.map(function () { while (true) { } }) : (function () { while (true) { } })()", "time", {}),
    # the built-in methods themselves kept in globals (plain and bound), used by later evaluations
    ("keep methods", None, "var kEach = [].forEach, kMap = [1, 2].map, kUp = 'x'.toUpperCase, kBound = [].forEach.bind([4, 5]); 0", "value", {"km": 1}),
    ("kept methods: call, callbacks throw inside try", None,
     "typeof kEach === 'function' ? (function () { var n = 0; kEach.call([1, 2, 3], function (x) { n += x }); kBound(function (x) { n += x }); "
     "var t; try { kMap.call([1, 2], function () { throw new Error('e') }) } catch (e) { t = 'caught' + e.message } "
     "try { kBound(function () { return null.p }) } catch (e) { t += e.name } return n + t + kUp.call('ab') + kMap.call([1, 2], function (x) { return x * 2 }).join() })() : 'nokm'",
     "value", {}),
    # declarations of a global that already exists keep its value; labels and other front-end state do not survive a failure
    ("var a again (keeps its value), a = a + 1", None, "var a; var a = (typeof a === 'number' ? a : 0) + 1;", "value", "inc"),
    ("indirect eval: var a again, a = a + 1", None, "(1, eval)('var a = (typeof a === \"number\" ? a : 0) + 1');", "value", "inc"),
    ("syntax error inside a labelled statement", None, "LAB1: LAB2: { for (;;) { var a = ; } }", "syntax", {}),
    ("caught syntax error of an eval inside a labelled statement", None,
     "var se = 'none'; try { (1, eval)('LAB1: { LAB2: while (true) { b = ; } }') } catch (e) { se = e.name } se", "value", {}),
    ("use the labels LAB1 and LAB2", None, "LAB1: { LAB2: for (var i9 = 0; i9 < 1; i9++) { c = 31; break LAB1 } }", "value", {"c": 31}),
    ("change the results of Object.keys / values / entries of primitives", None,
     "[Object.keys(5), Object.values(true), Object.entries('s'), Object.keys()].forEach(function (x) { try { x.push('leak'); x.pkz = 1 } catch (e) { } }); 0",
     "value", {}),
    ("set a=11", None, ("set", "a", 11), "value", {"a": 11}),
    ("a=12, loop forever inside try", "time", "a = 12; try { while (true) { } } catch (e) { a = -1 } finally { a = -2 }", "time", {"a": 12}),
    ("a=13, recurse forever inside try", "limit", "a = 13; try { (function r() { return 1 + r() })() } catch (e) { a = -1 }", "limit", {"a": 13}),
    ("cyclic stringify throws", None, "var cy = {k: {v: 1}}; cy.k.self = cy; JSON.stringify(cy);", "throw", {"cy": 1}),
    ("break the cycle", None, "if (typeof cy === 'object') { cy.k.self = 1 }", "value", "uncycle"),
    ("throw inside callback inside try-finally", None, "try { [1, 2].forEach(function (x) { a = 14; throw x }) } finally { b = 15 }", "throw", {"a": 14, "b": 15}),
    ("deep array join fails", None, "c = 16; var dj = []; for (var i = 0; i < 150; i++) { dj = [dj] } '' + dj;", "deepjoin", {"c": 16}),
]
TICK = len(OPS)          # environment transition: the clock jumps past every time limit

PRIMITIVE_KEYS_PROBE = "0,0,0,undefined,0"
PROBES = ["a", "b", "c"]
EVAL_PROBES = [("f", "typeof f === 'function' ? f() : 'nofn'"), ("zz", "var o = {}; o.zz"), ("yy", "Math.yy"),
               ("pi", "parseInt('7')"), ("undef", "typeof neverdefined"), ("re", "typeof re === 'object' ? 1 : 0"),
               ("uncaught", "throw 'probe'"), ("caught", "var pr; try { null.x } catch (e) { pr = 'c' } pr"),
               ("json", "JSON.stringify({q: [1, {}]}) + (typeof cy === 'object' && cy.k.self === 1 ? JSON.stringify(cy.k) : '')"),
               ("join", "[1, [2, 3]].join() + [[]].join().length"),
               ("primitive-keys", "[Object.keys(7).length, Object.values(false).length, Object.entries(3).length, typeof Object.keys(9).pkz, "
                                  "(function () { try { return Object.keys().length } catch (e) { return e.name } })()].join()")]


def initial(n):
    return tuple(tuple(sorted({"a": None, "b": None, "c": None, "f": None, "zz": None, "yy": None, "pi": None,
                               "re": None, "cy": None, "ga": None, "km": None}.items())) for _ in range(n))


def enabled(op, cfg):
    need = OPS[op][1]
    if need == "time":
        return cfg["tl"] is not None
    if need == "limit":
        return cfg["tl"] is not None or cfg["ml"] is not None
    return True


def step_model(state, ci, op):
    d = dict(state[ci])
    upd = OPS[op][4]
    if upd == "inc":
        d["a"] = (d["a"] if isinstance(d["a"], int) else 0) + 1
    elif upd == "uncycle":
        if d["cy"] == 1:
            d["cy"] = 2
    else:
        d.update(upd)
    return state[:ci] + (tuple(sorted(d.items())),) + state[ci + 1:]


def model_obs(cstate):
    d = dict(cstate)
    o = [repr(d[k]) for k in PROBES]
    o.append(repr(d["f"] if d["f"] is not None else "nofn"))
    o.append(repr(d["zz"]))
    o.append(repr(d["yy"]))
    o.append(repr(d["pi"] if d["pi"] is not None else 7))
    o.append(repr("undefined"))
    o.append(repr(1 if d["re"] else 0))
    o.append("raises JSError")
    o.append(repr("c"))
    o.append(repr('{"q":[1,{}]}' + ('{"v":1,"self":1}' if d["cy"] == 2 else "")))
    o.append(repr("1,2,30"))
    o.append(repr(PRIMITIVE_KEYS_PROBE))
    return ",".join(o)


def explore(ncontexts, depth):
    """BFS over the reference model. Returns (states, transitions) where a transition is
    (representative history of the source state, (ctx, op))."""
    cfgs = CONFIGS[:ncontexts]
    init = initial(ncontexts)
    seen = {init: []}
    frontier = collections.deque([(init, [])])
    transitions = []
    while frontier:
        st, hist = frontier.popleft()
        if len(hist) >= depth:
            continue
        moves = [(ci, op) for ci in range(ncontexts) for op in range(len(OPS)) if enabled(op, cfgs[ci])]
        moves.append((-1, TICK))
        for mv in moves:
            ci, op = mv
            nxt = st if op == TICK else step_model(st, ci, op)
            transitions.append((hist, mv))
            if nxt not in seen:
                seen[nxt] = hist + [mv]
                frontier.append((nxt, hist + [mv]))
    return seen, transitions


def run_history(payload):
    """Replay a history on fresh contexts; observe every context after every step; compare with the model."""
    from mc.props.common import engine
    e = engine()
    n = payload["n"]
    cfgs = CONFIGS[:n]
    e.CLOCK.reset("poll")
    ctxs = [e.Context(time_limit=c["tl"], memory_limit=c["ml"]) for c in cfgs]
    state = initial(n)
    obs, exp = [], []

    def observe(ctx):
        o = []
        for k in PROBES:
            try:
                o.append(repr(ctx.get(k)))
            except Exception as ex:  # noqa: BLE001
                o.append("get raises " + type(ex).__name__)
        for _, src in EVAL_PROBES:
            try:
                o.append(repr(ctx.eval(src)))
            except Exception as ex:  # noqa: BLE001
                o.append("raises " + type(ex).__name__)
        return ",".join(o)

    for ci, op in payload["h"]:
        if op == TICK:
            e.CLOCK.now += 1000.0
            oc = want = "tick"
        else:
            name, need, src, cls, upd = OPS[op]
            ctx = ctxs[ci]
            d = dict(state[ci])
            try:
                if isinstance(src, tuple):
                    ctx.set(src[1], src[2])
                    oc = "value"
                else:
                    ctx.eval(src)
                    oc = "value"
            except e._errors.TimeLimitError:
                oc = "time"
            except e._errors.MemoryLimitError:
                oc = "memory"
            except e._errors.JSSyntaxError:
                oc = "syntax"
            except e._errors.JSError:
                oc = "throw"
            except Exception as ex:  # noqa: BLE001
                oc = "host " + type(ex).__name__
            if cls == "call":
                want = "value" if d["f"] is not None else "throw"
            elif cls == "limit":
                want = oc if oc in ("time", "memory") else "time or memory"
            elif cls == "deepjoin":
                want = oc if oc in ("value", "throw", "time", "memory") else "value or a JSError"
            elif cls == "regex":
                want = oc if oc in ("value", "time") and cfgs[ci]["tl"] is not None else "value"
            else:
                want = cls
            state = step_model(state, ci, op)
        obs.append(oc)
        exp.append(want)
    # every prefix of a representative history is a case of its own, so the state is observed after the last step only
    obs.append(" / ".join(observe(c) for c in ctxs))
    exp.append(" / ".join(model_obs(s) for s in state))
    return " || ".join(obs) + "\x00" + " || ".join(exp)


# ---------------------------------------------------------------------------------------------
# residue across contexts of one process: an operation repeated many times elsewhere must leave a fresh context pristine

REPEATS = [1, 101, 250]
FRESH_PROBES = EVAL_PROBES + [
    ("deep-join-100", "var dj = []; for (var i = 0; i < 99; i++) { dj = [dj] } ('' + dj).length"),
    ("nested-callbacks", "[1, 2].map(function (x) { return [x].map(function (y) { return y * 2 })[0] }).join()"),
    ("regex", "/^(a+)+b/.test('aaaab') + '|' + 'xay'.replace(/a/, function (m) { return m + m })"),
    ("search-string-pattern", "'xxab'.search('a+b') + '|' + 'xxab'.match('(a)(b)').length"),
    ("stringify-nested", "JSON.stringify({a: [1, {b: [2, {c: 3}]}]})"),
    ("recursion-60", "(function r(n) { return n ? 1 + r(n - 1) : 0 })(60)"),
    ("sort", "[3, 1, 2].sort(function (a, b) { return a - b }).join()"),
    ("eval-in-eval", "(1, eval)('(1, eval)(\"1 + 1\")')"),
    ("try-finally", "var tf = []; try { try { throw 1 } finally { tf.push('f') } } catch (e) { tf.push('c') } tf.join()"),
]


def run_repeat(payload):
    from mc.props.common import engine
    e = engine()
    cfg = CONFIGS[payload["cfg"]]

    def fresh():
        e.CLOCK.reset("poll")
        return e.Context(time_limit=cfg["tl"], memory_limit=cfg["ml"])

    def probes():
        c = fresh()
        o = []
        for _, src in FRESH_PROBES:
            e.CLOCK.reset("poll")
            try:
                o.append(repr(c.eval(src)))
            except Exception as ex:  # noqa: BLE001
                o.append("raises " + type(ex).__name__)
        return ",".join(o)

    before = probes()
    name, need, src, cls, upd = OPS[payload["op"]]
    shared = fresh() if payload["same"] else None
    for _ in range(payload["n"]):
        c = shared if shared is not None else fresh()
        e.CLOCK.reset("poll")
        try:
            if isinstance(src, tuple):
                c.set(src[1], src[2])
            else:
                c.eval(src)
        except e._errors.JSError:
            pass
        except Exception as ex:  # noqa: BLE001
            return "operation raises host " + type(ex).__name__ + "\x00" + before
    return probes() + "\x00" + before


def _repeat_cases():
    out = []
    for op in range(len(OPS)):
        for ci, cfg in enumerate(CONFIGS):
            if not enabled(op, cfg) or (ci == 2 and OPS[op][1] is None):
                continue
            for n in REPEATS:
                for same in (False, True):
                    out.append(("%s repeated %d times in %s (limits %s), then a fresh context is probed"
                                % (OPS[op][0], n, "one other context" if same else "fresh contexts", cfg),
                                {"op": op, "n": n, "same": same, "cfg": ci, "h": [(0, op)] * 2}))
    return out


def label(h):
    return " ; ".join("tick" if op == TICK else "ctx%d: %s" % (ci, OPS[op][0]) for ci, op in h)


_cache = {}


def _explored(n, depth):
    k = (n, depth)
    if k not in _cache:
        _cache[k] = explore(n, depth)
    return _cache[k]


def _cases(n, depth):
    states, transitions = _explored(n, depth)
    out = []
    for hist, mv in transitions:
        h = hist + [mv]
        out.append(("%d contexts | %s" % (n, label(h)), {"n": n, "h": h}))
    return out


def _sp(name, fn, rule, bound):
    return Space(name, "mc.props.c12:run_history", fn, oracle="inline", rule=rule, bound=bound, batch=50, watchdog=60,
                 nontrivial=lambda cid, p, exp: len(p["h"]) >= 2)


_plan = {"quick": [(2, 3)], "thorough": [(2, 4), (3, 3)]}


def spaces(tier, seed, all_strata=False):
    out = [Space("c12_repeat", "mc.props.c12:run_repeat", _repeat_cases, oracle="inline", batch=4, watchdog=120,
                 nontrivial=lambda cid, p, exp: True, bound="ops x {1,101,250} x 2 x configs", differential=True,
                 rule="every operation repeated 1 / 101 / 250 times, in fresh contexts or in one other context, under each limit "
                      "configuration that enables it; afterwards a brand-new context must answer %d probes (built-in state, deep join at "
                      "the legal depth, nested callbacks, regex APIs with string patterns, nested eval, try/finally) exactly as a "
                      "brand-new context did before" % len(FRESH_PROBES))]
    todo = _plan["thorough"] + _plan["quick"] if all_strata else _plan[tier]
    for n, depth in todo:
        out.append(_sp("c12_bfs_%dctx_d%d" % (n, depth), (lambda n=n, depth=depth: _cases(n, depth)),
                       "breadth-first search of the reference model with %d contexts (limits: none / time / time+memory) to depth %d "
                       "over 23 operations per context (define, assign, redefine and call a function, mutate three built-ins, "
                       "throw / loop forever / recurse forever after a committed effect, syntax error, indirect eval, new Function, "
                       "keep and reuse a regex, set) plus a clock tick; one case per model transition, replayed from a fresh "
                       "set of contexts, the outcome class of every step and the state of ALL contexts (13 probes each) after the last step compared with the model; non-trivial = history of "
                       "length >= 2" % (n, depth), "depth %d" % depth))
    return out


def extra_coverage(res):
    st = tr = 0
    for sp in res.per_space:
        if sp["space"] == "c12_repeat":
            continue
        parts = sp["space"].split("_")
        n, depth = int(parts[2][0]), int(parts[3][1:])
        s, t = _explored(n, depth)
        st += len(s)
        tr += len(t)
    return {"states": st, "transitions": tr,
            "traces_validated_against_impl": res.evaluations - res.disagreements,
            "model": "per-context dict of tracked globals and built-in mutation flags; dedup on the full model state"}


def signature(sp, cid, payload, exp, obs):
    if sp.name == "c12_repeat":
        eo, oo = exp.split(","), obs.split(",")
        bad = [FRESH_PROBES[i][0] for i in range(min(len(eo), len(oo), len(FRESH_PROBES))) if eo[i] != oo[i]] or [obs[:40]]
        return "repeat|%s|%s" % (OPS[payload["op"]][0], "+".join(bad)), (
            "after `%s` ran many times elsewhere, a fresh context answers differently: %s" % (OPS[payload["op"]][0], ", ".join(bad)))
    eo, oo = exp.split(" || "), obs.split(" || ")
    for i, (a, b) in enumerate(zip(eo, oo)):
        if a != b:
            if i < len(payload["h"]):
                ci, op = payload["h"][i]
                opn = "tick" if op == TICK else OPS[op][0]
                return opn + "|outcome", "operation `%s`: outcome %s where the model says %s" % (opn, b, a)
            ci, op = payload["h"][-1]
            opn = "tick" if op == TICK else OPS[op][0]
            return opn + "|state", "after `%s`: observed context state differs from the model" % opn
    return "length", "history length differs"
