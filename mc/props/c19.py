"""C19  JSON.parse and JSON.stringify implement the JSON/ECMAScript contract.

E1 (bounded-exhaustive enumeration):
  texts     every token sequence up to a length bound over a 21-token alphabet -> acceptance, value, error class
  values    every JSON value up to a depth/width bound over boundary leaves     -> stringify text, parse(stringify(v))
  nonrep    every non-representable thing x position                           -> stringify result (text or undefined)
  cycles    cyclic structures                                                  -> catchable TypeError
  canon     stringify(parse(t)) for every short text                           -> canonical text
Oracle: V8 expected-outcome tables (tables/c19_*.json.gz).
"""
import itertools
import re

from mc.core.runner import Space
from .common import mismatch_kind, tail

PROP = "C19"
LEVEL = "exploration"
ASSUMPTIONS = [
    "expected outcomes were computed at build time by V8 (node 20, strict mode) for exactly the enumerated "
    "case ids and are pinned by SHA-256 of the case list",
    "object keys are restricted to non-integer-like strings (a, b, A, the empty key, __proto__) so that key order "
    "is plain insertion order in both engines",
    "texts longer than 5 tokens, values deeper than 3 and astral characters are not explored (except for a "
    "hand-written list of longer texts in c19_text_extra)",
    "error messages are not compared, only the error class as seen by script (instanceof)",
]
RUN = "mc.props.common:run_src"


def js_lit(s):
    """JavaScript string literal, pure printable ASCII, for an arbitrary string of UTF-16 units."""
    out = ['"']
    for ch in s:
        o = ord(ch)
        if 0x20 <= o < 0x7F and ch not in '"\\':
            out.append(ch)
        else:
            out.append("\\u%04x" % o)
    out.append('"')
    return "".join(out)


# ------------------------------------------------------------------ (a) texts

TOKENS = ["{", "}", "[", "]", ":", ",", '"a"', '""', '"\\u0041"', '"\n"', "1", "-0", "1.5e1", "01", "1.", "true",
          "null", "NaN", "'a'", " ", "\t"]
TOKENS12 = ["{", "}", "[", "]", ":", ",", '"a"', "1", "-0", "null", "NaN", " "]

PARSE_TMPL = 'var r; try { r = JSON.parse(%s); __out("ok") } catch (e) { __out(e instanceof SyntaxError); r = "reject" } r'
CANON_TMPL = 'var r; try { r = JSON.stringify(JSON.parse(%s)) } catch (e) { r = "reject" } r'


def parse_case(t, arg=None):
    if arg is not None:
        return ("parse-arg " + arg, {"src": PARSE_TMPL % arg})
    a = js_lit(t)
    return ("parse " + a, {"src": PARSE_TMPL % a})


def canon_case(t):
    a = js_lit(t)
    return ("canon " + a, {"src": CANON_TMPL % a})


def token_texts(alphabet, lengths):
    for n in lengths:
        for seq in itertools.product(alphabet, repeat=n):
            yield "".join(seq)


def text_cases(alphabet, lengths, first=None, skip=None):
    out = []
    seen = set(skip) if skip else set()
    for n in lengths:
        for seq in itertools.product(alphabet, repeat=n):
            if first is not None and seq[0] != first:
                continue
            t = "".join(seq)
            if t in seen:          # e.g. "" + "" : different token sequences, same text
                continue
            seen.add(t)
            out.append(parse_case(t))
    return out


def canon_cases():
    out, seen = [], set()
    for t in token_texts(TOKENS, (1, 2, 3)):
        if t not in seen:
            seen.add(t)
            out.append(canon_case(t))
    return out


NUM_ATOMS = ["0", "-0", "-1", "1.5", "-1.5e-2", "1E3", "1e+3", "1e-3", "1e", "1e+", "-", "+", "+1", ".5", "0.5", "1.e1",
             "00", "-01", "0x10", "1_0", "1e999", "-1e999", "1e400", "5e-324", "1e-400", "12345678901234567890",
             "9007199254740993", "123456789012345678901234567890", "0.1", "1.7976931348623157e308", "1e21", "1e-7",
             "100", "1.0", "1.50", "Infinity", "-Infinity", "+Infinity", "NaN", "-NaN", "undefined", "True", "None",
             "nul", "nulll", "tru", "TRUE", "false", "-true", "- 1", "1 .5"]
STR_ATOMS = ['"\\n"', '"\\""', '"\\\\"', '"\\/"', '"\\b\\f\\r\\t"', '"\\u00e9"', '"\\u00E9"', '"\u00e9"', '"\\ud800"',
             '"\\udc00\\ud800"', '"\\x41"', "\"\\'\"", '"\\a"', '"\\u12"', '"\\u00g0"', '"\\', '"abc', '"a"b"', '"\t"',
             '"\x1f"', '"\x7f"', '"\u2028"', '"\\0"', '"\\v"', '"\\U0041"', '"\x00"', '"\r"', '"\\u0000"', '"a\\',
             '"\\u"', '"\\u+041"', '"\\u 041"', '"\\u-041"', '"\\u0x41"', '"\\u00_1"']
WS = ["\n", "\r", "\x0c", "\x0b", "\u00a0", "\ufeff", "\u2028", "\u2029", "\u3000", "//c\n", "/*c*/", "\x00", "\x1c", "\x85"]
STRUCT_TEXTS = ['{"a":1,"a":2}', '{"a":1,"b":2,"a":3}', '{"b":1,"a":2}', '{"__proto__":1}', '{"__proto__":{"x":1}}',
                '{"__proto__":null,"a":1}', '{a:1}', "{'a':1}", '{"a":1,}', "[1,]", "[,1]", "[1,,2]", "[1 2]", '{"a" 1}',
                '{"a":1 "b":2}', "{1:2}", "[[[[[[1]]]]]]", '{"a":{"a":{"a":{}}}}', "", " ", "[]]", "[] []", "{}{}",
                "1 2", '"a" "b"', "[1]x", "[1];", "(1)", "[1,2,3]", '{"a":[1,{"b":null}],"c":"d"}',
                '[{"a":1},{"a":2}]', '{"a":true,"b":false,"c":null}', '{"constructor":1,"toString":2}',
                '{"length":1}', '{"hasOwnProperty":1}', '[1e2,1E2,-1e-2]', "[\n1\n,\r\n2\t]", '{ "a" : 1 }',
                '{"a":1}}', '{{"a":1}', '["a":1]', '{"a"}', '{"a":}', '{:1}', '{,}', '[,]', '{"a":1,"b"}', "[1,2", "[1,2}",
                '{"a":1]', "nullnull", "truefalse", "[truefalse]", "[null1]", '[1"a"]', '["a"1]', "[-]", "[1,-]"]
ARG_EXPRS = ["", "1", "null", "true", "undefined", "[1]", "[1,2]", "{}", '"1", function (k, v) { return v }',
             '"[1,2]", function (k, v) { return typeof v === "number" ? v * 2 : v }',
             '"{\\"a\\":1,\\"b\\":2}", function (k, v) { if (k === "a") { return undefined } return v }',
             '"[1,[2]]", function (k, v) { __out(k); return v }', '"1", null', '"1", 5', "1.5", "-0", '" 1 "', '"1", undefined',
             '(function () { var s = "1"; for (var i = 0; i < 13; i++) { s = s + s } return s })()',
             '(function () { var s = "[[[["; for (var i = 0; i < 8; i++) { s = s + s } return s })()']


_short = {}


def short_texts(n):
    """Texts already covered by the token enumeration up to length n."""
    if n not in _short:
        _short[n] = set(token_texts(TOKENS, range(1, n + 1)))
    return _short[n]


def extra_text_cases():
    out, seen = [], set(short_texts(4))
    seen.update(token_texts(TOKENS12, (5,)))

    def add(t):
        if t not in seen:
            seen.add(t)
            out.append(parse_case(t))

    for a in NUM_ATOMS + STR_ATOMS:
        for ctx in ("%s", "[%s]", '{"a":%s}', " %s ", "[%s,%s]", "[1,%s", "%s]"):
            add(ctx.replace("%s", a))
    for a in STR_ATOMS:
        add("{%s:1}" % a)
    for w in WS:
        for ctx in ("%s1", "1%s", "[%s1]", "[1%s]", "[1%s,2]", '{%s"a":1}', '{"a"%s:1}', '"%s"', "%s", "1%s1"):
            add(ctx.replace("%s", w))
    for t in STRUCT_TEXTS:
        add(t)
    for e in ARG_EXPRS:
        out.append(parse_case(None, arg=e))
    return out


def extra_canon_cases():
    out, seen = [], set(short_texts(3))
    for a in NUM_ATOMS + STR_ATOMS:
        for ctx in ("%s", "[%s]", '{"a":%s}'):
            t = ctx.replace("%s", a)
            if t not in seen:
                seen.add(t)
                out.append(canon_case(t))
    for t in STRUCT_TEXTS:
        if t not in seen:
            seen.add(t)
            out.append(canon_case(t))
    return out


# ------------------------------------------------------------------ (b) values

LEAVES = ["0", "-0", "1", "1.5", "1e21", "1e-7", "9007199254740992", '""', '"a"', '"\\""', '"\\\\"', '"\\n"', '" "',
          '"\\u00e9"', '"\\ud800"', "true", "false", "null", "1.5e1"]
KEYS = ["a", "", "b", "__proto__"]


def containers(children, keys, width, arrays=True, objects=True):
    """All arrays and objects (as JS source) of width <= `width` over `children` (sources) and ordered,
    pairwise distinct key sequences over `keys`."""
    out = []
    for w in range(width + 1):
        for kids in itertools.product(children, repeat=w):
            if arrays:
                out.append("[" + ",".join(kids) + "]")
            if objects:
                for ks in itertools.permutations(keys, w):
                    out.append("{" + ",".join('"%s":%s' % (k, v) for k, v in zip(ks, kids)) + "}")
    return out


def values_d1():
    return LEAVES + containers(LEAVES, KEYS, 2)


L6 = ["-0", "1.5e1", '"a"', '"\\u00e9"', "null", "1e-7"]
L3 = ["-0", '"\\n"', "true"]
L2 = ["1.5e1", '"\\u00e9"']


def values_d2():
    kids = L6 + containers(L3, ["a", "__proto__"], 2)
    d1 = set(values_d1())
    return [v for v in containers(kids, KEYS, 2) if v not in d1]      # depth 2 proper


def values_d3():
    """Depth-3 values proper: containers of width 1..2 with at least one depth-2 child."""
    d1 = containers(L2, ["a", "__proto__"], 2)
    d2 = [v for v in containers(L2 + containers(L2, ["a"], 1), ["a", "b"], 2) if v not in set(d1)]
    kids = ["0", '"\\""', "null"] + d1 + d2
    d2set = set(d2)
    res = []
    for a in d2:
        res += ["[%s]" % a, '{"a":%s}' % a, '{"__proto__":%s}' % a]
    for a in kids:
        for b in kids:
            if a in d2set or b in d2set:
                res.append("[%s,%s]" % (a, b))
                res.append('{"a":%s,"b":%s}' % (a, b))
                res.append('{"b":%s,"a":%s}' % (a, b))
    return res


def value_cases(vals, forms):
    out = []
    for v in vals:
        for f in forms:
            if f == "str":
                src = "JSON.stringify(%s)" % v
            elif f == "rt":
                src = "var w = JSON.parse(JSON.stringify(%s)); __out(JSON.stringify(w)); w" % v
            elif f == "ind2":
                src = "JSON.stringify(%s, null, 2)" % v
            elif f == "indtab":
                src = 'JSON.stringify(%s, null, "\\t")' % v
            elif f == "replarr":
                src = 'JSON.stringify(%s, ["a"])' % v
            elif f == "replfn":
                src = ('JSON.stringify(%s, function (k, v) { if (typeof v === "number") { return v + 1 } '
                       'if (k === "b") { return undefined } return v })' % v)
            else:
                raise ValueError(f)
            out.append((src, None))
    return out


def indent_values():
    kids = ["1", '"a"', "[]", "{}", "[1]", '{"a":1}', '[1,"a"]', '{"a":1,"b":[]}', "[[]]", '{"a":{}}']
    return list(dict.fromkeys(kids + containers(kids, ["a", "b"], 2)))


def indent_arg_cases():
    out = []
    v = '{"a":[1,{"b":2}],"b":[]}'
    for ind in ["0", "1", "10", "11", "100", "-1", "2.9", '""', '" "', '"ab"', '"0123456789AB"', "true", "null",
                "undefined", '"\\n"', "NaN", "[]", "{}", 'new Number(3)', 'new String("-")']:
        out.append(("JSON.stringify(%s, null, %s)" % (v, ind), None))
    return out


def replacer_values():
    kids = ["1", '"a"', "null", "[2]", '{"a":1}', '{"b":1}', '{"a":1,"b":2}', '{"b":2,"a":1}', '[{"a":1,"b":2}]',
            '{"a":{"a":1,"b":2},"b":3}']
    return list(dict.fromkeys(kids + containers(kids[:6], ["a", "b"], 2)))


def replacer_arg_cases():
    out = []
    v = '{"a":1,"b":{"a":2,"c":3},"c":[4,{"a":5}]}'
    for r in ['["c","a"]', '[]', '["a","a"]', '["b"]', 'null', 'undefined', '1', '"a"', '{}',
              'function (k, v) { return v }', 'function (k, v) { return k === "" ? v : 7 }',
              'function (k, v) { return undefined }', 'function (k, v) { __out(k); return v }',
              'function (k, v) { __out(typeof this); return v }',
              'function (k, v) { return typeof v === "number" ? [v] : v }',
              'function (k, v) { return k === "a" ? function () {} : v }']:
        out.append(("JSON.stringify(%s, %s)" % (v, r), None))
    return out


# ------------------------------------------------------------------ (c) non-representable positions

NONREP = [
    ("undefined", "", "undefined"),
    ("function", "", "function () { return 1 }"),
    ("arrow", "", "(function () { return function (x) { return x } })()"),
    ("NaN", "", "NaN"),
    ("Infinity", "", "Infinity"),
    ("-Infinity", "", "-Infinity"),
    ("0/0 computed", "", "(0 / 0)"),
    ("typed array", "", "new Uint8Array([1, 2])"),
    ("float typed array", "", "new Float64Array([1.5])"),
    ("empty typed array", "", "new Int8Array(0)"),
    ("regex", "", "/a/g"),
    ("accessor", "", "{get a() { return 1 }}"),
    ("accessor+data", "", "{b: 2, get a() { return 1 }, c: 3}"),
    ("accessor throws", "", '{get a() { throw new TypeError("x") }}'),
    ("inherited", "", "Object.create({a: 1})"),
    ("inherited+own", "var q = Object.create({a: 1}); q.b = 2; ", "q"),
    ("null proto", "var q = Object.create(null); q.a = 1; ", "q"),
    ("toJSON", "", "{toJSON: function () { return 5 }}"),
    ("toJSON->undefined", "", "{a: 1, toJSON: function () { return undefined }}"),
    ("toJSON(key)", "", "{toJSON: function (k) { return \"k=\" + k }}"),
    ("toJSON->object", "", "{toJSON: function () { return {z: [1]} }}"),
    ("toJSON not callable", "", "{toJSON: 1, a: 2}"),
    ("inherited toJSON", "", "Object.create({toJSON: function () { return 6 }})"),
    ("toJSON this", "", "{v: 9, toJSON: function () { return this.v }}"),
    ("Number object", "", "new Number(1.5)"),
    ("String object", "", 'new String("s")'),
    ("Boolean object", "", "new Boolean(false)"),
    ("array with extra property", "var q = [1]; q.x = 2; ", "q"),
    ("new Array(2)", "", "new Array(2)"),
    ("Math", "", "Math"),
    ("JSON", "", "JSON"),
    ("arguments", "", "(function () { return arguments })(1, 2)"),
    ("Error object", "", 'new Error("m")'),
    ("bound/native function", "", "Math.abs"),
    ("deleted property", "var q = {a: 1, b: 2, c: 3}; delete q.b; ", "q"),
    ("re-added property", "var q = {a: 1, b: 2, c: 3}; delete q.a; q.a = 4; ", "q"),
    ("overwritten property", "var q = {a: 1, b: 2}; q.a = 3; ", "q"),
    ("non-enumerable", 'var q = {a: 1}; Object.defineProperty(q, "h", {value: 2, enumerable: false}); ', "q"),
    ("array length set", "var q = [1, 2, 3]; q.length = 1; ", "q"),
    ("void 0", "", "void 0"),
    # typed arrays holding values JSON cannot write
    ("Float64Array non-finite", "", "new Float64Array([NaN, Infinity, -Infinity, -0, 1.5])"),
    ("Float32Array non-finite", "", "new Float32Array([1.5, NaN, -Infinity])"),
    ("Float64Array NaN only", "", "new Float64Array([NaN])"),
    # strings and keys with surrogates in every arrangement
    ("lone lead", "", '"a\\ud800b"'), ("lone trail", "", '"a\\udc00b"'), ("only lone trail", "", '"\\udfff"'), ("pair", "", '"\\ud83d\\ude00"'),
    ("reversed pair", "", '"\\ude00\\ud83d"'), ("trail then pair", "", '"\\udc00\\ud83d\\ude00"'), ("pair then lead", "", '"\\ud83d\\ude00\\ud800"'),
    ("lone trail key", "", '{"\\udc00": 1}'), ("lone lead key", "", '{"k\\ud800": 1}'), ("lone trail + quote", "", '"\\udc00\\"\\n"'),
    ("String object lone trail", "", 'new String("\\udc01")'), ("toJSON -> lone trail", "", '{toJSON: function () { return "\\udc02" }}'),
    # deletion and re-creation on objects that own accessors (they keep a separate key order)
    ("accessor, data re-added", "var q = {a: 1, get g() { return 5 }, b: 2}; delete q.a; q.a = 4; ", "q"),
    ("accessor, data deleted", "var q = {a: 1, get g() { return 5 }, b: 2}; delete q.a; ", "q"),
    ("accessor, two re-added", "var q = {a: 1, b: 2, get g() { return 5 }, c: 3}; delete q.b; delete q.a; q.b = 7; q.d = 8; q.a = 9; ", "q"),
    ("accessor re-added as data", "var q = {a: 1, get g() { return 5 }, b: 2}; delete q.g; q.g = 6; ", "q"),
    ("accessor defined later, data re-added", 'var q = {a: 1, b: 2}; Object.defineProperty(q, "g", {get: function () { return 5 }, enumerable: true, configurable: true}); delete q.a; q.a = 4; ', "q"),
    ("setter only, data re-added", "var q = {a: 1, set s(v) { }, b: 2}; delete q.a; q.a = 4; ", "q"),
    # JSON.stringify started again while a call is in progress
    ("getter stringifies another", "var o2 = {x: [1, {y: 2}]}; ", "{a: 1, get g() { return JSON.stringify(o2) }, b: o2}"),
    ("getter stringifies the root once", "var busy = false; var q = {a: 1, get g() { if (busy) { return 0 } busy = true; var r; try { r = JSON.stringify(q) } catch (e) { r = e.name } busy = false; return r }, b: [2]}; ", "q"),
    ("toJSON stringifies this", "var busy = false; var q = {a: [1], toJSON: function () { if (busy) { return 7 } busy = true; var r; try { r = JSON.stringify(this) } catch (e) { r = e.name } busy = false; return {was: r, a: this.a} }}; ", "q"),
    ("toJSON stringifies sibling", "var sib = {k: [1]}; ", "{s: sib, t: {toJSON: function () { return JSON.stringify(sib) + JSON.stringify([sib, sib]) }}}"),
    ("inner call fails on a cycle", "var cyc = {}; cyc.c = cyc; ", "{a: [1], get g() { try { return JSON.stringify(cyc) } catch (e) { return e.name } }, b: {c: 2}}"),
    ("inner call fails, same object later", "var cyc = {}; cyc.c = cyc; var ok = {z: 1}; ", "[ok, {get g() { try { return JSON.stringify([ok, cyc]) } catch (e) { return e.name } }}, ok, [ok]]"),
    ("getter throws then plain", "var t = {get g() { throw new RangeError('r') }}; var ok = {z: [1]}; var first; try { JSON.stringify([ok, t]) } catch (e) { first = e.name } ", "[first, ok, [ok]]"),
]
REENTRANT_CALLS = [
    ("replacer stringifies holder", "var depth = 0; function rep(k, v) { if (depth) { return v } depth++; var r; try { r = JSON.stringify(this) } catch (e) { r = e.name } depth--; "
                                    "return typeof v === 'number' ? r : v } ", "JSON.stringify({a: 1, b: [2, {c: 3}]}, rep)"),
    ("replacer stringifies value", "var depth = 0; function rep(k, v) { if (depth || typeof v !== 'object') { return v } depth++; var r; try { r = JSON.stringify(v) } catch (e) { r = e.name } depth--; "
                                   "return k === 'b' ? r : v } ", "JSON.stringify({a: {x: 1}, b: [2, {c: 3}], c: {b: {d: 4}}}, rep)"),
    ("reviver stringifies holder", "", "JSON.stringify(JSON.parse('{\"a\":[1,{\"b\":2}],\"c\":3}', function (k, v) { return typeof v === 'number' ? JSON.stringify(this) : v }))"),
    ("stringify inside toString of key", "var o2 = {p: [1]}; var k = {toString: function () { return JSON.stringify(o2) }}; var q = {}; q[k] = o2; ", "JSON.stringify([q, o2])"),
    ("parse inside toJSON", "", "JSON.stringify({a: {toJSON: function () { return JSON.parse('[1,{\"z\":[2]}]') }}, b: 1})"),
    ("indent, getter stringifies with other indent", "var o2 = {x: [1]}; ", "JSON.stringify({a: [1], get g() { return JSON.stringify(o2, null, 4) }, b: o2}, null, 1)"),
    ("replacer array outer, none inner", "var o2 = {a: 1, z: 2}; ", "JSON.stringify({a: 1, z: 2, get g() { return JSON.stringify(o2) }}, ['a', 'g'])"),
]
POSITIONS = [("root", "%s"), ("in array", "[%s]"), ("mid array", "[1, %s, 2]"), ("property", "{a: %s}"),
             ("mid property", "{a: 1, b: %s, c: 2}"), ("array in object", "{a: [%s]}"), ("object in array", "[{a: %s}]"),
             ("twice", "[%s, %s]")]


def nonrep_cases():
    out = []
    for label, pre, expr in NONREP:
        for pname, ptmpl in POSITIONS:
            val = ptmpl.replace("%s", expr)
            for fname, ftmpl in (("", "JSON.stringify(v)"), (" indent", "JSON.stringify(v, null, 1)")):
                if fname and pname not in ("root", "mid property", "mid array"):
                    continue
                src = "%svar v = %s; var res; try { res = %s } catch (e) { __out(e instanceof TypeError); res = \"threw\" } res" % (
                    pre, val, ftmpl)
                out.append(("nonrep %s / %s%s :: %s" % (label, pname, fname, src), {"src": src}))
    for label, pre, call in REENTRANT_CALLS:
        src = "%svar res; try { res = %s } catch (e) { __out(e instanceof TypeError); res = \"threw\" } res" % (pre, call)
        out.append(("nonrep %s :: %s" % (label, src), {"src": src}))
    # argument-count edge
    for src in ("JSON.stringify()", "typeof JSON.stringify", "typeof JSON.parse", "typeof JSON", "JSON.stringify(null)",
                "JSON.stringify(true)", 'JSON.stringify("")'):
        out.append(("nonrep misc :: " + src, {"src": src}))
    return out


CYCLES = [
    ("self array", "var a = []; a[0] = a; ", "a"),
    ("self object", "var o = {}; o.a = o; ", "o"),
    ("object through array", "var o = {}; o.a = [o]; ", "o"),
    ("array through object", "var a = []; a[0] = {x: a}; ", "a"),
    ("length-3 objects", "var a = {}, b = {}, c = {}; a.x = b; b.x = c; c.x = a; ", "a"),
    ("length-3 mixed", "var a = [], b = {}, c = []; a[0] = b; b.x = c; c[0] = a; ", "b"),
    ("cycle below root", "var o = {}; o.a = o; ", "[1, {k: o}]"),
    ("cycle via toJSON", "var o = {toJSON: function () { return o2 }}; var o2 = {a: o}; ", "o2"),
    ("shared, acyclic (array)", "var s = {a: 1}; ", "[s, s]"),
    ("shared, acyclic (object)", "var s = [1]; ", "{a: s, b: s}"),
    ("shared, acyclic (diamond)", "var s = {a: 1}; var l = {s: s}, r = {s: s}; ", "{l: l, r: r}"),
    ("deep acyclic 30", "var d = 1; for (var i = 0; i < 30; i++) { d = [d] } ", "d"),
    ("deep acyclic objects 30", "var d = 1; for (var i = 0; i < 30; i++) { d = {a: d} } ", "d"),
]


def cycle_cases():
    out = []
    for label, pre, expr in CYCLES:
        for fname, call in (("", "JSON.stringify(%s)"), (" indent", "JSON.stringify(%s, null, 2)")):
            src = ('%svar res; try { res = %s; __out("no throw") } catch (e) { __out(e instanceof TypeError); '
                   '__out(e instanceof RangeError); res = "threw" } res' % (pre, call % expr))
            out.append(("cycle %s%s :: %s" % (label, fname, src), {"src": src, "tl": 50}))
    return out


# ------------------------------------------------------------------ spaces

def nontrivial(cid, payload, exp):
    """parse/canon: the text has more than one character; stringify forms: the value is not a bare small literal."""
    if cid.startswith("parse ") or cid.startswith("canon "):
        return len(cid) > 9
    if cid.startswith("parse-arg "):
        return True
    return True


def _space(name, cases, rule, bound, batch=400):
    return Space(name, RUN, cases, oracle="table", nontrivial=nontrivial, rule=rule, bound=bound, batch=batch, agree=agree)


def agree(exp, obs, cid):
    # V8 ends an unbounded recursion of the serialiser with its own stack-overflow RangeError (class `stack` in the table); the
    # engine ends it with a catchable RangeError or one of its limits. Which resource gives out first is not specified.
    if exp.rpartition("|")[2] == "Estack":
        return obs.rpartition("|")[2] in ("Ethrow", "Ememory", "Etime")
    return exp == obs


def agree_for_space(name):
    return agree


def core_spaces():
    return [
        _space("c19_text4", lambda: text_cases(TOKENS, (1, 2, 3, 4)),
               "JSON.parse of every concatenation of <= 4 tokens of the 21-token alphabet; logs acceptance or "
               "`e instanceof SyntaxError`, returns the parsed value; non-trivial = text longer than one character",
               "21^1..21^4 token sequences (distinct texts)"),
        _space("c19_text_extra", extra_text_cases,
               "number / string / whitespace atoms x 7 contexts, structural near misses, duplicate keys, non-string "
               "arguments, reviver", "hand-written atoms x contexts"),
        _space("c19_canon3", canon_cases,
               "JSON.stringify(JSON.parse(t)) for every text of <= 3 tokens (\"reject\" when parse throws)", "21^1..21^3"),
        _space("c19_canon_extra", extra_canon_cases, "canonical form of the atom texts", "atoms x 3 contexts"),
        _space("c19_value_d1", lambda: value_cases(values_d1(), ("str", "rt")),
               "every JSON value of depth <= 1, width <= 2 over 19 leaves and 4 keys: JSON.stringify(v); "
               "JSON.parse(JSON.stringify(v)) as a value and re-serialised", "19 leaves, 4 keys, width 2"),
        _space("c19_value_d2", lambda: value_cases(values_d2(), ("str", "rt")),
               "depth-2 values, width <= 2, children from 6 leaves + 38 depth-1 containers", "44 children, 4 keys, width 2"),
        _space("c19_indent", lambda: value_cases(indent_values(), ("ind2", "indtab")) + indent_arg_cases(),
               "JSON.stringify(v, null, 2 | \"\\t\") on 10 kids and all width <= 2 containers of them; 20 indent arguments",
               "10 + 331 values x 2"),
        _space("c19_replacer", lambda: value_cases(replacer_values(), ("replarr", "replfn")) + replacer_arg_cases(),
               "replacer array [\"a\"] and a replacer function on a small value set; 16 replacer arguments", "small"),
        _space("c19_nonrep", nonrep_cases,
               "40 non-representable or special things x 8 positions (root, array, property, nested), plain and "
               "indented; result is the text or undefined", "40 x 8 (+3 indented)"),
        _space("c19_cycles", cycle_cases,
               "cyclic structures must raise a TypeError the script catches; shared acyclic and deep acyclic must not",
               "13 structures x 2"),
    ]


def thorough_strata():
    st = []
    for i, tok in enumerate(TOKENS12):
        st.append(_space("c19_text5_%02d" % i, lambda tok=tok: text_cases(TOKENS12, (5,), first=tok, skip=short_texts(4)),
                         "JSON.parse of every 5-token text over the reduced 12-token alphabet starting with %r" % tok,
                         "12^4"))
    d3 = [None]

    def d3_part(k, n):
        if d3[0] is None:
            d3[0] = values_d3()
        return value_cases(d3[0][k::n], ("str", "rt"))
    for k in range(4):
        st.append(_space("c19_value_d3_%d" % k, lambda k=k: d3_part(k, 4),
                         "depth-3 values (at least one depth-2 child), width <= 2, part %d of 4" % k, "see values_d3"))
    return st


def spaces(tier, seed, all_strata=False):
    core = core_spaces()
    strata = thorough_strata()
    if tier == "thorough" or all_strata:
        return core + strata
    return core + [strata[seed % len(strata)]]


# ------------------------------------------------------------------ triage signatures

def _unser(s):
    """Decode an s"..." serialisation back to text (for diagnosis only)."""
    if not s.startswith('s"'):
        return None
    return re.sub(r"\\u([0-9a-f]{4})", lambda m: chr(int(m.group(1), 16)), s[2:-1])


NUM_RE = re.compile(r"-?\d+(?:\.\d+)?(?:[eE][-+]?\d+)?")
STR_RE = re.compile(r'"(?:[^"\\]|\\.)*"')

# root causes, in the order in which a case with several visible defects is attributed
C_INDENT = ("indent", "JSON.stringify ignores the indent argument")
C_REPL_FN = ("replacer-fn", "JSON.stringify ignores a replacer function")
C_REPL_ARR = ("replacer-array", "JSON.stringify ignores a replacer array (property allow-list)")
C_NONFINITE = ("nonfinite", "JSON.stringify prints NaN / Infinity / -Infinity instead of null")
C_NEGZERO = ("negzero", "JSON.stringify prints negative zero as -0.0 (specified: 0)")
C_DOTZERO = ("dotzero", "JSON.stringify prints integral doubles with a trailing .0 (host float repr)")
C_EXP = ("exponent", "JSON.stringify prints exponents in host style (1e-07 for 1e-7)")
C_ASCII = ("ensure-ascii", "JSON.stringify \\u-escapes non-ASCII characters and DEL (host ensure_ascii)")
C_BIGINT = ("hostint", "long integer texts become host integers: JSON.parse returns a non-double, stringify keeps all digits")
C_PROTO = ("proto", "\"__proto__\" key: object literal / JSON.parse / JSON.stringify treat it differently from V8")
C_UNDEF = ("undefined-root", "JSON.stringify returns \"null\" where undefined is specified (undefined / function at the root, or no argument)")
C_TOJSON = ("toJSON", "JSON.stringify never calls toJSON")
C_ACCESSOR = ("accessor", "JSON.stringify skips accessor properties (getter not invoked)")
C_TYPED = ("typed-array", "JSON.stringify of a typed array gives {} (indexed elements not serialised)")
C_NONENUM = ("non-enumerable", "JSON.stringify serialises non-enumerable / internal properties (regex, Error, Math, JSON, defineProperty enumerable:false)")
C_ARGUMENTS = ("arguments", "JSON.stringify of an arguments object gives an array")
C_CYCLE = ("cycle", "JSON.stringify on a cyclic structure raises host RecursionError instead of a catchable TypeError")
C_ACCEPT_NAN = ("accept-nan", "JSON.parse accepts NaN / Infinity / -Infinity (host decoder extension)")
C_PARSE_NEGZERO = ("parse-negzero", "JSON.parse loses the sign of -0")
C_REVIVER = ("reviver", "JSON.parse ignores the reviver argument")
C_PARSE_ARG = ("parse-arg", "JSON.parse converts a non-string argument differently from ToString")

NONREP_CAUSE = {
    "undefined": C_UNDEF, "void 0": C_UNDEF, "function": C_UNDEF, "arrow": C_UNDEF, "bound/native function": C_UNDEF,
    "misc": C_UNDEF, "NaN": C_NONFINITE, "Infinity": C_NONFINITE, "-Infinity": C_NONFINITE, "0/0 computed": C_NONFINITE,
    "toJSON": C_TOJSON, "toJSON->undefined": C_TOJSON, "toJSON(key)": C_TOJSON, "toJSON->object": C_TOJSON,
    "inherited toJSON": C_TOJSON, "toJSON this": C_TOJSON, "accessor": C_ACCESSOR, "accessor+data": C_ACCESSOR,
    "accessor throws": C_ACCESSOR, "typed array": C_TYPED, "float typed array": C_TYPED, "regex": C_NONENUM,
    "Error object": C_NONENUM, "Math": C_NONENUM, "JSON": C_NONENUM, "non-enumerable": C_NONENUM, "arguments": C_ARGUMENTS,
}


def _nonascii_escape(tok):
    for m in re.finditer(r"\\u([0-9a-fA-F]{4})", tok):
        c = int(m.group(1), 16)
        if c >= 0x7F and not 0xD800 <= c <= 0xDFFF:
            return True
    return False


def _text_causes(exp_t, obs_t):
    """Defects visible in an observed JSON text, given the expected one (attribution order)."""
    causes = []
    if exp_t is None or obs_t is None or exp_t == obs_t:
        return causes
    if "\n" in exp_t and "\n" not in obs_t:
        causes.append(C_INDENT)
    eb, ob = STR_RE.sub('""', exp_t), STR_RE.sub('""', obs_t)
    if ("NaN" in ob or "Infinity" in ob) and "NaN" not in eb and "Infinity" not in eb:
        causes.append(C_NONFINITE)
    en, on = NUM_RE.findall(eb), NUM_RE.findall(ob)
    if en != on:
        if any(x in ("-0.0", "-0") for x in on):
            causes.append(C_NEGZERO)
        if any(re.fullmatch(r"-?\d+\.0", x) and x != "-0.0" for x in on):
            causes.append(C_DOTZERO)
        if any(re.search(r"e[-+]0\d", x) for x in on):
            causes.append(C_EXP)
        if any(re.fullmatch(r"-?\d{16,}", x) for x in on):
            causes.append(C_BIGINT)
    es = set(STR_RE.findall(exp_t))
    if any(_nonascii_escape(x) for x in STR_RE.findall(obs_t) if x not in es):
        causes.append(C_ASCII)
    return causes


def _attr(prefix, causes, fallback_key, fallback_what):
    if causes:
        return causes[0][0], causes[0][1]
    return prefix + "|" + fallback_key, fallback_what


def signature(sp, cid, payload, exp, obs):
    src = payload["src"] if isinstance(payload, dict) else cid
    te, to = tail(exp), tail(obs)
    le, lo = exp.rpartition("|")[0], obs.rpartition("|")[0]
    name = sp.name
    kind = mismatch_kind(exp, obs)
    if name.startswith("c19_text"):
        if to.startswith("Ehost"):
            return "parse|" + to, "JSON.parse raises host exception " + to[6:]
        if to.startswith("E"):
            return "parse|uncatchable|" + to, "JSON.parse failure escapes script try/catch (%s)" % to[1:]
        is_arg = cid.startswith("parse-arg ")
        if is_arg:
            if "function" in cid:
                return C_REVIVER
            return C_PARSE_ARG
        t = _unser("s" + cid[6:])
        if lo == 's"ok"' and le != 's"ok"':
            if "NaN" in t or "Infinity" in t:
                return C_ACCEPT_NAN
            return "parse|accepts", "JSON.parse accepts a text outside the JSON grammar"
        if le == 's"ok"' and lo != 's"ok"':
            return "parse|rejects", "JSON.parse rejects a valid JSON text"
        if lo == le == 's"ok"':
            if "I" in to and "I" not in te:
                return C_BIGINT
            if "d8000000000000000" in te and "d8000000000000000" not in to:
                return C_PARSE_NEGZERO
            if "__proto__" in cid:
                return C_PROTO
            return "parse|value|" + kind, "JSON.parse builds the wrong value: " + kind
        return "parse|errclass", "JSON.parse throws something that is not a SyntaxError"
    if name.startswith("c19_canon"):
        if to.startswith("E"):
            return "canon|" + to, "stringify(parse(t)) ends with " + to[1:]
        et, ot = _unser(te[1:]), _unser(to[1:])
        t = _unser("s" + cid[6:])
        if et == "reject" and ot != "reject":
            if "NaN" in t or "Infinity" in t:
                return C_ACCEPT_NAN
            return "parse|accepts", "JSON.parse accepts a text outside the JSON grammar"
        if ot == "reject" and et != "reject":
            return "parse|rejects", "JSON.parse rejects a valid JSON text"
        causes = _text_causes(et, ot)
        if not causes and et is not None and ot is not None:
            if re.fullmatch(r"[-\d\[\]{}:,\"a]*", ot) and NUM_RE.findall(et) != NUM_RE.findall(ot) and re.search(r"\d{16,}", ot):
                causes = [C_BIGINT]
            elif "-0" in t:
                causes = [C_PARSE_NEGZERO]
            elif "__proto__" in t:
                causes = [C_PROTO]
        return _attr("canon", causes, kind, "stringify(parse(t)) is not the canonical text: " + kind)
    if name.startswith("c19_cycles"):
        if to == "Ehost:RecursionError":
            return C_CYCLE
        if to.startswith("E"):
            return "cycles|" + to, "JSON.stringify on a cyclic / shared structure ends with " + to[1:]
        if le != lo:
            if "toJSON" in src:
                return C_TOJSON
            return "cycles|log", "JSON.stringify on a cyclic / shared structure: throws or not, or error class, differs"
        causes = _text_causes(_unser(te[1:]), _unser(to[1:]))
        return _attr("cycles", causes, kind, "JSON.stringify on a shared / deep acyclic structure: " + kind)
    fam = name.split("_")[1]
    if to.startswith("Ehost"):
        return fam + "|" + to, "JSON.stringify raises host exception " + to[6:]
    if to.startswith("E"):
        return fam + "|" + to, "JSON.stringify ends with " + to[1:]
    et, ot = _unser(te[1:]), _unser(to[1:])
    if fam == "nonrep":
        label = cid.split(" / ")[0][7:] if " / " in cid else "misc"
        if et is not None and ot is not None and "\n" in et and "\n" not in ot:
            return C_INDENT
        if label in NONREP_CAUSE:
            return NONREP_CAUSE[label]
        causes = _text_causes(et, ot)
        return _attr("nonrep", causes, label, "JSON.stringify of %s: %s" % (label, _short_diff(te, to, le, lo)))
    if fam == "replacer":
        if "function" in src:
            return C_REPL_FN
        if "[" in src.rpartition("}, ")[2] or "[" in src.rpartition(", ")[2]:
            return C_REPL_ARR
        return "replacer|other", "JSON.stringify with a non-callable, non-array replacer: " + kind
    if fam == "value" and src.startswith("var w"):
        # the log holds stringify(parse(stringify(v))), the tail is the parsed value
        causes = _text_causes(_unser(le), _unser(lo))
        if not causes and "__proto__" in src:
            causes = [C_PROTO]
        if not causes and "d8000000000000000" in to and "d8000000000000000" not in te:
            causes = [C_NEGZERO]
        return _attr("rt", causes, kind, "parse(stringify(v)) round trip: " + kind)
    causes = _text_causes(et, ot)
    if not causes and "__proto__" in src:
        causes = [C_PROTO]
    if not causes and te == "Ru" and to != "Ru":
        causes = [C_UNDEF]
    return _attr(fam, causes, kind, "JSON.stringify (%s form): %s" % (fam, kind))


def _short_diff(te, to, le, lo):
    if le != lo:
        return "throws / does not throw differently (log %s, expected %s)" % (lo or "-", le or "-")
    e, o = _unser(te[1:]), _unser(to[1:])
    if te == "Ru":
        return "returns %s where undefined is specified" % (o if o is not None else to[1:])
    if e is not None and o is not None:
        return "gives %s, specified %s" % (o[:60], e[:60])
    return mismatch_kind("|" + te, "|" + to)


def node_src(cid, payload):
    return payload["src"] if isinstance(payload, dict) else cid
