"""C15  Evaluation is deterministic and independent of host hash randomisation.

E1 over configurations: the outcome vector (log, completion value, error class) of every program of a
closure-heavy corpus is computed in 16 (quick) / 64 (thorough) separate interpreters started with
PYTHONHASHSEED = 0..N-1 and must be identical in all of them; all 24 evaluation orders of 4-program
batches inside one process; fresh process versus after 1000 other evaluations with a shifted clock.
The seed is only the handle: the slot orders (locals / cell_vars / free_vars) that each seed actually
produced are recorded, and the evidence reports how many distinct orders were exercised.
"""
import itertools
import json
import os
import subprocess
import sys
import tempfile

from mc.core.runner import Space

PROP = "C15"
LEVEL = "exploration"
ASSUMPTIONS = [
    "hash randomisation is varied through PYTHONHASHSEED in separate interpreter processes; seeds beyond the stated range are not explored",
    "programs never call Math.random or Date.now",
]
CHILD = os.path.join(os.path.dirname(os.path.abspath(__file__)), "c15_child.py")
ROOT = os.path.dirname(os.path.dirname(os.path.dirname(os.path.abspath(__file__))))


def wide_programs():
    """Functions with >= 3 parameters, locals, captured and pass-through variables per level."""
    out = []
    names3 = ["zeta", "alpha", "mid", "b2", "yy"]
    for ncap in (3, 4, 5):
        for which in itertools.combinations(range(5), 3):
            for write in (False, True):
                for form in ("fe", "nfe", "arrow"):
                    P = ["p_" + n for n in names3[:ncap]]
                    L = ["l_" + n for n in names3[:ncap]]
                    cap = [P[i % ncap] for i in which] + [L[i % ncap] for i in which]
                    inner_body = "return [" + ", ".join(cap) + "].join('|') + '#' + q1 + m1"
                    if write:
                        inner_body = cap[0] + " += 1; " + cap[-1] + " = " + cap[-1] + " + 'w'; " + inner_body
                    if form == "arrow":
                        inner = "() => { " + inner_body + " }"
                    elif form == "nfe":
                        inner = "function inner() { if (typeof inner !== 'function') { return 'bad' } " + inner_body + " }"
                    else:
                        inner = "function () { " + inner_body + " + arguments.length }"
                    src = ("function outer(" + ", ".join(P) + ") { " +
                           " ".join("var %s = '%s';" % (l, l[2:]) for l in L) +
                           " function mid(q1, q2, q3) { var m1 = q1 + q2, m2 = q3, m3 = 0; var fn = " + inner +
                           "; m3 = fn(1, 2); return m3 + '/' + fn(3) + m2 } return mid('x', 'y', 'z') + " + P[0] + " } " +
                           "__out(outer(" + ", ".join(str(i + 1) for i in range(ncap)) + ")); outer(" +
                           ", ".join("'s%d'" % i for i in range(ncap)) + ")")
                    out.append(src)
    # many locals, several closures per activation sharing cells, activations independent
    for k in (3, 5, 8):
        vs = ["v%d" % i for i in range(k)]
        src = ("function mk(seed) { " + " ".join("var %s = seed + %d;" % (v, i) for i, v in enumerate(vs)) +
               " return {inc: function () { " + " ".join("%s++;" % v for v in vs[::2]) + " }, get: function () { return [" +
               ", ".join(vs) + "].join() } } } var a = mk(0), b = mk(100); a.inc(); a.inc(); b.inc(); __out(a.get()); b.get()")
        out.append(src)
    out.append("var fs = []; for (var i = 0; i < 3; i++) { (function (j, k, l) { fs.push(function () { return j * 100 + k * 10 + l + i }) })(i, i + 1, i + 2) } "
               "fs.map(function (f) { return f() }).join()")
    out.append("function f(a, b, c) { var x = a, y = b, z = c; try { throw [x, y, z] } catch (err) { return (function () { return err.concat([z, y, x]).join() })() } } f(1, 2, 3)")
    out.append("var o = {}; ['k3', 'k1', 'k2', 'a', 'z'].forEach(function (k, i) { o[k] = i }); var ks = []; for (var k in o) { ks.push(k) } ks.join() + '|' + Object.keys(o).join() + '|' + JSON.stringify(o)")
    return out


def enumeration_programs():
    """Objects whose enumeration order could only vary with the host's hash seed if some set / dict-of-hashes order leaked:
    2..7 data properties with dissimilar names, then an accessor (4 ways of defining it), then nothing / one more property / a
    deletion and re-insertion; observed through every enumeration built-in."""
    names = ["zeta", "alpha", "k3", "mid", "b2", "yy", "Q", "k1"]
    observe = ("var ks = []; for (var k in o) { ks.push(k) } [ks.join(), Object.keys(o).join(), Object.values(o).length, "
               "Object.entries(o).map(function (e) { return e[0] }).join(), JSON.stringify(o), Object.keys(Object.assign({}, o)).join(), "
               "Object.keys(Object.create(o)).length].join('|')")
    acc = {
        "literal-getter": None,
        "defineProperty-get": "Object.defineProperty(o, 'acc', {get: function () { return 1 }, enumerable: true, configurable: true});",
        "defineProperty-set": "Object.defineProperty(o, 'acc', {set: function (v) { }, enumerable: true, configurable: true});",
        "defineProperty-data-then-get": "o.acc = 0; Object.defineProperty(o, 'acc', {get: function () { return 2 }, enumerable: true, configurable: true});",
        "redefine-existing-as-getter": "Object.defineProperty(o, '%s', {get: function () { return 3 }, enumerable: true, configurable: true});" % names[1],
    }
    after = {"nothing": "", "one-more": "o.late = 9;", "delete-reinsert": "delete o.%s; o.%s = 'again';" % (names[0], names[0]),
             "delete-accessor": "delete o.acc; o.acc2 = 1;"}
    out = []
    for k in range(2, 8):
        for an, adef in acc.items():
            for pn, post in after.items():
                if adef is None:
                    lit = ", ".join("%s: %d" % (n, i) for i, n in enumerate(names[:k])) + ", get acc() { return 1 }"
                    src = "var o = {%s}; %s %s" % (lit, post, observe)
                else:
                    src = "var o = {}; %s %s %s %s" % (" ".join("o.%s = %d;" % (n, i) for i, n in enumerate(names[:k])), adef, post, observe)
                out.append(src)
    # other containers whose key order is observable
    out.append("var a = [3, 1, 2]; a.zeta = 1; a.alpha = 2; a.mid = 3; var ks = []; for (var k in a) { ks.push(k) } ks.join() + '|' + Object.keys(a).join()")
    out.append("function f() { } f.zeta = 1; f.alpha = 2; f.mid = 3; f.b2 = 4; Object.keys(f).join()")
    out.append("var e = new Error('m'); e.zeta = 1; e.alpha = 2; e.mid = 3; Object.keys(e).join() + '|' + JSON.stringify(e)")
    out.append("var p = {zeta: 1, alpha: 2}; var c = Object.create(p); c.mid = 3; c.b2 = 4; c.yy = 5; var ks = []; for (var k in c) { ks.push(k) } ks.join()")
    out.append("JSON.stringify(JSON.parse('{\"zeta\":1,\"alpha\":{\"mid\":2,\"b2\":3,\"yy\":[{\"Q\":1,\"k1\":2}]},\"k3\":4}'))")
    out.append("Object.keys(Object.assign({zeta: 1}, {alpha: 2, mid: 3}, {b2: 4, zeta: 5, yy: 6})).join()")
    out.append("var o = {}; 'the quick brown fox jumps over lazy dogs again and more'.split(' ').forEach(function (w, i) { o[w] = i }); "
               "delete o.fox; delete o.the; o.fox = 1; Object.keys(o).join() + JSON.stringify(Object.entries(o).slice(0, 4))")
    out.append("var seen = []; JSON.stringify({zeta: 1, alpha: {mid: 2, b2: 3}, yy: [4]}, function (k, v) { seen.push(k); return v }); seen.join()")
    out.append("var seen = []; JSON.parse('{\"zeta\":1,\"alpha\":{\"mid\":2,\"b2\":3},\"yy\":[4]}', function (k, v) { seen.push(k); return v }); seen.join()")
    out.append("JSON.stringify({zeta: 1, alpha: 2, mid: 3, b2: 4}, ['mid', 'zeta', 'nope', 'b2'])")
    return out


def _selfcheck_enumeration():
    """The enumeration programs must run to a value on this tree (a program that throws observes nothing)."""
    from mc.props.common import engine
    e = engine()
    bad = [p for p in enumeration_programs() if not e.run_program(p, tl=100).startswith("|R")]
    return bad


def boundary_programs():
    """C14's variable-count templates on both sides of the one-byte operand limit: whether such a program runs or is refused
    must not depend on the order in which a set of names happens to be iterated."""
    from mc.props import c14
    out = []
    for t in ("locals_sum", "captured_sum", "captured_bump", "captured_deep", "params_sum", "globals_sum", "cellvars_owner", "locals", "captured"):
        for n in (254, 255, 256, 257, 258, 300):
            out.append(c14.gen(t, n)[0])
    # many variables of which only a few are used (the unused ones may land on slots beyond the limit)
    for n in (257, 300, 400):
        names = ["a%d" % i for i in range(n)]
        out.append("function f() { var %s; a0 = 5; a1 = 6; return a0 + a1 } f()" % ", ".join(names))
        out.append("function f() { var %s; a0 = 5; return function () { return a0 + a%d } } typeof f()()" % (", ".join(names), n - 1))
        out.append("function f(%s) { return a0 } f(7)" % ", ".join(names[:255]) + "; function g() { var %s; return 1 } g()" % ", ".join(names))
    return out


def long_input_programs():
    """Built-ins applied to inputs longer than any plausible fast-path threshold (1000, 1025 and 2100 characters / elements / keys):
    the whole result is the observation."""
    mk = "var b = ''; for (var i = 0; i < %d; i++) { b += String.fromCharCode(%s) } var s = b.repeat(%d).slice(0, %d); "
    fills = {"ascii": (95, "32 + i"), "latin": (224, "32 + i"), "bmp": (150, "i % 3 ? 97 + i % 26 : 0x400 + i")}
    uses = ["encodeURI(s)", "encodeURIComponent(s)", "decodeURI(encodeURI(s))", "decodeURIComponent(encodeURIComponent(s))",
            "JSON.stringify(s)", "JSON.parse(JSON.stringify(s))", "s.toUpperCase()", "s.toLowerCase()", "s.split('').reverse().join('')",
            "s.split(/[aeiou]/).length", "s.replace(/[a-m]/g, '-')", "s.replace(/\\W/g, function (c) { return '%' + c.charCodeAt(0) })",
            "s.trim()", "s.indexOf('~') + ',' + s.lastIndexOf('!')", "(s.match(/[0-9]+/g) || []).length", "s.split(' ').sort().join(' ')",
            "s.slice(7, -7)", "s.repeat(2)", "s.substring(3).concat(s)", "[s, s].join(s.charAt(5))",
            "s.search(/z{2}|~/)", "s.replace('a', '$&$&')", "Object.keys(s).length", "s.charCodeAt(s.length - 1)",
            "s.split('').map(function (c) { return c.charCodeAt(0) % 7 }).join('')"]
    out = []
    for n in (1000, 1025, 2100):
        for fn, (blen, fill) in fills.items():
            for u in uses:
                out.append(mk % (blen, fill, n // blen + 1, n) + u)
    # long arrays and objects with many keys
    for n in (1000, 1025, 2100):
        pre = "var a = []; for (var i = 0; i < %d; i++) { a.push((i * 7919) %% 1009) } var o = {}; a.forEach(function (v, i) { o['k' + v + '_' + i] = i }); " % n
        for u in ["a.slice().sort()", "a.slice().sort(function (x, y) { return x - y })", "a.join()", "a.indexOf(500) + ',' + a.lastIndexOf(3)",
                  "Object.keys(o).join()", "JSON.stringify(o)", "var ks = []; for (var k in o) { ks.push(k) } ks.join()", "a.filter(function (x) { return x % 3 }).length",
                  "a.concat(a).reverse().slice(0, 50)", "JSON.stringify(JSON.parse(JSON.stringify(a)))", "Object.entries(o).length", "a.map(String).join('')",
                  "Object.keys(Object.assign({}, o)).join()"]:
            out.append(pre + u)
    return out


def declaration_programs():
    """Function declarations in every position, including those that are not part of a statement list."""
    return [
        "if (true) function g() { return 1 } g()",
        "if (false) ; else function e1() { return 4 } e1()",
        "for (var i = 0; i < 1; i++) function h() { return 2 } typeof h",
        "L: function lf() { return 3 } lf()",
        "do function dw() { return 5 } while (false); typeof dw",
        "while (typeof ww === 'undefined') function ww() { return 6 } typeof ww",
        "for (var k in {a: 1}) function fi() { return 7 } typeof fi",
        "function outer() { if (true) function inner() { return 8 } return typeof inner } outer()",
        "function a() { return b() } function b() { return 9 } a()",
        "{ function blk() { return 10 } } typeof blk",
        "switch (1) { case 1: function sw() { return 11 } } typeof sw",
        "try { function tf() { return 12 } } catch (e) { } typeof tf",
        "var r = typeof hoisted; function hoisted() { } r",
        "function dup() { return 1 } function dup() { return 2 } dup()",
    ]


MUTATORS = [
    "var r = /a/g; delete r.lastIndex; delete r.source; delete r.flags; delete r.global; Object.keys(r).join()",
    "var r = /a/; Object.defineProperty(r, 'zz', {value: 1, enumerable: false}); Object.defineProperty(r, 'lastIndex', {enumerable: true, value: 3}); r.yy = 2",
    "function f(a, b) { } delete f.name; delete f.length; delete f.prototype; Object.defineProperty(f, 'name', {enumerable: true, value: 'q'}); f.zz = 1",
    "var f = function () { }; Object.defineProperty(f, 'hid', {value: 1, enumerable: false}); Object.defineProperty(f, 'length', {enumerable: true})",
    "var a = [1, 2, 3]; Object.defineProperty(a, 'length', {writable: false}); Object.defineProperty(a, 'hid', {value: 1, enumerable: false}); delete a[1]",
    "var e = new Error('m'); delete e.message; delete e.stack; Object.defineProperty(e, 'message', {enumerable: true, value: 'x'}); e.name = 'N'",
    "(function () { delete arguments.length; delete arguments[0]; Object.defineProperty(arguments, 'length', {enumerable: true, value: 9}); arguments.zz = 1 })(1, 2)",
    "var s = new String('abc'); s.zz = 1; delete s.length; Object.defineProperty(s, 'hid', {value: 1, enumerable: false})",
    "var t = new Uint8Array(4); t.zz = 1; Object.defineProperty(t, 'hid', {value: 1, enumerable: false}); delete t.length",
    "var o = {a: 1, b: 2}; Object.defineProperty(o, 'a', {enumerable: false}); Object.defineProperty(o, 'hid', {value: 1, enumerable: false}); delete o.b; Object.freeze(o)",
    "Math.zz = 1; delete Math.PI; Math.abs = null; Math.max = function () { return 'mine' }",
    "JSON.stringify = null; JSON.zz = 1; delete JSON.parse",
    "Array.prototype.zz = 1; Array.prototype.push = null; delete Array.prototype.map; Array.isArray = 5",
    "Object.prototype.zz = 1; Object.keys = null; delete Object.prototype.hasOwnProperty; Object.prototype.toString = function () { return 'T' }",
    "String.prototype.trim = null; String.prototype.zz = 1; delete String.prototype.slice; String.fromCharCode = 7",
    "Number.prototype.toString = function () { return 'N' }; Number.MAX_VALUE = 1; delete Number.prototype.toFixed; Number.zz = 1",
    "Boolean.prototype.zz = 1; Boolean.prototype.toString = null",
    "Function.prototype.call = null; Function.prototype.zz = 1; delete Function.prototype.bind",
    "RegExp.prototype.exec = null; RegExp.prototype.zz = 1; delete RegExp.prototype.test",
    "Error.prototype.name = 'X'; Error.prototype.zz = 1; TypeError.prototype.name = 'Y'; delete Error.prototype.toString",
    "Date.now = function () { return 5 }; Date.zz = 1",
    "console.log = null; console.zz = 1",
    "parseInt = null; parseFloat = 5; isNaN = 6; eval = 7; undefined = 8; NaN = 9; Infinity = 10",
    "globalThis.zz = 1; globalThis.Array = null; globalThis.Object = 5",
    "Object.freeze(Array.prototype); Object.freeze(Math); Object.freeze(Object.prototype); Object.preventExtensions(JSON)",
    "Object.setPrototypeOf(Array.prototype, null); Object.setPrototypeOf(Function.prototype, null); Object.setPrototypeOf(Math, Array.prototype)",
    "Object.defineProperty(Array.prototype, 'length', {value: 5}); Object.defineProperty(Object.prototype, 'hid', {get: function () { return 'G' }, configurable: true})",
    "Object.defineProperty(String.prototype, 'length', {value: 5}); Uint8Array.prototype.zz = 1; Uint8Array.BYTES_PER_ELEMENT = 9",
    "Array.prototype[0] = 'proto0'; Object.prototype[1] = 'proto1'; Object.prototype.length = 7",
    "var big = {}; for (var i = 0; i < 3000; i++) { big['k' + i] = i } for (var i = 0; i < 3000; i += 2) { delete big['k' + i] } Object.keys(big).length",
    "var rs = []; for (var i = 0; i < 300; i++) { rs.push(new RegExp('a{' + i + '}', 'g')); rs[i].test('aaaa') } rs.length",
    "var fs = []; for (var i = 0; i < 300; i++) { fs.push(new Function('a' + i, 'return a' + i + ' + ' + i)) } fs[7](1)",
    "for (var i = 0; i < 300; i++) { try { eval('(' ) } catch (e) { } try { eval('var v' + i + ' = ' + i) } catch (e) { } } typeof v7",
    "'x'.replace(/x/, function () { RegExp.prototype.zz2 = 1; return 'y' }); [3, 1, 2].sort(function (a, b) { Array.prototype.zz2 = 1; return a - b })",
    "var o = {}; o.__proto__ = null; var p = {__proto__: Array.prototype}; Object.create(null).x = 1; Object.prototype.__proto__ = null",
]

OBSERVERS = [
    "var r = /a/g; var ks = []; for (var k in r) { ks.push(k) } [ks.join(), Object.keys(r).join(), JSON.stringify(r), typeof r.lastIndex, r.source, r.flags, r.global, r.zz, r.yy, "
    "JSON.stringify(Object.getOwnPropertyDescriptor(r, 'lastIndex')), r.hasOwnProperty('zz'), r.test('a'), r.lastIndex].join('|')",
    "function f(a, b) { } var ks = []; for (var k in f) { ks.push(k) } [ks.join(), Object.keys(f).join(), f.name, f.length, typeof f.prototype, f.zz, f.hid, "
    "JSON.stringify(Object.getOwnPropertyDescriptor(f, 'name')), JSON.stringify(Object.getOwnPropertyDescriptor(f, 'length'))].join('|')",
    "var a = [1, 2, 3]; var ks = []; for (var k in a) { ks.push(k) } a.push(4); [ks.join(), Object.keys(a).join(), a.length, a.hid, a.zz, a[0], [][0], "
    "JSON.stringify(Object.getOwnPropertyDescriptor(a, 'length')), a.map(function (x) { return x * 2 }).join(), Array.isArray(a)].join('|')",
    "var e = new Error('m'); var ks = []; for (var k in e) { ks.push(k) } [ks.join(), Object.keys(e).join(), e.message, e.name, typeof e.stack, '' + e, e.zz, "
    "new TypeError('t').name, JSON.stringify(Object.getOwnPropertyDescriptor(e, 'message'))].join('|')",
    "(function () { var ks = []; for (var k in arguments) { ks.push(k) } return [ks.join(), Object.keys(arguments).join(), arguments.length, arguments[0], arguments.zz].join('|') })(1, 2)",
    "var s = new String('abc'); var ks = []; for (var k in s) { ks.push(k) } [ks.join(), Object.keys(s).join(), s.length, s.zz, s.hid, 'abc'.length, ' a '.trim(), 'abc'.slice(1), String.fromCharCode(65), 'x'.zz].join('|')",
    "var t = new Uint8Array(4); var ks = []; for (var k in t) { ks.push(k) } [ks.join(), Object.keys(t).join(), t.length, t.zz, t.hid, Uint8Array.BYTES_PER_ELEMENT].join('|')",
    "var o = {a: 1, b: 2}; var ks = []; for (var k in o) { ks.push(k) } o.c = 3; [ks.join(), Object.keys(o).join(), JSON.stringify(o), o.zz, o.hid, o[1], o.length, '' + o, "
    "o.hasOwnProperty('a'), Object.isFrozen(o), Object.getPrototypeOf(o) === Object.prototype, typeof Object.keys].join('|')",
    "[Object.keys(Math).join(), Math.zz, Math.PI, Math.abs(-2), Math.max(1, 2), Object.isFrozen(Math), Object.getPrototypeOf(Math) === Object.prototype].join('|')",
    "[Object.keys(JSON).join(), JSON.zz, typeof JSON.stringify, typeof JSON.parse, Object.isExtensible(JSON), JSON.stringify([1, {a: 2}])].join('|')",
    "[typeof Array.prototype.push, typeof Array.prototype.map, [].zz, [].zz2, typeof Array.isArray, Object.isFrozen(Array.prototype), "
    "Object.getPrototypeOf(Array.prototype) === Object.prototype, Array.prototype.length, Object.keys(Array.prototype).join()].join('|')",
    "[({}).zz, typeof Object.prototype.hasOwnProperty, Object.prototype.toString.call([]), Object.isFrozen(Object.prototype), Object.isExtensible(Object.prototype), "
    "Object.keys(Object.prototype).join(), Object.getPrototypeOf(Object.prototype), ({}).hid].join('|')",
    "[(5).toString(), Number.MAX_VALUE, typeof Number.prototype.toFixed, Number.zz, true.zz, '' + true, (1.5).toFixed(1)].join('|')",
    "[typeof Function.prototype.call, typeof Function.prototype.bind, (function () { }).zz, (function () { return this }).call(5) == 5, "
    "Object.getPrototypeOf(Function.prototype) === Object.prototype].join('|')",
    "[typeof RegExp.prototype.exec, typeof RegExp.prototype.test, /a/.zz, /a/.zz2, /a/.exec('a')[0], 'xax'.replace(/a/, 'b'), 'a1b2'.match(/[0-9]/g).join()].join('|')",
    "[new Error('m').name, Error.prototype.zz, new TypeError('t').name, '' + new RangeError('r'), typeof Error.prototype.toString].join('|')",
    "[typeof console.log, console.zz, typeof parseInt, typeof parseFloat, typeof isNaN, typeof eval, typeof undefined, '' + NaN, '' + Infinity, parseInt('12px'), eval('1 + 1')].join('|')",
    "[typeof Date.now(), Date.zz, typeof zz, typeof Array, typeof Object, typeof v7, typeof big, typeof rs, typeof fs].join('|')",
    "var big = {}; for (var i = 0; i < 50; i++) { big['k' + i] = i } for (var i = 0; i < 50; i += 2) { delete big['k' + i] } big.k0 = 'again'; Object.keys(big).join()",
    "var o = {}; var before = Object.getPrototypeOf(o) === Object.prototype; o.__proto__ = Array.prototype; [before, Array.isArray(o), typeof o.push, ({__proto__: null}).toString].join('|')",
    "try { null.x } catch (e) { e.name + ':' + (e instanceof TypeError) + ':' + e.zz + ':' + Object.keys(e).join() }",
    "try { eval('(') } catch (e) { e.name + ':' + (e instanceof SyntaxError) + ':' + Object.keys(e).join() }",
]


def _guard_statements(src):
    """every top-level statement of a mutator in its own try/catch, so that an unsupported built-in does not stop the rest"""
    parts = _split_top(src, ";")
    return " ".join("try { %s } catch (e_) { }" % p.strip() if not p.strip().startswith(("var ", "function ", "for ", "(function")) else p.strip() + ";"
                    for p in parts if p.strip())


def _split_top(src, sep):
    out, depth, cur, q = [], 0, "", None
    for ch in src:
        if q:
            cur += ch
            if ch == q:
                q = None
            continue
        if ch in "'\"":
            q = ch
        elif ch in "([{":
            depth += 1
        elif ch in ")]}":
            depth -= 1
        if ch == sep and depth == 0:
            out.append(cur)
            cur = ""
        else:
            cur += ch
    out.append(cur)
    return out


def _guard_observer(src):
    """`setup; [e1, e2, ...].join('|')` -> every element evaluated in its own try/catch"""
    i = src.rfind("[", 0, src.rfind("].join('|')"))
    # find the matching opening bracket of the final array literal
    end = src.rfind("].join('|')")
    depth, i = 0, end
    while i >= 0:
        if src[i] == "]":
            depth += 1
        elif src[i] == "[":
            depth -= 1
            if depth == 0:
                break
        i -= 1
    head, items, tail = src[:i], _split_top(src[i + 1:end], ","), src[end + len("].join('|')"):]
    body = " ".join("try { out_.push(%s) } catch (e_) { out_.push('E:' + e_.name) }" % it.strip() for it in items)
    return head + "(function () { var out_ = []; " + body + " return out_.join('|') }).call(this)" + tail


MUTATORS = [_guard_statements(m) for m in MUTATORS]
OBSERVERS = [_guard_observer(o) if "].join('|')" in o and not o.startswith("(function") else o for o in OBSERVERS]


def corpus_files():
    """The repository's own .js test files and README snippets (the `corpus scripts` of the property), as collected by C13."""
    from mc.props import c13
    c = c13.layout_corpus()
    return [c[k] for k in sorted(c) if k.startswith("file:") or k.startswith("readme:")]


def corpus_programs():
    from mc.props import c05
    progs = []
    for cid, payload in c05.closure_cases():
        progs.append(payload["src"] if isinstance(payload, dict) else (payload or cid))
    return progs


def all_programs():
    seen, out = set(), []
    for p in (wide_programs() + enumeration_programs() + boundary_programs() + declaration_programs() + long_input_programs() + OBSERVERS +
              corpus_files() + corpus_programs()):
        if p not in seen:
            seen.add(p)
            out.append(p)
    return out


def _child(seed, job):
    env = dict(os.environ, PYTHONHASHSEED=str(seed), MICROJS_VERIF="1")
    fd, path = tempfile.mkstemp(prefix="c15job", suffix=".json")
    try:
        with os.fdopen(fd, "w") as f:
            json.dump(job, f)
        r = subprocess.run([sys.executable, CHILD, path], env=env, capture_output=True, text=True, timeout=600, cwd=ROOT)
        if r.returncode != 0:
            return {"error": "child failed: " + r.stderr[-300:]}
        return json.loads(r.stdout)
    finally:
        os.unlink(path)


def run_selfcheck(payload):
    bad = _selfcheck_enumeration()
    return ("ok" if not bad else "%d enumeration programs do not run to a value, e.g. %s" % (len(bad), bad[0][:200])) + "\x00ok"


def run_seeds(payload):
    progs = payload["programs"]
    seeds = payload["seeds"]
    base = None
    diffs = []
    orders = set()
    for s in seeds:
        res = _child(s, {"programs": progs, "mode": "plain"})
        if "error" in res:
            return res["error"] + "\x00ok"
        for o in res["orders"]:
            orders.add(json.dumps(o))
        if base is None:
            base = res["outcomes"]
        else:
            for i, (a, b) in enumerate(zip(base, res["outcomes"])):
                if a != b:
                    diffs.append("seed %d vs %d, program #%d: %s vs %s | %s" % (seeds[0], s, i, a[:60], b[:60], progs[i][:120]))
    obs = "ok" if not diffs else "; ".join(diffs[:3])
    return obs + "\x00ok"


def run_orders(payload):
    res = _child(0, {"programs": payload["programs"], "mode": "orders", "stride": payload.get("stride", 1)})
    if "error" in res:
        return res["error"] + "\x00ok"
    o = res["outcomes"][0]
    return ("ok" if " differing=0 " in o else o) + "\x00ok"


def run_warm(payload):
    res = _child(payload.get("seed", 0), {"programs": payload["programs"], "mode": "warm", "warmups": payload.get("warmups", 1000)})
    if "error" in res:
        return res["error"] + "\x00ok"
    bad = [o for o in res["outcomes"] if o != "same"]
    return ("ok" if not bad else "; ".join(bad[:3])) + "\x00ok"


def run_cross(payload):
    res = _child(payload.get("seed", 0), {"programs": payload["observers"], "mutators": payload["mutators"], "mode": "cross",
                                          "repeat": payload.get("repeat", 0), "repeated": payload.get("repeated", [])})
    if "error" in res:
        return res["error"] + "\x00ok"
    bad = [o for o in res["outcomes"] if o != "same"]
    return ("ok" if not bad else "; ".join(bad[:3])) + "\x00ok"


def _cross_cases(tier):
    rep = declaration_programs()
    out = [("every observer after every mutator ran in another context of the same process (%d x %d), hash seed %d" % (len(MUTATORS), len(OBSERVERS), s),
            {"observers": OBSERVERS, "mutators": MUTATORS, "seed": s}) for s in ((0, 1) if tier == "quick" else range(8))]
    out.append(("each of %d programs with function declarations in and outside statement lists evaluated 400 times after 3000 other parses" % len(rep),
                {"observers": [], "mutators": [], "repeated": rep, "repeat": 400, "seed": 3}))
    return out


def _seed_cases(nseeds, chunk=150):
    progs = all_programs()
    out = []
    for i in range(0, len(progs), chunk):
        out.append(("programs %d..%d of the closure corpus under PYTHONHASHSEED 0..%d" % (i, min(i + chunk, len(progs)) - 1, nseeds - 1),
                    {"programs": progs[i:i + chunk], "seeds": list(range(nseeds))}))
    return out


def _order_cases(stride):
    progs = wide_programs()
    pool = progs[::max(1, len(progs) // 12)][:12]
    return [("all 24 orders of the 4-program batches of a 12-program pool (stride %d)" % stride, {"programs": pool, "stride": stride})]


def _warm_cases():
    progs = all_programs()
    return [("fresh vs after 1000 other evaluations and a shifted clock, programs %d.." % i, {"programs": progs[i::4][:150], "seed": i})
            for i in range(4)]


def _sp(name, runner, fn, rule, bound):
    return Space(name, "mc.props.c15:" + runner, fn, oracle="inline", rule=rule, bound=bound, batch=1, watchdog=900,
                 nontrivial=lambda cid, p, exp: True, nondeterminism_is_violation=True)


def spaces(tier, seed, all_strata=False):
    n = 64 if tier == "thorough" else 16
    out = [
        _sp("c15_seeds_%d" % n, "run_seeds", lambda: _seed_cases(n),
            "every program of the corpus (the repository's 34 .js test files and README snippets, 130 key-order programs, C05 closure family + 93 wide programs with 3-5 parameters, locals, captured and "
            "pass-through variables per level, named function expressions, arguments, catch parameters, for-in key order) evaluated "
            "in %d interpreters with PYTHONHASHSEED 0..%d: identical log, value and error class" % (n, n - 1), "%d seeds" % n),
        _sp("c15_selfcheck", "run_selfcheck", lambda: [("the 130 enumeration programs run to a value (non-vacuity of the key-order observations)", {})],
            "harness self-check", "1"),
        _sp("c15_orders", "run_orders", lambda: _order_cases(5 if tier == "quick" else 1),
            "all 24 permutations of 4-program batches from a 12-program pool in one process", "24 x C(12,4)"),
        _sp("c15_warm", "run_warm", _warm_cases, "fresh process vs after 1000 unrelated evaluations, 100 of which fail in 29 different ways (deep joins, cycles, limits, throws through natives, syntax errors, regex errors), then each failing program 110 times in a row, with a shifted virtual clock", "4 slices"),
    ]
    out.append(_sp("c15_cross", "run_cross", lambda: _cross_cases(tier),
                   "%d observer programs (own-key order, attributes and inherited members of every kind of built-in object) re-evaluated on a fresh "
                   "context after each of %d mutator programs (delete / redefine / freeze / re-prototype built-ins, thousands of keys, regexps, "
                   "Function and eval compilations) ran on another context in the same process: identical to the first evaluation; plus "
                   "function-declaration programs repeated 400 times" % (len(OBSERVERS), len(MUTATORS)), "%d x %d" % (len(MUTATORS), len(OBSERVERS))))
    if all_strata and tier != "thorough":
        out.append(_sp("c15_seeds_64", "run_seeds", lambda: _seed_cases(64), "64 seeds", "64 seeds"))
    return out


def signature(sp, cid, payload, exp, obs):
    return sp.name + "|" + obs[:40], sp.name + ": " + obs[:160]
