"""C15  Evaluation is deterministic and independent of host hash randomisation.

E1 over configurations: the outcome vector (log, completion value, error class) of every program of a
closure-heavy corpus is computed in 16 (quick) / 64 (thorough) separate interpreters started with
PYTHONHASHSEED = 0..N-1 and must be identical in all of them; all 24 evaluation orders of 4-program
batches inside one process; fresh process versus after 1000 other evaluations with a shifted clock.
The seed is only the handle: the slot orders (locals / cell_vars / free_vars) that each seed actually
produced are recorded, and the evidence reports how many distinct orders were exercised.
"""
import itertools
import json
import os
import subprocess
import sys
import tempfile

from mc.core.runner import Space

PROP = "C15"
LEVEL = "exploration"
ASSUMPTIONS = [
    "hash randomisation is varied through PYTHONHASHSEED in separate interpreter processes; seeds beyond the stated range are not explored",
    "programs never call Math.random or Date.now",
]
CHILD = os.path.join(os.path.dirname(os.path.abspath(__file__)), "c15_child.py")
ROOT = os.path.dirname(os.path.dirname(os.path.dirname(os.path.abspath(__file__))))


def wide_programs():
    """Functions with >= 3 parameters, locals, captured and pass-through variables per level."""
    out = []
    names3 = ["zeta", "alpha", "mid", "b2", "yy"]
    for ncap in (3, 4, 5):
        for which in itertools.combinations(range(5), 3):
            for write in (False, True):
                for form in ("fe", "nfe", "arrow"):
                    P = ["p_" + n for n in names3[:ncap]]
                    L = ["l_" + n for n in names3[:ncap]]
                    cap = [P[i % ncap] for i in which] + [L[i % ncap] for i in which]
                    inner_body = "return [" + ", ".join(cap) + "].join('|') + '#' + q1 + m1"
                    if write:
                        inner_body = cap[0] + " += 1; " + cap[-1] + " = " + cap[-1] + " + 'w'; " + inner_body
                    if form == "arrow":
                        inner = "() => { " + inner_body + " }"
                    elif form == "nfe":
                        inner = "function inner() { if (typeof inner !== 'function') { return 'bad' } " + inner_body + " }"
                    else:
                        inner = "function () { " + inner_body + " + arguments.length }"
                    src = ("function outer(" + ", ".join(P) + ") { " +
                           " ".join("var %s = '%s';" % (l, l[2:]) for l in L) +
                           " function mid(q1, q2, q3) { var m1 = q1 + q2, m2 = q3, m3 = 0; var fn = " + inner +
                           "; m3 = fn(1, 2); return m3 + '/' + fn(3) + m2 } return mid('x', 'y', 'z') + " + P[0] + " } " +
                           "__out(outer(" + ", ".join(str(i + 1) for i in range(ncap)) + ")); outer(" +
                           ", ".join("'s%d'" % i for i in range(ncap)) + ")")
                    out.append(src)
    # many locals, several closures per activation sharing cells, activations independent
    for k in (3, 5, 8):
        vs = ["v%d" % i for i in range(k)]
        src = ("function mk(seed) { " + " ".join("var %s = seed + %d;" % (v, i) for i, v in enumerate(vs)) +
               " return {inc: function () { " + " ".join("%s++;" % v for v in vs[::2]) + " }, get: function () { return [" +
               ", ".join(vs) + "].join() } } } var a = mk(0), b = mk(100); a.inc(); a.inc(); b.inc(); __out(a.get()); b.get()")
        out.append(src)
    out.append("var fs = []; for (var i = 0; i < 3; i++) { (function (j, k, l) { fs.push(function () { return j * 100 + k * 10 + l + i }) })(i, i + 1, i + 2) } "
               "fs.map(function (f) { return f() }).join()")
    out.append("function f(a, b, c) { var x = a, y = b, z = c; try { throw [x, y, z] } catch (err) { return (function () { return err.concat([z, y, x]).join() })() } } f(1, 2, 3)")
    out.append("var o = {}; ['k3', 'k1', 'k2', 'a', 'z'].forEach(function (k, i) { o[k] = i }); var ks = []; for (var k in o) { ks.push(k) } ks.join() + '|' + Object.keys(o).join() + '|' + JSON.stringify(o)")
    return out


def enumeration_programs():
    """Objects whose enumeration order could only vary with the host's hash seed if some set / dict-of-hashes order leaked:
    2..7 data properties with dissimilar names, then an accessor (4 ways of defining it), then nothing / one more property / a
    deletion and re-insertion; observed through every enumeration built-in."""
    names = ["zeta", "alpha", "k3", "mid", "b2", "yy", "Q", "k1"]
    observe = ("var ks = []; for (var k in o) { ks.push(k) } [ks.join(), Object.keys(o).join(), Object.values(o).length, "
               "Object.entries(o).map(function (e) { return e[0] }).join(), JSON.stringify(o), Object.keys(Object.assign({}, o)).join(), "
               "Object.keys(Object.create(o)).length].join('|')")
    acc = {
        "literal-getter": None,
        "defineProperty-get": "Object.defineProperty(o, 'acc', {get: function () { return 1 }, enumerable: true, configurable: true});",
        "defineProperty-set": "Object.defineProperty(o, 'acc', {set: function (v) { }, enumerable: true, configurable: true});",
        "defineProperty-data-then-get": "o.acc = 0; Object.defineProperty(o, 'acc', {get: function () { return 2 }, enumerable: true, configurable: true});",
        "redefine-existing-as-getter": "Object.defineProperty(o, '%s', {get: function () { return 3 }, enumerable: true, configurable: true});" % names[1],
    }
    after = {"nothing": "", "one-more": "o.late = 9;", "delete-reinsert": "delete o.%s; o.%s = 'again';" % (names[0], names[0]),
             "delete-accessor": "delete o.acc; o.acc2 = 1;"}
    out = []
    for k in range(2, 8):
        for an, adef in acc.items():
            for pn, post in after.items():
                if adef is None:
                    lit = ", ".join("%s: %d" % (n, i) for i, n in enumerate(names[:k])) + ", get acc() { return 1 }"
                    src = "var o = {%s}; %s %s" % (lit, post, observe)
                else:
                    src = "var o = {}; %s %s %s %s" % (" ".join("o.%s = %d;" % (n, i) for i, n in enumerate(names[:k])), adef, post, observe)
                out.append(src)
    # other containers whose key order is observable
    out.append("var a = [3, 1, 2]; a.zeta = 1; a.alpha = 2; a.mid = 3; var ks = []; for (var k in a) { ks.push(k) } ks.join() + '|' + Object.keys(a).join()")
    out.append("function f() { } f.zeta = 1; f.alpha = 2; f.mid = 3; f.b2 = 4; Object.keys(f).join()")
    out.append("var e = new Error('m'); e.zeta = 1; e.alpha = 2; e.mid = 3; Object.keys(e).join() + '|' + JSON.stringify(e)")
    out.append("var p = {zeta: 1, alpha: 2}; var c = Object.create(p); c.mid = 3; c.b2 = 4; c.yy = 5; var ks = []; for (var k in c) { ks.push(k) } ks.join()")
    out.append("JSON.stringify(JSON.parse('{\"zeta\":1,\"alpha\":{\"mid\":2,\"b2\":3,\"yy\":[{\"Q\":1,\"k1\":2}]},\"k3\":4}'))")
    out.append("Object.keys(Object.assign({zeta: 1}, {alpha: 2, mid: 3}, {b2: 4, zeta: 5, yy: 6})).join()")
    out.append("var o = {}; 'the quick brown fox jumps over lazy dogs again and more'.split(' ').forEach(function (w, i) { o[w] = i }); "
               "delete o.fox; delete o.the; o.fox = 1; Object.keys(o).join() + JSON.stringify(Object.entries(o).slice(0, 4))")
    out.append("var seen = []; JSON.stringify({zeta: 1, alpha: {mid: 2, b2: 3}, yy: [4]}, function (k, v) { seen.push(k); return v }); seen.join()")
    out.append("var seen = []; JSON.parse('{\"zeta\":1,\"alpha\":{\"mid\":2,\"b2\":3},\"yy\":[4]}', function (k, v) { seen.push(k); return v }); seen.join()")
    out.append("JSON.stringify({zeta: 1, alpha: 2, mid: 3, b2: 4}, ['mid', 'zeta', 'nope', 'b2'])")
    return out


def _selfcheck_enumeration():
    """The enumeration programs must run to a value on this tree (a program that throws observes nothing)."""
    from mc.props.common import engine
    e = engine()
    bad = [p for p in enumeration_programs() if not e.run_program(p, tl=100).startswith("|R")]
    return bad


def boundary_programs():
    """C14's variable-count templates on both sides of the one-byte operand limit: whether such a program runs or is refused
    must not depend on the order in which a set of names happens to be iterated."""
    from mc.props import c14
    out = []
    for t in ("locals_sum", "captured_sum", "captured_bump", "captured_deep", "params_sum", "globals_sum", "cellvars_owner", "locals", "captured"):
        for n in (254, 255, 256, 257, 258, 300):
            out.append(c14.gen(t, n)[0])
    # many variables of which only a few are used (the unused ones may land on slots beyond the limit)
    for n in (257, 300, 400):
        names = ["a%d" % i for i in range(n)]
        out.append("function f() { var %s; a0 = 5; a1 = 6; return a0 + a1 } f()" % ", ".join(names))
        out.append("function f() { var %s; a0 = 5; return function () { return a0 + a%d } } typeof f()()" % (", ".join(names), n - 1))
        out.append("function f(%s) { return a0 } f(7)" % ", ".join(names[:255]) + "; function g() { var %s; return 1 } g()" % ", ".join(names))
    return out


def corpus_files():
    """The repository's own .js test files and README snippets (the `corpus scripts` of the property), as collected by C13."""
    from mc.props import c13
    c = c13.layout_corpus()
    return [c[k] for k in sorted(c) if k.startswith("file:") or k.startswith("readme:")]


def corpus_programs():
    from mc.props import c05
    progs = []
    for cid, payload in c05.closure_cases():
        progs.append(payload["src"] if isinstance(payload, dict) else (payload or cid))
    return progs


def all_programs():
    seen, out = set(), []
    for p in wide_programs() + enumeration_programs() + boundary_programs() + corpus_files() + corpus_programs():
        if p not in seen:
            seen.add(p)
            out.append(p)
    return out


def _child(seed, job):
    env = dict(os.environ, PYTHONHASHSEED=str(seed), MICROJS_VERIF="1")
    fd, path = tempfile.mkstemp(prefix="c15job", suffix=".json")
    try:
        with os.fdopen(fd, "w") as f:
            json.dump(job, f)
        r = subprocess.run([sys.executable, CHILD, path], env=env, capture_output=True, text=True, timeout=600, cwd=ROOT)
        if r.returncode != 0:
            return {"error": "child failed: " + r.stderr[-300:]}
        return json.loads(r.stdout)
    finally:
        os.unlink(path)


def run_selfcheck(payload):
    bad = _selfcheck_enumeration()
    return ("ok" if not bad else "%d enumeration programs do not run to a value, e.g. %s" % (len(bad), bad[0][:200])) + "\x00ok"


def run_seeds(payload):
    progs = payload["programs"]
    seeds = payload["seeds"]
    base = None
    diffs = []
    orders = set()
    for s in seeds:
        res = _child(s, {"programs": progs, "mode": "plain"})
        if "error" in res:
            return res["error"] + "\x00ok"
        for o in res["orders"]:
            orders.add(json.dumps(o))
        if base is None:
            base = res["outcomes"]
        else:
            for i, (a, b) in enumerate(zip(base, res["outcomes"])):
                if a != b:
                    diffs.append("seed %d vs %d, program #%d: %s vs %s | %s" % (seeds[0], s, i, a[:60], b[:60], progs[i][:120]))
    obs = "ok" if not diffs else "; ".join(diffs[:3])
    return obs + "\x00ok"


def run_orders(payload):
    res = _child(0, {"programs": payload["programs"], "mode": "orders", "stride": payload.get("stride", 1)})
    if "error" in res:
        return res["error"] + "\x00ok"
    o = res["outcomes"][0]
    return ("ok" if " differing=0 " in o else o) + "\x00ok"


def run_warm(payload):
    res = _child(payload.get("seed", 0), {"programs": payload["programs"], "mode": "warm", "warmups": payload.get("warmups", 1000)})
    if "error" in res:
        return res["error"] + "\x00ok"
    bad = [o for o in res["outcomes"] if o != "same"]
    return ("ok" if not bad else "; ".join(bad[:3])) + "\x00ok"


def _seed_cases(nseeds, chunk=150):
    progs = all_programs()
    out = []
    for i in range(0, len(progs), chunk):
        out.append(("programs %d..%d of the closure corpus under PYTHONHASHSEED 0..%d" % (i, min(i + chunk, len(progs)) - 1, nseeds - 1),
                    {"programs": progs[i:i + chunk], "seeds": list(range(nseeds))}))
    return out


def _order_cases(stride):
    progs = wide_programs()
    pool = progs[::max(1, len(progs) // 12)][:12]
    return [("all 24 orders of the 4-program batches of a 12-program pool (stride %d)" % stride, {"programs": pool, "stride": stride})]


def _warm_cases():
    progs = all_programs()
    return [("fresh vs after 1000 other evaluations and a shifted clock, programs %d.." % i, {"programs": progs[i::4][:150], "seed": i})
            for i in range(4)]


def _sp(name, runner, fn, rule, bound):
    return Space(name, "mc.props.c15:" + runner, fn, oracle="inline", rule=rule, bound=bound, batch=1, watchdog=900,
                 nontrivial=lambda cid, p, exp: True, nondeterminism_is_violation=True)


def spaces(tier, seed, all_strata=False):
    n = 64 if tier == "thorough" else 16
    out = [
        _sp("c15_seeds_%d" % n, "run_seeds", lambda: _seed_cases(n),
            "every program of the corpus (the repository's 34 .js test files and README snippets, 130 key-order programs, C05 closure family + 93 wide programs with 3-5 parameters, locals, captured and "
            "pass-through variables per level, named function expressions, arguments, catch parameters, for-in key order) evaluated "
            "in %d interpreters with PYTHONHASHSEED 0..%d: identical log, value and error class" % (n, n - 1), "%d seeds" % n),
        _sp("c15_selfcheck", "run_selfcheck", lambda: [("the 130 enumeration programs run to a value (non-vacuity of the key-order observations)", {})],
            "harness self-check", "1"),
        _sp("c15_orders", "run_orders", lambda: _order_cases(5 if tier == "quick" else 1),
            "all 24 permutations of 4-program batches from a 12-program pool in one process", "24 x C(12,4)"),
        _sp("c15_warm", "run_warm", _warm_cases, "fresh process vs after 1000 unrelated evaluations, 100 of which fail in 29 different ways (deep joins, cycles, limits, throws through natives, syntax errors, regex errors), then each failing program 110 times in a row, with a shifted virtual clock", "4 slices"),
    ]
    if all_strata and tier != "thorough":
        out.append(_sp("c15_seeds_64", "run_seeds", lambda: _seed_cases(64), "64 seeds", "64 seeds"))
    return out


def signature(sp, cid, payload, exp, obs):
    return sp.name + "|" + obs[:40], sp.name + ": " + obs[:160]
