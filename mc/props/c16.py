"""C16  String methods follow ECMAScript for every argument shape.

E1: full product  {implemented String.prototype method} x {receiver grid} x {argument tuples of arity 0..2
over a 16-value grid}, plus `length`, index access, String(x) and String.fromCharCode.
Oracle: V8 expected-outcome tables (tables/c16_*.json.gz).

Every case is one program

    var s = <recv>; var r; try { r = s.<m>(<args>) } catch (e) { r = "throw:" + e.name } __out(s === <recv>); r

so the completion value is the method result (or the *name* of the error that was thrown) and the single
log entry says that the receiver binding is unchanged.
"""
from mc.core.runner import Space
from .common import mismatch_kind, tail

PROP = "C16"
LEVEL = "exploration"
ASSUMPTIONS = [
    "expected outcomes were computed at build time by V8 (node 20, strict mode) for exactly the enumerated "
    "case ids and are pinned by SHA-256 of the case list",
    "the method list is the fixed list the engine answers for a string receiver today (20 methods; match/search "
    "take regular expressions and belong to C20); methods the engine does not implement (at, substr, padStart, "
    "padEnd, codePointAt, localeCompare, normalize) are outside the quantifier",
    "argument tuples of arity > 2 and receivers outside the 14 (+3 long) grid are not explored; no astral "
    "characters (the engine indexes strings by code point, documented)",
    "repeat counts whose specified result exceeds 10^4 characters are excluded (V8 raises an implementation-"
    "defined RangeError there); counts for which ECMA-262 itself raises RangeError are kept",
    "function-valued arguments in a string position observe Function.prototype.toString as well; those cases "
    "are grouped separately by signature()",
]
RUN = "mc.props.common:run_src"

# ---------------------------------------------------------------------------------------------- grids

LONG40 = "The quick brown fox jumps over the lazy "          # 40 chars
assert len(LONG40) == 40
RECV = ['""', '"a"', '"aaa"', '"abc"', '"aXbX"', '"AbC"', '"  a\\t\\n"', '"\\u00a0x\\ufeff"', '"123"', '"a,b,,c"',
        '"\\u00e9"', '"%s"' % LONG40, '"0"', '"-1.5"']
RECV_LEN = [0, 1, 3, 3, 4, 3, 5, 3, 3, 6, 1, 40, 1, 4]
LONG = ['"%s"' % ("aXbX" * 16),                               # 64
        '"%s"' % ("abc,1 b" * 14 + "XY"),                     # 100
        '"%s"' % ("  \\t" + "a b" * 83 + "\\n\\n ")]          # 3 + 249 + 3 = 255 characters
LONG_LEN = [64, 100, 255]
ALL_RECV = RECV + LONG
ALL_LEN = RECV_LEN + LONG_LEN

GRID16 = ["undefined", "null", "NaN", "Infinity", "-Infinity", "-1", "-0", "0", "1", "2", "1.9", "100", "4294967296",
          '"1"', '"b"', '""']
OBJ = ["{}", "[]", "[1]", "function(){}"]
TRIVIAL = {"0", "1", "2", '"a"', '"b"', '"X"', '"bX"', '","'}

# ToIntegerOrInfinity of every grid literal (used only to cap String.prototype.repeat)
INF = float("inf")
TOINT = {"undefined": 0, "null": 0, "NaN": 0, "Infinity": INF, "-Infinity": -INF, "-1": -1, "-0": 0, "0": 0, "1": 1,
         "2": 2, "1.9": 1, "100": 100, "4294967296": 4294967296, '"1"': 1, '"b"': 0, '""': 0, "{}": 0, "[]": 0,
         "[1]": 1, "function(){}": 0}

# method -> extra literals for the first (string-natured) position
SX = ['"a"', '"X"', '"bX"']
STRING_FIRST = {"indexOf": SX, "lastIndexOf": SX, "includes": SX, "startsWith": SX, "endsWith": SX, "concat": SX,
                "split": SX + ['","'], "replace": SX, "replaceAll": SX}

GROUPS = [
    ("index", ["charAt", "charCodeAt"]),
    ("search", ["indexOf", "lastIndexOf", "includes", "startsWith", "endsWith"]),
    ("slice", ["substring", "slice"]),
    ("split", ["split"]),
    ("replace", ["replace", "replaceAll"]),
    ("build", ["concat", "repeat"]),
    ("nullary", ["toLowerCase", "toUpperCase", "trim", "trimStart", "trimEnd", "toString"]),
]
METHODS = [m for _, ms in GROUPS for m in ms]

TMPL = 'var s = %s; var r; try { r = %s } catch (e) { r = "throw:" + e.name } __out(s === %s); r'
TMPL0 = 'var r; try { r = %s } catch (e) { r = "throw:" + e.name } r'


def tuples(first, rest):
    yield ()
    for a in first:
        yield (a,)
    for a in first:
        for b in rest:
            yield (a, b)


def _nt(args):
    return any(a not in TRIVIAL for a in args)


def _case(recv, expr, m, args, ri):
    src = TMPL % (recv, expr, recv)
    return (src, {"src": src, "nt": _nt(args), "m": m, "a": list(args), "r": ri})


def method_cases(methods, ext):
    """ext=False: the core (14 receivers x GRID16 tuples).  ext=True: the thorough extension only, i.e. every
    case of the (17 receivers x GRID16+OBJ tuples) product that is not in the core."""
    out = []
    rest = GRID16 + (OBJ if ext else [])
    nrecv = len(ALL_RECV) if ext else len(RECV)
    for m in methods:
        first = rest + STRING_FIRST.get(m, [])
        for ri in range(nrecv):
            recv, rl = ALL_RECV[ri], ALL_LEN[ri]
            long_recv = ri >= len(RECV)
            for args in tuples(first, rest):
                if ext and not long_recv and not any(a in OBJ for a in args):
                    continue
                if m == "repeat" and args:
                    n = TOINT[args[0]]
                    if 0 <= n < INF and n * rl > 10000:
                        continue
                out.append(_case(recv, "s.%s(%s)" % (m, ", ".join(args)), m, args, ri))
    return out


def access_cases(ext):
    out = []
    keys = GRID16 + ['"length"', '"01"', '"1.0"', '" 1"', "3", "39", "40"] + (OBJ if ext else [])
    nrecv = len(ALL_RECV) if ext else len(RECV)
    for ri in range(nrecv):
        recv = ALL_RECV[ri]
        long_recv = ri >= len(RECV)
        if not ext or long_recv:
            out.append(_case(recv, "s.length", "length", (), ri))
            out.append(_case(recv, "typeof s.length", "length", ("typeof",), ri))
        for k in keys:
            if ext and not long_recv and k not in OBJ:
                continue
            out.append(_case(recv, "s[%s]" % k, "[]", (k,), ri))
    return out


FCC_EXTRA = ["65", "233", "8364", "65535", "65536", "65601", "-65471", "97.9", '"0x41"']


def ctor_cases(ext):
    out = []
    g = GRID16 + (OBJ if ext else [])
    for fn, first in (("String", g + ["true", "false", "1e21", "1e-7", "123456789.125", "-1.5", '"abc"']),
                      ("String.fromCharCode", g + FCC_EXTRA)):
        for args in tuples(first, g):
            if ext and not any(a in OBJ for a in args):
                continue
            src = TMPL0 % ("%s(%s)" % (fn, ", ".join(args)))
            out.append((src, {"src": src, "nt": _nt(args), "m": fn, "a": list(args), "r": -1}))
    return out


# replacement-pattern stratum: GetSubstitution on string patterns ($$, $&, $`, $', $1 without captures)
REPL = ['"$$"', '"$&"', '"[$&]"', '"$`"', '"$\'"', '"$1"', '"$0"', '"$"', '"$$$"', '"$$&"', '"$&$&"', '"a$"', '"$<x>"']


def repl_cases():
    out = []
    for m in ("replace", "replaceAll"):
        for ri in range(len(RECV)):
            for pat in ['"a"', '"X"', '"bX"', '""', '"b"', '","', '"$"']:
                for rp in REPL + ["function(m){ return m + m }",
                                  "function(m, i, t){ return typeof i + i + (t === s) }",
                                  'function(){ return "$$" }', 'function(){ return "[$&|$`|$\'|$1]" }',
                                  'function(m){ return "$" + m + "$&" }', "function(){ return {toString: function(){ return '$&' }} }",
                                  "function(){ }", "function(){ return null }", "function(){ return 0 }"]:
                    args = (pat, rp)
                    out.append(_case(RECV[ri], "s.%s(%s)" % (m, ", ".join(args)), m, args, ri))
    return out


# regular expressions where a string method takes a separator / pattern: every flag combination that changes how the
# search position moves (global, sticky), captures, empty matches, a lastIndex left over from earlier use
REGEX_ARGS = ["/,/", "/,/g", "/,/y", "/,/gy", "/(,)/", "/(,)|(b)/y", "/x*/", "/x*/y", "/(?:)/", "/(?:)/y", "/a|X/i", "/a/iy", "/$/", "/^/y", "/\\s+/y",
              "/[a-c]/gy", "new RegExp(',', 'y')", "(function(){ var r = /,/y; r.lastIndex = 3; return r })()",
              "(function(){ var r = /,/g; r.lastIndex = 3; return r })()", "(function(){ var r = /a/; r.lastIndex = 2; return r })()"]
REGEX_SECOND = {"split": [None, "undefined", "0", "1", "2", "-1", "100"],
                "replace": ['"-"', '"[$&$1]"', "function(m){ return '<' + m + '>' }", 'function(){ return "$&$&" }'],
                "replaceAll": ['"-"', '"[$&$1]"', "function(m){ return '<' + m + '>' }"],
                # methods that take a search STRING: a regular expression is refused or converted to its source text
                "includes": [None, "1"], "startsWith": [None, "1"], "endsWith": [None, "1"], "indexOf": [None, "1"], "lastIndexOf": [None],
                "concat": [None], "charAt": [None], "repeat": [None], "slice": [None], "substring": [None]}


def regex_arg_cases():
    out = []
    for m, seconds in REGEX_SECOND.items():
        for ri in range(len(RECV)):
            for rx in REGEX_ARGS:
                for sec in seconds:
                    args = (rx,) if sec is None else (rx, sec)
                    # the regex object is kept, so its lastIndex after the call is part of the observation
                    src = ('var s = %s; var rx = %s; var r; try { r = s.%s(%s) } catch (e) { r = "throw:" + e.name } __out(s === %s); __out(rx.lastIndex); r'
                           % (RECV[ri], rx, m, ", ".join(("rx",) + args[1:]), RECV[ri]))
                    out.append((src, {"src": src, "nt": True, "m": m, "a": list(args), "r": ri}))
    return out


# arguments whose conversion throws the first time it is attempted and succeeds afterwards: the second call with the very
# same argument object must behave as if the first had never happened
THROW_ONCE = [
    ("obj-toString", "{toString: function () { if (n++ === 0) { throw new TypeError('first') } return 'a' }}"),
    ("obj-valueOf", "{valueOf: function () { if (n++ === 0) { throw new RangeError('first') } return 1 }, toString: null}"),
    ("array-elem", "[{toString: function () { if (n++ === 0) { throw new TypeError('first') } return 'a' }}, 'X']"),
    ("array-nested", "[[{toString: function () { if (n++ === 0) { throw new TypeError('first') } return 'b' }}], 'c']"),
    ("array-plain", "['a', 1]"),
]


def throw_once_cases():
    out = []
    recv = ['"aXbX"', '"a,b,,c"', '"abc"']
    for m in METHODS + ["String", "fromCharCode"]:
        for rv in recv:
            for an, a in THROW_ONCE:
                for pos in (0, 1):
                    for other in ("1", '"a"'):
                        args = ["A", other] if pos == 0 else [other, "A"]
                        if m == "String":
                            call = "String(A)" if pos == 0 else None
                        elif m == "fromCharCode":
                            call = "String.fromCharCode(%s)" % ", ".join(args)
                        else:
                            call = "s.%s(%s)" % (m, ", ".join(args))
                        if call is None or (m == "repeat" and other != "1"):
                            continue
                        src = ("var n = 0; var A = %s; var s = %s; var r1, r2, r3; try { r1 = %s } catch (e) { r1 = 'throw:' + e.name } "
                               "try { r2 = %s } catch (e) { r2 = 'throw:' + e.name } try { r3 = 'x'.concat(A) + [A].join('') + String(A) } catch (e) { r3 = 'throw:' + e.name } "
                               "__out(s === %s); __out(r1); __out(r3); r2" % (a, rv, call, call, rv))
                        out.append((src, {"src": src, "nt": True, "m": m, "a": [an, "pos%d" % pos, other], "r": -1}))
    seen, uniq = set(), []
    for c in out:
        if c[0] not in seen:
            seen.add(c[0])
            uniq.append(c)
    return uniq


# ---------------------------------------------------------------------------------------------- spaces

def nontrivial(cid, payload, exp):
    return payload["nt"]


NT_RULE = ('non-trivial = at least one argument is outside the in-domain set {0, 1, 2, "a", "b", "X", "bX", ","} '
           "(calls without arguments are trivial)")


def _space(name, cases, rule, bound):
    return Space(name, RUN, cases, oracle="table", nontrivial=nontrivial, rule=rule + "; " + NT_RULE, bound=bound,
                 batch=400)


def core_spaces():
    sp = []
    for g, ms in GROUPS:
        sp.append(_space("c16_" + g, lambda ms=ms: method_cases(ms, False),
                         "full product {%s} x 14 receivers x argument tuples of arity 0..2 over the 16-value grid "
                         "(+ natural string arguments in the first position); result or error name is the "
                         "completion value, receiver identity is logged" % ", ".join(ms),
                         "%d methods x 14 receivers x (1 + g + g*16), g = 16..20" % len(ms)))
    sp.append(_space("c16_access", lambda: access_cases(False),
                     "s.length and s[k] for k over the grid plus canonical / non-canonical index strings",
                     "14 receivers x 25"))
    sp.append(_space("c16_regex_args", regex_arg_cases,
                     "split / replace / replaceAll (and the methods that take a search string or a number) x 14 receivers x %d regular-expression arguments (global, sticky, captures, empty "
                     "matches, left-over lastIndex) x limits / replacements; the regex's lastIndex after the call is logged" % len(REGEX_ARGS),
                     "13 methods x 14 x %d x <= 7" % len(REGEX_ARGS)))
    sp.append(_space("c16_throw_once", throw_once_cases,
                     "every method x argument position x 5 arguments whose conversion throws on the first attempt only (object, array "
                     "element, nested array): the call is made twice with the same argument object, then the argument is converted "
                     "by concat / join / String", "22 methods x 3 receivers x 5 x 2 x 2"))
    sp.append(_space("c16_replacement", lambda: repl_cases(),
                     "replace / replaceAll with string patterns: $-substitution patterns and replacer functions (including "
                     "functions whose result contains $-patterns, objects, nothing)", "2 x 14 x 7 patterns x 22 replacements"))
    sp.append(_space("c16_ctor", lambda: ctor_cases(False),
                     "String(args) and String.fromCharCode(args) for arity 0..2 over the grid", "2 x (1+g+g*16)"))
    return sp


def thorough_strata():
    st = []
    for g, ms in GROUPS:
        st.append(_space("c16_%s_ext" % g, lambda ms=ms: method_cases(ms, True),
                         "extension of c16_%s: arguments {}, [], [1], function(){} in each position, and three "
                         "receivers of 64, 100 and 255 characters with the whole argument grid" % g,
                         "17 receivers x (1 + g + g*20), minus the core"))
    st.append(_space("c16_access_ext", lambda: access_cases(True), "index access with object keys, long receivers",
                     "17 receivers x 29 minus core"))
    st.append(_space("c16_ctor_ext", lambda: ctor_cases(True), "String / fromCharCode with object arguments",
                     "2 x tuples with an object argument"))
    return st


def spaces(tier, seed, all_strata=False):
    core = core_spaces()
    strata = thorough_strata()
    if tier == "thorough" or all_strata:
        return core + strata
    return core + [strata[seed % len(strata)]]


# ---------------------------------------------------------------------------------------------- triage

def _argclass(a):
    if a in ("NaN", "Infinity", "-Infinity"):
        return "nonfinite"
    if a == "undefined":
        return "undefined"
    if a == "function(){}" or a.startswith("function"):
        return "function"
    if a in OBJ:
        return "object"
    return "other"


# number of leading parameters each function actually reads (further arguments are ignored by the specification)
ARITY = {"charAt": 1, "charCodeAt": 1, "repeat": 1, "toLowerCase": 0, "toUpperCase": 0, "trim": 0, "trimStart": 0,
         "trimEnd": 0, "toString": 0, "length": 0, "[]": 1, "String": 1}


def signature(sp, cid, payload, exp, obs):
    m = payload["m"]
    args = payload["a"][:ARITY.get(m, 2)]
    kind = mismatch_kind(exp, obs)
    te, to = tail(exp), tail(obs)
    if te.startswith('Rs"throw:') or to.startswith('Rs"throw:'):
        e_ = te[3:-1] if te.startswith('Rs"throw:') else "a value"
        o_ = to[3:-1] if to.startswith('Rs"throw:') else ("a value" if to.startswith("R") else to[1:])
        kind = "%s where %s is specified" % (o_.replace("throw:", "throws "), e_.replace("throw:", "throwing "))
    elif te.startswith("R[") and to.startswith("R["):
        kind = "wrong array of pieces"
    if "host:ValueError" in kind:
        trig = "an integer parameter that converts to NaN (undefined, NaN, non-numeric string, object) reaches int()"
    elif "host:OverflowError" in kind:
        trig = "an infinite or out-of-range integer parameter reaches int()/chr()"
    else:
        classes = [_argclass(a) for a in args]
        trig = "primitive arguments"
        for c, text in (("function", "function argument"), ("object", "object/array argument"),
                        ("nonfinite", "NaN/Infinity argument"), ("undefined", "undefined argument")):
            if c in classes:
                trig = text
                break
        if not args and ARITY.get(m, 2):
            trig = "no arguments"
        elif not args:
            trig = "receiver-only"
    name = {"[]": "index access s[k]", "length": "s.length"}.get(m, ("String.prototype." + m) if payload["r"] >= 0 else m)
    key = "%s|%s|%s" % (m, kind, trig)
    return key, "%s: %s (%s)" % (name, kind, trig)
