"""C02  Memory limit stops runaway stack growth, and never stops bounded scripts.

Part A (E1): {recursion shape} x {operand context} x {M}: the outcome must be exactly MemoryLimitError,
after a number of interpreter steps proportional to M, never a host RecursionError / MemoryError.
Part B (E1 over the control-flow grammar, measured through the hook-free `__mark` probe): every body
of the skeleton grammar (mc/gen/programs.py) is run 50 times in a driver loop on the real VM; the
operand-stack depth, handler-stack depth and call-stack depth observed at the driver's back edge must
be identical at every iteration (no statement, abrupt exit or caught exception leaves anything behind).
"""
import itertools

from mc.core.runner import Space
from mc.gen import programs as P

PROP = "C02"
LEVEL = "exploration"
ASSUMPTIONS = [
    "interpreter memory = operand stack, call stack and handler stack of the VM (what the engine accounts, plus the "
    "handler stack); heap data is documented as unaccounted and out of scope",
    "bodies come from the two-level (quick) / three-level (thorough) skeleton grammar; deeper nestings are not explored",
    "host memory is not measured in bytes: Part A bounds interpreter steps by M and forbids host RecursionError/MemoryError",
]


# ------------------------------------------------------------------ Part A
def _shapes():
    S = {}
    S["self"] = "function f() { return f() } f();"
    S["self-operand"] = "function f() { return 1 + f() } f();"
    S["self-array"] = "function f() { return [0, f()] } f();"
    S["self-arg"] = "function g(a, b) { return b } function f() { return g(1, f()) } f();"
    S["mutual-2"] = "function f() { return h() } function h() { return f() } f();"
    S["mutual-3"] = "function f() { return h() } function h() { return k() } function k() { return f() } f();"
    for m, call in (("forEach", "[1].forEach(function () { f() })"), ("map", "[1].map(function () { return f() })"),
                    ("filter", "[1].filter(function () { return f() })"),
                    ("reduce", "[1, 2].reduce(function (a, b) { return f() })"),
                    ("reduceRight", "[1, 2].reduceRight(function (a, b) { return f() })"),
                    ("find", "[1].find(function () { return f() })"), ("findIndex", "[1].findIndex(function () { return f() })"),
                    ("some", "[1].some(function () { return f() })"), ("every", "[1].every(function () { return f() })"),
                    ("sort", "[2, 1].sort(function (a, b) { return f() })"),
                    ("replace", "'a'.replace('a', function () { return f() })")):
        S["callback-" + m] = "function f() { return %s } f();" % call
    S["getter"] = "var o = {get x() { return o.x }}; o.x;"
    S["setter"] = "var o = {set x(v) { o.x = v }}; o.x = 1;"
    S["valueOf"] = "var o = {valueOf: function () { return o + 1 }}; o + 1;"
    S["toString"] = "var o = {toString: function () { return '' + o }}; '' + o;"
    S["call"] = "function f() { return f.call(null) } f();"
    S["apply"] = "function f() { return f.apply(null, []) } f();"
    S["bind"] = "function f() { return f.bind(null)() } f();"
    S["new"] = "function F() { new F() } new F();"
    S["indirect-eval"] = "function f() { return (1, eval)('f()') } f();"
    S["new-Function"] = "var f = new Function('return f()'); f();"
    S["try-catch-recursion"] = "function f() { try { return f() } catch (e) { return f() } } f();"
    S["closure-chain"] = "function f(g) { return f(function () { return g }) } f(null);"
    return S


def run_runaway(payload):
    from mc.props.common import engine
    e = engine()
    M = payload["ml"]
    steps = [0]
    cap = 4 * M + 200000

    def hook(vm):
        steps[0] += 1
        if steps[0] > cap:
            raise e.Abort()

    e.set_vm_hook(hook)
    try:
        e.CLOCK.reset("step")
        ctx = e.Context(memory_limit=M)
        try:
            r = ctx.eval(payload["src"])
            oc = "returned " + repr(r)[:30]
        except e.Abort:
            oc = "still running after %d interpreter steps (4 x M + 200000)" % cap
        except e._errors.MemoryLimitError as ex:
            oc = "memory" if type(ex) is e._errors.MemoryLimitError else "memory-subclass"
        except RecursionError:
            oc = "host RecursionError"
        except MemoryError:
            oc = "host MemoryError"
        except e._errors.JSError as ex:
            oc = "JSError " + str(ex)[:50]
        except BaseException as ex:  # noqa: BLE001
            oc = "host " + type(ex).__name__
    finally:
        e.set_vm_hook(None)
    return oc + "\x00memory"


def _runaway_cases(Ms):
    out = []
    for name, src in _shapes().items():
        for M in Ms:
            out.append(("M=%d | recursion through %s | %s" % (M, name, src), {"src": src, "ml": M}))
    return out


# ------------------------------------------------------------------ Part B
N_ITER = 30


def inline_body(chain, exit_kind, pos, uncaught=False):
    """Statements of the chain with the exit at the innermost position, to be placed directly in a loop body."""
    loop_lvls = [i for i, k in enumerate(chain) if k in P.LOOPS]
    if exit_kind == "none":
        if pos != "bare":
            return None
        inner = [P.out(500)]
    else:
        ex = [P.out(P.EXIT_MARK), P.exit_stmt(exit_kind)]
        if pos == "bare":
            inner = ex + [P.out(501)]
        elif pos == "iter1":
            guard = ("j%d === 1" % loop_lvls[-1]) if loop_lvls else "c"
            inner = [P.out(500), ("if", guard, ex, None), P.out(501)]
        else:
            if not loop_lvls:
                return None
            inner = [P.out(500), ("if", "j%d === 2" % loop_lvls[-1], ex, None), P.out(501)]
    target = None
    if exit_kind.startswith("lbreak") or exit_kind.startswith("lcontinue"):
        target = int(exit_kind[-1])
        if target >= len(chain) or chain[target] == "block":
            return None
    body = inner
    for lvl in range(len(chain) - 1, -1, -1):
        body = P.construct(chain[lvl], lvl, body, "L%d" % lvl if lvl == target else None)
    if exit_kind == "throw" and not uncaught:
        body = [("try", body, ("e9", [P.out(900), P.outv("e9")]), None)]
    return body


# the throw crosses a native frame (callback-taking built-in, accessor, conversion) before it is caught
NATIVE_CONTEXTS = ["[1].forEach(function () { f() });", "r = [2, 1].sort(function () { return f() });",
                   "r = ({get x() { return f() }}).x;", "r = 1 + {valueOf: function () { return f() }};",
                   "r = [1, 2].reduce(function (a, b) { return f() });", "r = 'a'.replace('a', function () { return f() });"]
CONTEXTS = ["f();", "r = 1 + f();", "r = [0, f(), 2];", "r = g(0, f());", "r = a[f()];", "r = {a: 1 + f()};"]


def residue_programs(depth, constructs):
    """Yield (case_id, source). Three placements of each body:
    inline   directly in the driver loop (exits other than return)
    func     inside function f called from the driver loop in 6 expression contexts
    throwing f throws out of the body (no local handler) and the driver's try/catch catches it
             in mid-expression
    """
    chains = [c for c in itertools.product(constructs, repeat=depth)]
    exits = P.EXITS2 if depth <= 2 else P.EXITS3
    pre = P.PRELUDE
    for chain in chains:
        for ex in exits:
            for pos in P.POSITIONS:
                if ex != "return":
                    b = inline_body(chain, ex, pos)
                    if b is not None and not P.early_error(b, in_function=False):
                        src = pre + "var I = 0; while (I < NN) { I++; " + P.stmts(b) + " __mark(); } I"
                        yield "inline|%s|%s|%s" % (">".join(chain), ex, pos), src
                fb = P.skeleton_body(list(chain), ex, pos)
                if fb is not None:
                    fsrc = P.stmt(("func", "f", [], fb))
                    for ctx in CONTEXTS if pos != "iter2" else CONTEXTS[:2]:
                        src = pre + fsrc + " var I = 0; while (I < NN) { I++; " + ctx + " __mark(); } I"
                        yield "func|%s|%s|%s|%s" % (">".join(chain), ex, pos, ctx), src
                if ex == "throw":
                    tb = inline_body(chain, ex, pos, uncaught=True)
                    if tb is not None:
                        tb = [P.out(1)] + tb + [P.out(2), ("return", 2)]
                        if not P.early_error(tb, in_function=True):
                            fsrc = P.stmt(("func", "f", [], tb))
                            for ctx in CONTEXTS + NATIVE_CONTEXTS:
                                src = (pre + fsrc + " var I = 0; while (I < NN) { I++; try { " + ctx +
                                       " } catch (ee) { __out(ee) } __mark(); } I")
                                yield "throwing|%s|%s|%s" % (">".join(chain), pos, ctx), src


def tryshape_programs(two_deep):
    """Every try/catch/finally shape of mc/gen/tryshapes.py (exit kinds in the try, catch and finally blocks, incl.
    break/continue/return/throw out of a finally or catch block while an exception is pending), inline in a loop of the
    driver and inside a function called from the driver."""
    from mc.gen import tryshapes as T
    shapes = [(sh, None, None) for sh in T.SHAPES]
    if two_deep:
        small = T.smallest(24)
        for sh in small:
            for inner in small:
                for pos in ("try", "catch", "finally"):
                    if (pos == "catch" and sh[1] == "absent") or (pos == "finally" and sh[2] == "absent"):
                        continue
                    shapes.append((sh, inner, pos))
    for sh, inner, pos in shapes:
        isrc = T.shape_src(inner, 50, 2) if inner is not None else None
        body = T.shape_src(sh, 0, 1, isrc, pos)
        name = T.sh_name(sh) + ("" if inner is None else "/%s@%s" % (T.sh_name(inner), pos))
        uses_return = "return" in sh or (inner is not None and "return" in inner)
        if not uses_return:
            src = ("var I = 0; while (I < NN) { I++; try { for (var q = 0; q < 2; q++) { " + body +
                   " } } catch (ez) { __out(ez) } __mark(); } I")
            yield "tryshape-inline|" + name, src
        src = ("function fn() { for (var q = 0; q < 2; q++) { " + body + " } return 6 } var I = 0; while (I < NN) { I++; "
               "try { __out(1 + fn()) } catch (ez) { __out(ez) } __mark(); } I")
        yield "tryshape-func|" + name, src
        src = ("function fn() { for (var q = 0; q < 2; q++) { " + body + " } return 6 } var I = 0; while (I < NN) { I++; "
               "try { [1].forEach(function () { __out([0, fn()]) }) } catch (ez) { __out(ez) } __mark(); } I")
        yield "tryshape-native|" + name, src
        # the loop that repeats the shape lives inside ONE activation (a return in the shape ends the activation and the
        # driver starts another one): what a finally that overrides a return leaves behind accumulates here only
        src = ("var I = 0; function fn() { for (var q = 0; I < NN; q++) { I++; __mark(); " + body + " } return 6 } "
               "var guard = 0; while (I < NN && guard < 4 * NN + 8) { guard++; try { fn() } catch (ez) { __out(ez) } } I")
        yield "tryshape-funcloop|" + name, src


# statements whose body does not run (or runs zero times): the paths "around" a construct, each with its own clean-up code
DEGENERATE = {
    "switch-no-match-no-default": "switch (z) { case 0: __out(1); case 5: __out(2) }",
    "switch-empty": "switch (s) { }",
    "switch-only-default": "switch (z) { default: }",
    "switch-match-last-no-break": "switch (s) { case 0: __out(1); case 1: __out(2) }",
    "switch-discriminant-call": "switch (g(1, 2)) { case 0: __out(1) }",
    "switch-case-expression-call": "switch (z) { case g(0, 1): __out(1); case g(1, 1): __out(2) }",
    "switch-in-expression-statement": "[1].map(function (v) { switch (v) { case 2: return 1 } })",
    "for-zero-iterations": "for (var q = 0; q < 0; q++) { __out(1) }",
    "for-in-empty": "for (var k in {}) { __out(k) }",
    "for-in-null": "for (var k in null) { __out(k) }",
    "for-of-empty": "for (var v of []) { __out(v) }",
    "for-of-break-first": "for (var v of [1, 2, 3]) { break }",
    "for-in-break-first": "for (var k in {a: 1, b: 2}) { break }",
    "for-in-continue-all": "for (var k in {a: 1, b: 2}) { continue }",
    "while-false": "while (false) { __out(1) }",
    "do-while-once-break": "do { break } while (true);",
    "if-false-no-else": "if (!c) { __out(1) }",
    "conditional-expression-untaken": "c ? 0 : g(1, 2);",
    "and-short-circuit": "(!c) && g(1, 2);",
    "or-short-circuit": "c || g(1, 2);",
    "try-empty-finally": "try { } finally { }",
    "try-catch-not-entered": "try { } catch (e) { __out(e) }",
    "labelled-block-break": "L: { break L; }",
    "labelled-empty-loop": "L: for (;;) { break L }",
    "nested-label-continue": "A: for (var q = 0; q < 2; q++) { B: for (;;) { continue A } }",
    "comma-and-void": "void (g(1, 2), 0);",
    "delete-and-typeof": "delete a[9]; typeof nothere;",
    "empty-statements": ";;;",
    "var-without-init": "var w1, w2;",
    "function-declaration-only": "function unused() { return 1 }",
    "array-and-object-literals-dropped": "[g(1, 2), {k: g(3, 4)}];",
    "call-with-spread-like-many-args": "g(1, 2, 3, 4, 5, 6, 7, 8);",
    "getter-read-dropped": "({get p() { return g(1, 2) }}).p;",
    "throw-caught-in-switch": "switch (s) { case 1: try { throw 1 } catch (e) { break } }",
    "return-from-switch-in-function": "(function () { switch (s) { case 1: return 5 } })();",
    "return-from-for-in-in-function": "(function () { for (var k in {a: 1}) { return k } })();",
    "return-from-for-of-in-function": "(function () { for (var v of [1, 2]) { return v } })();",
    "break-out-of-switch-in-for-in": "for (var k in {a: 1, b: 2}) { switch (k) { case 'a': continue; default: break } }",
    "delete-non-reference": "delete g(1, 2); delete 5; delete (s, a)[9]; delete 'str'; delete (c ? a : a);",
    "catch-parameter-captured": "try { throw g(1, 2) } catch (e) { var keep = function () { return e } } keep();",
    "catch-parameter-captured-arrow": "try { null.x } catch (e) { var keep2 = () => e } keep2();",
    "for-in-target-captured": "for (var k in {a: 1}) { var kk = function () { return k } } kk();",
    "for-of-target-captured": "for (var v of [1, 2]) { var vv = function () { return v } } vv();",
    "function-expression-named-recursive": "(function fact(n) { return n <= 1 ? 1 : n * fact(n - 1) })(4);",
    "typeof-and-in-and-instanceof": "typeof a[0]; 'x' in {x: 1}; a instanceof Array;",
    "compound-assignment-to-member": "a[0] += 1; a[0] -= 1; ({p: 1}).p *= 2;",
    "update-on-member-dropped": "a[1]++; --a[1]; ({p: 1}).p++;",
    "sequence-with-calls": "(g(1, 2), g(3, 4), 0);",
    "template-of-calls-in-condition": "if (g(1, 2) > g(0, 0)) { } else { }",
    "new-expression-dropped": "new (function K(x) { this.x = x })(1);",
    "regex-literal-and-test": "/a+/.test('caab');",
    "throw-in-getter-caught": "try { ({get p() { throw 1 }}).p } catch (e) { }",
    "throw-in-valueOf-mid-expression": "try { r = 1 + {valueOf: function () { throw 2 }} } catch (e) { }",
    "throw-in-callback-mid-array": "try { r = [0, [1].map(function () { throw 3 }), 2] } catch (e) { }",
    "throw-in-for-of-over-callback": "try { for (var v of [1, 2]) { [v].forEach(function () { throw 4 }) } } catch (e) { }",
    "throw-in-sort-comparator-in-for-in": "for (var k in {a: 1}) { try { [2, 1].sort(function () { throw 5 }) } catch (e) { } }",
    "nested-eval-throws-mid-expression": "try { r = 1 + (1, eval)('null.x') } catch (e) { }",
}


def degenerate_programs():
    pre = P.PRELUDE
    for name, stmt in DEGENERATE.items():
        yield ("degenerate-inline|%s|none" % name,
               pre + "var I = 0; while (I < NN) { I++; " + stmt + " __mark(); } I")
        yield ("degenerate-func|%s|none" % name,
               pre + "function fn() { " + stmt + " return 6 } var I = 0; while (I < NN) { I++; r = 1 + fn(); __mark(); } I")
        yield ("degenerate-native|%s|none" % name,
               pre + "function fn() { " + stmt + " return 6 } var I = 0; while (I < NN) { I++; [1].forEach(function () { "
               "r = [0, fn()] }); __mark(); } I")
        # the repeating loop lives inside ONE activation: what the statement leaves behind accumulates there only
        yield ("degenerate-funcloop|%s|none" % name,
               pre + "var I = 0; function fn() { for (var qq = 0; I < NN; qq++) { I++; __mark(); " + stmt + " } return 6 } fn(); I")
        yield ("degenerate-operand|%s|none" % name,
               pre + "function fn() { " + stmt + " return 6 } var I = 0; while (I < NN) { I++; r = g(1, [fn(), fn()].length); "
               "__mark(); } I")


def _degenerate_cases():
    out = []
    for cid, src in degenerate_programs():
        out.append((cid, {"src": src}))
        out.append((cid.replace("|none", "|long-run"), {"src": src, "n": 3000, "ml": 65536}))
    return out


# whole control structures inside handler blocks: a finally block that runs while an exception is pending or while a return is
# interrupted, and a catch block, each holding two nested constructs with an exit that stays inside them
IN_HANDLER_CONSTRUCTS = ["for", "forin", "forof", "switch", "sw_df_hit", "label", "trycatch", "tryfinally", "dowhile"]
IN_HANDLER_PLACES = {
    "finally-with-pending-exception": "try { try { throw new Error('boom') } finally { %s } } catch (e) { __out(e.message) }",
    "catch-block": "try { null.x } catch (e) { __out(e.name); %s }",
    "finally-interrupting-return": "__out((function () { try { return 'ret' } finally { %s } })());",
    "finally-normal": "try { __out(1) } finally { %s }",
}


def in_handler_programs():
    for chain in itertools.product(IN_HANDLER_CONSTRUCTS, repeat=2):
        for ex in ("none", "break", "continue", "lbreak0", "lbreak1", "lcontinue0", "lcontinue1", "throw"):
            for pos in ("bare", "iter1"):
                b = inline_body(chain, ex, pos)
                if b is None or P.early_error([("for", None, "false", None, b)], in_function=True):
                    continue
                if "continue" in ex and not any(k in P.LOOPS for k in chain):
                    continue
                if ex == "break" and not any(k in P.LOOPS or k in P.SWITCHES for k in chain):
                    continue        # it would leave the loop of the driver itself
                if ex == "continue" and chain[-1] not in P.LOOPS and not any(k in P.LOOPS for k in chain):
                    continue
                body = P.stmts(b)
                for place, tmpl in IN_HANDLER_PLACES.items():
                    src = (P.PRELUDE + "var I = 0; function fn() { for (var qq = 0; I < NN; qq++) { I++; __mark(); " + (tmpl % body) +
                           " } return 6 } fn(); I")
                    yield "inhandler|%s|%s|%s|%s" % (">".join(chain), ex, pos, place), src


def _in_handler_cases():
    return [(cid, {"src": src}) for cid, src in in_handler_programs()]


def _tryshape_cases(two_deep):
    return [(cid, {"src": src}) for cid, src in tryshape_programs(two_deep)]


def run_residue(payload):
    """Run the driver loop N_ITER times; marks = (operand depth, handler depth, call depth) at the back edge."""
    from mc.props.common import engine
    e = engine()
    n = payload.get("n", N_ITER)
    marks = []
    e.CLOCK.reset("poll")
    ctx = e.Context(time_limit=max(400, 2 * n), memory_limit=payload.get("ml"))
    ctx._globals["__out"] = lambda *a: e.UNDEFINED
    ctx._globals["NN"] = n

    def mark(*a):
        vm = ctx._current_vm
        marks.append((len(vm.stack), len(vm.exception_handlers), len(vm.call_stack),
                      getattr(vm, "native_depth", [0])[0], len(getattr(vm, "_callback_bases", ()))))
        return e.UNDEFINED

    ctx._globals["__mark"] = mark
    try:
        r = ctx.eval(payload["src"])
        oc = "ok" if r == n else "driver loop ended early (I = %r)" % (r,)
    except e._errors.MemoryLimitError:
        oc = "MemoryLimitError"
    except e._errors.TimeLimitError:
        oc = "TimeLimitError"
    except e._errors.JSError as ex:
        oc = "JSError " + str(ex)[:40]
    except RecursionError:
        oc = "host RecursionError"
    except BaseException as ex:  # noqa: BLE001
        oc = "host " + type(ex).__name__
    if oc == "ok":
        if len(marks) != n:
            oc = "driver back edge reached %d times instead of %d" % (len(marks), n)
        elif len(set(marks)) != 1:
            d = [marks[-1][i] - marks[0][i] for i in range(5)]
            oc = ("residue after %d iterations: operands %+d, handlers %+d, frames %+d, native re-entries %+d, callback bases %+d"
                  % (n, d[0], d[1], d[2], d[3], d[4]))
    return oc + "\x00ok"


def _residue_cases(depth, constructs, pick=None, extra=None):
    out = []
    for i, (cid, src) in enumerate(residue_programs(depth, constructs)):
        if pick is not None and i % pick[1] != pick[0]:
            continue
        payload = {"src": src}
        if extra:
            payload.update(extra)
        out.append((cid, payload))
    return out


C2 = ["for", "while", "dowhile", "forin", "forof", "switch", "sw_df_hit", "sw_dl", "label", "if", "trycatch",
      "tryfinally", "block", "func"]
C3 = ["for", "forin", "forof", "sw_df_hit", "trycatch", "tryfinally", "label"]


def _nontrivial(cid, payload, exp):
    # body contains at least one abrupt exit or caught exception
    return "|none|" not in cid


def _sp(name, runner, fn, rule, bound, batch=50, nontrivial=None):
    return Space(name, "mc.props.c02:" + runner, fn, oracle="inline", rule=rule, bound=bound, batch=batch, watchdog=60,
                 nontrivial=nontrivial or (lambda cid, p, exp: True))


def spaces(tier, seed, all_strata=False):
    core = [
        _sp("c02_runaway", "run_runaway", lambda: _runaway_cases([10 ** 4, 10 ** 5, 10 ** 6]),
            "31 recursion shapes (self, operand-pending, mutual 2/3, through 11 callback-taking built-ins, accessors, "
            "conversions, call/apply/bind, new, indirect eval, new Function, try/catch recursion, closure chain) x "
            "M in {1e4, 1e5, 1e6}: exactly MemoryLimitError within 4M + 2e5 interpreter steps, never a host error",
            "shapes x M", batch=2),
        _sp("c02_residue_d1", "run_residue", lambda: _residue_cases(1, P.CONSTRUCTS),
            "every one-construct body x exit kind x position, placed inline in the driver loop, inside a function called "
            "in 6 expression contexts, and as a throwing callee caught by the driver in mid-expression or across 6 kinds of native "
            "frame; 30 iterations; (operand, handler, call, native re-entry, callback base) depths at the back edge must be constant; non-trivial = body has an abrupt exit "
            "or a caught exception", "depth 1", nontrivial=_nontrivial),
        _sp("c02_tryshapes", "run_residue", lambda: _tryshape_cases(False),
            "all 205 try/catch/finally shapes (5 try exits x 7 catch exits x 6 finally exits, incl. break/continue/return/throw "
            "leaving a catch or finally block while an exception is pending) inline in the driver loop, inside a function used "
            "as an operand, and below a native frame", "all shapes", nontrivial=lambda cid, p, exp: "normal.absent.absent" not in cid),
        _sp("c02_degenerate", "run_residue", _degenerate_cases,
            "%d statements whose body is skipped or runs zero times, or whose value is dropped (switch without a matching case or default, empty loops, "
            "untaken branches, short circuits, immediate break / continue / return out of for-in, for-of and switch, dropped "
            "expression values, captured catch / loop variables, throws caught in mid-expression) x 5 placements (inline, in a "
            "function used as an operand, below a native frame, twice in one array literal, in a loop inside one activation), 30 iterations with the depth marks and 3 000 iterations under memory_limit = 64 kB" % len(DEGENERATE),
            "%d x 5 x 2" % len(DEGENERATE), nontrivial=lambda cid, p, exp: True),
        _sp("c02_in_handlers", "run_residue", _in_handler_cases,
            "every two-level nesting of 9 constructs x 8 exits that stay inside it x 2 positions, written inside a finally block that "
            "runs with a pending exception, a catch block, a finally block that interrupts a return and an ordinary finally block; the "
            "loop that repeats it lives inside one activation", "81 x 8 x 2 x 4", nontrivial=lambda cid, p, exp: True),
        _sp("c02_residue_d2", "run_residue", lambda: _residue_cases(2, C2),
            "every two-level nesting of 14 constructs x 9 exit kinds x 3 positions, same three placements", "depth 2",
            nontrivial=_nontrivial),
    ]
    strata = [_sp("c02_residue_d3_%d" % k, "run_residue", (lambda k=k: _residue_cases(3, C3, pick=(k, 6))),
                  "three-level nestings over 7 constructs (slice %d of 6)" % k, "depth 3", nontrivial=_nontrivial)
              for k in range(6)]
    strata.append(_sp("c02_tryshapes_nested", "run_residue", lambda: _tryshape_cases(True)[615:],
                      "the 24 smallest try shapes nested in the try, catch and finally block of each other", "two deep",
                      nontrivial=lambda cid, p, exp: True))
    strata.append(_sp("c02_runaway_big", "run_runaway", lambda: _runaway_cases([10 ** 7]),
                      "recursion shapes at M = 1e7", "M = 1e7", batch=1))
    strata.append(_sp("c02_longrun", "run_residue",
                      lambda: _residue_cases(2, C2, pick=(0, 97), extra={"n": 3000, "ml": 65536}),
                      "black-box confirmation: every 97th depth-2 body x 3000 iterations under memory_limit = 64 kB must "
                      "not raise MemoryLimitError", "3000 iterations", batch=5, nontrivial=_nontrivial))
    if tier == "thorough" or all_strata:
        return core + strata
    quickable = [s for s in strata if s.name.startswith("c02_residue_d3")]
    return core + [quickable[seed % len(quickable)]]


def signature(sp, cid, payload, exp, obs):
    if sp.name.startswith("c02_runaway"):
        shape = cid.split(" | ")[1]
        return shape + "|" + obs[:30], "%s: %s" % (shape, obs)
    parts = cid.split("|")
    placement, chain, ex = parts[0], parts[1], parts[2]
    what = obs.split(":")[0] if obs.startswith("residue") else obs[:40]
    key = "%s|%s|%s" % (placement, ex, what)
    return key, "%s placement, exit %s: %s (e.g. %s)" % (placement, ex, obs[:70], chain)
