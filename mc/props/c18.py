"""C18  Numbers print, parse and round as IEEE doubles the ECMAScript way.

E1: boundary grid of doubles x printing forms; numeric-string grammar + single-character mutations x
parsing functions; Math functions x special-value grid.
Oracle: V8 expected-outcome tables (tables/c18_*.json.gz), typed and bit-exact; the Math space accepts a
result within 1 ulp of the table away from the special points (ECMA-262: implementation-approximated).

Doubles are injected into both engines as *values* (payload global `x`, `y`), not as source literals, so
the printing and Math families do not depend on the lexer; Python's repr() round-trips and V8 parses it
exactly. Integer-valued doubles up to 2^53 are additionally injected as host integers (`int:` cases),
because the engine holds integral numbers in a second representation.
"""
import struct

import re
from mc.core.runner import Space
from .common import mismatch_kind, tail

PROP = "C18"
LEVEL = "exploration"
ASSUMPTIONS = [
    "expected outcomes were computed at build time by V8 (node 20, strict mode) for exactly the enumerated "
    "case ids and are pinned by SHA-256 of the case list",
    "doubles outside the boundary grid (every binary exponent x 6 mantissa patterns, powers of ten and their "
    "neighbours, notation thresholds, halfway cases) are not explored",
    "toString(radix != 10) is compared only where the result is implementation-independent: integers up to "
    "2^53 in every radix, larger integers in power-of-two radices, dyadic fractions in even radices",
    "Math functions that ECMA-262 leaves implementation-approximated are accepted within 1 ulp of V8 unless the "
    "specified result is NaN, a zero, an infinity or an integer up to 2^53",
]
RUN = "mc.props.common:run_src"

# ------------------------------------------------------------------------------------------ doubles


def dbl(sign, e, m):
    return struct.unpack(">d", struct.pack(">Q", (sign << 63) | (e << 52) | m))[0]


def bits_of(x):
    return struct.unpack(">Q", struct.pack(">d", x))[0]


def step(x, n):
    """The double n ulps away from the finite double x (n may be negative)."""
    b = bits_of(x)
    if b >> 63:
        return -step(-x, -n)
    b += n
    if b < 0:
        return -struct.unpack(">d", struct.pack(">Q", -b))[0]
    return struct.unpack(">d", struct.pack(">Q", b))[0]


def lit(x):
    """Text that names the double x exactly in both engines."""
    if isinstance(x, int):
        return str(x)
    if x != x:
        return "NaN"
    if x in (float("inf"), float("-inf")):
        return "Infinity" if x > 0 else "-Infinity"
    return repr(x)


MANT = [0, 1, (1 << 52) - 1, 1 << 51, 0x5555555555555, 0x243F6A8885A30]
EDGE_EXP = [0, 1, 1022, 1023, 1024, 1025, 1026, 1075, 2046]


def core_exponents():
    es = set(range(0, 2047, 8))
    for c in EDGE_EXP:
        for d in range(-3, 4):
            if 0 <= c + d <= 2046:
                es.add(c + d)
    return sorted(es)


def grid_values(exps, signs=(0, 1)):
    out = []
    for e in exps:
        for m in MANT:
            for s in signs:
                out.append(dbl(s, e, m))
    return out


POW10_CORE = sorted(set(range(-324, 309, 4)) | set(range(-8, 23)))


def pow10_values(ks):
    out = []
    for k in ks:
        x = float("1e%d" % k)
        if x == 0.0:
            x = 5e-324
        for n in (-1, 0, 1):
            y = step(x, n)
            if y == y and abs(y) != float("inf"):
                out.append(y)
    return out


def threshold_values():
    out = []
    for c in (1e21, 1e-6, 1e-7, 9007199254740992.0, 1e-5, 1e20, 123456789012345680000.0):
        for n in range(-3, 4):
            out.append(step(c, n))
            out.append(-step(c, n))
    return out


def halfway_values():
    out = []
    for k in range(0, 8):
        for d in range(0, 10):
            out.append(float("%d.5e-%d" % (d, k)))
    for t in ("10.5", "100.5", "1000.5", "4503599627370496.5", "2251799813685248.5", "1.005", "1.45", "8.345",
              "1.255", "0.000001", "1.25", "1.35", "25", "35", "125", "1250", "15", "2.5e20", "1.25e-7", "1.5e21",
              "0.1", "0.2", "0.3", "123.456", "1.0000000000000002", "0.30000000000000004", "1e21", "1e-7",
              "999999999999999900000", "99.99", "0.999", "9.5", "0.95", "0.000095", "5e-7", "4.35", "1.15", "2.675"):
        out.append(float(t))
    out += [-v for v in out]
    return out


SPECIALS = [float("nan"), float("inf"), float("-inf"), 0.0, -0.0]


def uniq(vals):
    seen, out = set(), []
    for v in vals:
        k = ("i", v) if isinstance(v, int) else bits_of(v) if v == v else "nan"
        if k not in seen:
            seen.add(k)
            out.append(v)
    return out


def int_reps(vals):
    """Integer-valued doubles up to 2^53 as host integers (the engine's second number representation)."""
    out = []
    for v in vals:
        if v == v and abs(v) <= 9007199254740992.0 and v == int(v) and not (v == 0 and str(v)[0] == "-"):
            out.append(int(v))
    return uniq(out)


def small_int(v):
    return v == v and abs(v) < 1000 and v == int(v) and not (v == 0 and str(v)[0] == "-")


def vcase(x, src, nt=True, y=None):
    """A case whose operand(s) are injected as values."""
    g = {"x": x if isinstance(x, int) else lit(x)}
    tag = "x=%s%s" % ("int:" if isinstance(x, int) else "", lit(x))
    if y is not None:
        g["y"] = y if isinstance(y, int) else lit(y)
        tag += ",y=%s%s" % ("int:" if isinstance(y, int) else "", lit(y))
    return ("[%s] %s" % (tag, src), {"src": src, "globals": g, "nt": nt})


def TRY(expr):
    return 'var r; try { r = %s } catch (e) { r = "throw:" + e.name } r' % expr


# ------------------------------------------------------------------------------------------ printing

PRINT_FORMS = ["String(x)", '"" + x', "x.toString()", "JSON.stringify(x)",
               "var o = {}; o[x] = 1; Object.keys(o)[0]"]


def print_cases(vals):
    out = []
    for v in vals:
        nt = not small_int(v)
        for f in PRINT_FORMS:
            out.append(vcase(v, f, nt))
    return out


def print_core_values():
    vals = SPECIALS + grid_values(core_exponents()) + pow10_values(POW10_CORE) + threshold_values() + halfway_values()
    vals = uniq(vals)
    return uniq(vals + int_reps(vals) + [0, 1, -1, 7, 42, 255, 1000, 65536, 2147483648, -2147483648, 4294967296])


RADIX_INTS = [0, 1, 2, 3, 7, 8, 9, 10, 11, 15, 16, 17, 31, 32, 33, 35, 36, 37, 63, 64, 100, 127, 128, 255, 256,
              1000, 1023, 1024, 1295, 1296, 4095, 65535, 65536, 1000000, 16777216, 123456789, 2147483647,
              2147483648, 4294967295, 4294967296, 68719476735, 1000000000000, 4503599627370496,
              9007199254740991, 9007199254740992,
              -1, -2, -10, -255, -2147483648, -4294967295, -9007199254740992]
RADIX_SPECIAL = [float("nan"), float("inf"), float("-inf"), -0.0]
RADIX_BIG = [9007199254740994.0, 18446744073709551616.0, 2.0 ** 100, 1e21, 1e22, 2.0 ** 1023,
             1.7976931348623157e308, -(2.0 ** 64)]
RADIX_FRACS = [0.5, 0.25, 0.75, 0.125, 0.375, 0.625, 0.0625, 1.5, 2.5, 2.25, 10.5, 255.5, 1024.75, 4294967296.5,
               4503599627370496.5, 0.03125, 0.0009765625, -0.5, -1.5, -255.5, -0.125]
RADIX_ARGS = ["undefined", "10", "1", "37", "0", "NaN", '"16"', "2.9", "-2", "Infinity", "36.9", "null"]


def radix_cases():
    out = []
    for r in range(2, 37):
        for v in RADIX_INTS:
            out.append(vcase(float(v), TRY("x.toString(%d)" % r)))
        for v in RADIX_SPECIAL:
            out.append(vcase(v, TRY("x.toString(%d)" % r)))
        if r in (2, 4, 8, 16, 32):
            for v in RADIX_BIG:
                out.append(vcase(v, TRY("x.toString(%d)" % r)))
        if r % 2 == 0:
            for v in RADIX_FRACS:
                out.append(vcase(v, TRY("x.toString(%d)" % r)))
    for r in (2, 10, 16, 36):
        for v in (0, 1, 255, -255, 65536, 9007199254740992):
            out.append(vcase(v, TRY("x.toString(%d)" % r)))
    for a in RADIX_ARGS:
        for v in (255.0, -255.5, 0.5, float("nan"), float("inf"), 1e21, 255):
            if v == 1e21 and a == "36.9":
                continue  # an integer above 2^53 in radix 36 is implementation-defined
            out.append(vcase(v, TRY("x.toString(%s)" % a)))
    return list(dict(out).items())


DIGIT_ARGS = ["", "undefined", "0", "1", "2", "5", "10", "20", "21", "100", "101", "-1", "NaN", "1.9"]
FMT_METHODS = ["toFixed", "toPrecision", "toExponential"]


def fmt_cases(vals):
    out = []
    for v in vals:
        for m in FMT_METHODS:
            for d in DIGIT_ARGS:
                out.append(vcase(v, TRY("x.%s(%s)" % (m, d))))
    return out


def fmt_core_values():
    vals = SPECIALS + halfway_values() + pow10_values(range(-8, 23)) + threshold_values()[:56]
    vals += grid_values(range(0, 2047, 64), signs=(0,)) + grid_values([1, 1022, 1023, 1024, 1075, 2046], signs=(1,))
    vals = uniq(vals)
    return uniq(vals + [0, 1, -1, 5, 25, 1000, 123456, 2147483648])


def fmt_stratum_values(j):
    """Stratum j of 4: exponents = 8 (mod 64) shifted by 16 j, both signs, plus powers of ten k = j (mod 4)."""
    exps = [e for e in range(8 + 16 * j, 2047, 64)] + [e for e in range(16 + 16 * j, 2047, 64)]
    ks = [k for k in range(-324, 309) if k % 4 == j and not -8 <= k <= 22]
    return uniq(grid_values(sorted(exps)) + pow10_values(ks))


# ------------------------------------------------------------------------------------------ parsing

def js_str(s):
    out = ['"']
    for ch in s:
        o = ord(ch)
        if ch in '"\\':
            out.append("\\" + ch)
        elif 0x20 <= o < 0x7F:
            out.append(ch)
        else:
            out.append("\\u%04x" % o)
    out.append('"')
    return "".join(out)


G_WS1 = ["", " ", "\n\t\u00a0\ufeff", "\u001c"]
G_SIGN = ["", "+", "-"]
G_BODY = ["0", "1", "12", "007", "123456789012345678901", "1.", "1.5", "0.1", "00.5", ".5", ".", "0x1F", "0Xff", "0x",
          "0b101", "0B2", "0o17", "0O8", "Infinity", "infinity", ""]
G_EXP = ["", "e3", "E-2", "e+"]
G_WS2 = ["", " ", "\u3000\r"]
G_JUNK = ["", "x", "."]


def grammar_strings(ws1=G_WS1, junk=G_JUNK, ws2=G_WS2):
    out = []
    for a in ws1:
        for s in G_SIGN:
            for b in G_BODY:
                for e in G_EXP:
                    for w in ws2:
                        for j in junk:
                            out.append(a + s + b + e + w + j)
    return list(dict.fromkeys(out))


MUT_BASES = ["0", "1", "12", "-1", "+1", "1.5", "-1.5", ".5", "5.", "1e3", "1E3", "1e+3", "1e-3", "1.5e3", ".5e1", "5.e1",
             "0x1F", "0Xff", "0b101", "0B11", "0o17", "0O7", "Infinity", "-Infinity", "+Infinity", " 12 ", "\t1\n",
             "1 2", "12px", "1e1000", "-1e1000", "1e-1000", "0.1", "0.0000001", "123456789012345678901",
             "9007199254740993", "1_000", "\u0661\u0662", "\uff11\uff12", "inf", "nan", "NaN", "infinity", "-0", "+0",
             "0.0", "-.5", "+.5e-2", "0x", "0x1.8", "0x1p3", "1e", "1e+", "e5", ".e5", "..5", "1.5.5", "--1", "+-1",
             "- 1", "1,000", "", " ", "-0x10", "0x-10", "1e3.5", "\u00b2", "0.000001", "1e21", "4.9e-324", "2.4e-324",
             "1.7976931348623159e308", "0b", "0o", "0z10", "z", "10000000000000000000000000000000000000000"]
MUT_ALPHA_CORE = [" ", "-", ".", "e", "0", "x", "_"]
MUT_ALPHA_WIDE = ["+", "9", "a", "I", "\u00a0", "E", "b", "n", "\n", "f", "\u2028", "\u0000"]
MUT_FORMS = ["Number(%s)", "parseFloat(%s)", "parseInt(%s)", "parseInt(%s, 16)"]


def mutations(alpha, deletions=True):
    out = []
    for b in MUT_BASES[:60]:
        if deletions:
            for i in range(len(b)):
                out.append(b[:i] + b[i + 1:])
        for i in range(len(b) + 1):
            for ch in alpha:
                out.append(b[:i] + ch + b[i:])
                if i < len(b):
                    out.append(b[:i] + ch + b[i + 1:])
    return list(dict.fromkeys(out))


PARSEINT_RADIX = ["0", "2", "8", "10", "16", "36", "1", "37", "NaN", '"16"']


def parse_cases(strings, forms):
    out = []
    for s in strings:
        q = js_str(s)
        nt = not (s.isascii() and s.isdigit())
        for f in forms:
            src = f % q
            out.append((src, {"src": src, "nt": nt}))
    return out


def literal_cases():
    srcs = []
    for ip in ("0", "1", "12", "1234567890123456789012", "9007199254740993"):
        for fr in ("", ".", ".0", ".5", ".125", ".000001"):
            for ex in ("", "e3", "E3", "e+3", "e-3", "e0", "E+21", "e-7", "e400", "e-400", "e", "e+"):
                srcs.append(ip + fr + ex)
    for fr in (".5", ".0", ".125", ".000001"):
        for ex in ("", "e3", "E+3", "e-3", "e400", "e-400"):
            srcs.append(fr + ex)
    for pre, digs in (("0x", ["0", "1F", "ff", "fF", "FFFFFFFFFFFFFFFFF", "20000000000001", "1fffffffffffff8", "G", "", "1.8"]),
                      ("0b", ["0", "101", "1" * 53, "1" * 54, "1" * 70, "2", "", "12"]),
                      ("0o", ["0", "17", "777", "7" * 30, "8", "", "78"])):
        for p in (pre, pre.upper()):
            for d in digs:
                srcs.append(p + d)
    srcs += ["5.", ".5", "1e3", "0x1F", "0b101", "0o17", "1..toString()", "5..toFixed(1)", "1 .toString()", "1.0.toString()",
             "1.5.toString()", "1.e3", "1.e3.toString()", "5.0.toFixed(1)", ".5.toFixed(0)", "1e3.toString()",
             "0x10.toString()", "0..toString()", "1_000", "1_000.5", "0x1_0", "3in [1,2,3,4]", "1a", "1e3x",
             "0.0000001", "1e21", "1e-7", "123456789012345680000", "0.1 + 0.2", "-0", "-0.0", "+5", "- 5", "-.5e1",
             "1.7976931348623157e308", "1.7976931348623159e308", "5e-324", "2.4703282292062327e-324", "2.4703282292062328e-324",
             "4.9406564584124654e-324", "9007199254740992", "9007199254740993", "9007199254740995", "18446744073709551615",
             "0.1e1", "00", "0e0", "0.e1", "1.5e+00", "1E1", "1e01", "1.", "1.;", "[1.,.5,5e-1][2]", "1.toString()",
             "1.5e", "1ee3", "1e3e3", ". 5", "..5", "5 . toString()", "0x.8", "0b1e3", "0o7.5"]
    out = []
    for s in dict.fromkeys(srcs):
        out.append((s, {"src": s, "nt": not s.isdigit()}))
    return out


KEY_FORMS = ["Object.keys({%s: 1})[0]", "var o = {%s: 'v'}; o[%s]", "var o = {get %s() { return 'g' }}; Object.keys(o)[0] + o[%s]",
             "var o = {%s() { return 'm' }}; Object.keys(o)[0] + typeof o[%s]", "var o = {%s: 1, [%s]: 2}; Object.keys(o).length + ':' + o[%s]",
             "JSON.stringify({%s: 1})"]     # (the position of integer-like keys in key order is not part of this property)
KEY_SPELLINGS = ["1e-7", "1E-7", "0.0000001", "0.000001", "1e-6", "5.0", "5.", ".5", "0.50", "1e3", "1E3", "1e+3", "1000.0", "123456789012345680000",
                 "123456789012345678901", "1e21", "1e+21", "1E21", "1e20", "100000000000000000000", "0x10", "0X1f", "0b11", "0o17", "0.0", "0", "00",
                 "1.5e3", "1.5e-3", "9007199254740993", "1e400", "1e-400", "4294967295", "4294967296", "2147483648", "1_000", "0.1e1", "1e0", "1e1",
                 "1e300", "1.7976931348623157e308", "5e-324", "0.1", "0.30000000000000004", "1.0e-7", "12e-8", "001", "08"]


def literal_key_cases():
    out = []
    vals = [v for v in print_core_values() if not isinstance(v, int) and v == v and v >= 0 and v != float("inf") and str(v)[0] != "-"]
    spell = list(dict.fromkeys(KEY_SPELLINGS + [lit(v) for v in vals]))
    for sp in spell:
        for f in KEY_FORMS:
            src = f.replace("%s", sp)
            out.append((src, {"src": src, "nt": not sp.isdigit()}))
    return out


LONG_STRINGS = (["0" * n + "7" for n in (10, 398, 399, 400, 401, 402, 1000, 4299, 4300, 4301, 5000)] +
                ["-" + "0" * n for n in (10, 399, 400, 401, 5000)] + ["+" + "0" * 500 + "12"] +
                ["1" + "0" * n for n in (21, 22, 300, 307, 308, 309, 399, 400, 401, 1000, 4300, 5000)] +
                ["-1" + "0" * n for n in (308, 309, 400, 401, 5000)] +
                ["9" * n for n in (308, 309, 310, 400, 401, 4300, 4301)] +
                ["0" * 500 + ".5", "0." + "0" * 500 + "1", "0." + "0" * 322 + "1", "0." + "0" * 323 + "1", "0." + "0" * 323 + "3", "0." + "0" * 324 + "1",
                 "1" + "0" * 500 + "e-500", "0." + "0" * 500 + "1e501", "1" * 400 + ".5", "1" * 401 + ".5", " " * 500 + "7", "7" + " " * 500, "0" * 500 + "x1",
                 "0x" + "0" * 500 + "1f", "0x" + "f" * 255, "0x" + "f" * 256, "0x" + "f" * 257, "0b" + "1" * 1023, "0b" + "1" * 1024, "0b" + "1" * 1025,
                 "0o" + "7" * 341, "0o" + "7" * 342, "1e" + "0" * 500 + "2", "1e-" + "0" * 500 + "2", "1" + "0" * 500 + "px", "0" * 500 + "e1",
                 "1." + "0" * 500, "1." + "0" * 500 + "1", "1." + "9" * 500, "4.35" + "0" * 450, "0.5" + "0" * 500 + "1", "1.5" + "0" * 500 + "1",
                 "9007199254740993" + "." + "0" * 500 + "1", "9007199254740992." + "9" * 500])
LONG_FORMS = ["Number(%s)", "+%s", "%s * 1", "parseFloat(%s)", "parseInt(%s)", "parseInt(%s, 16)", "parseInt(%s, 2)", "parseInt(%s, 36)", "%s | 0", "%s >>> 0",
              "%s == 7", "%s < 8", "isNaN(%s)", "isFinite(%s)", "Math.abs(%s)", "1 / %s", "new Uint8Array([%s])[0]", "[1, 2, 3][%s]", "'abc'.charAt(%s)"]


VALUE_FORMS = ["parseInt(x)", "parseFloat(x)", "Number.parseInt(x)", "parseInt(x, 10)", "parseInt(x, undefined)", "parseInt(x, 0)", "parseInt(x, 16)",
               "1 / parseInt(x)", "Number(x)", "parseInt([x])", "parseInt({valueOf: function () { return 5 }, toString: function () { return x }})",
               "parseFloat([x, 1])", "Number.parseFloat(x)", "parseInt(-x)", "parseInt(x + '')", "parseInt(new Number(x))", "Math.trunc(x) === parseInt(x)"]


def value_parse_cases():
    out = []
    for v in print_core_values():
        nt = not small_int(v)
        for f in VALUE_FORMS:
            out.append(vcase(v, f, nt))
    return out


# ------------------------------------------------------------------------------------------ Math

# fixed list: the functions installed by Context._create_math_object (random excluded: not a function of its input)
MATH1 = ["abs", "floor", "ceil", "round", "trunc", "sqrt", "sin", "cos", "tan", "asin", "acos", "atan", "log", "exp",
         "sign", "fround", "clz32", "cbrt", "log2", "log10", "expm1", "log1p"]
MATH2 = ["pow", "atan2", "max", "min", "hypot", "imul"]
# ES2015 functions the engine does not install (reported once each through the surface cases)
MATH_ES = MATH1 + MATH2 + ["sinh", "cosh", "tanh", "asinh", "acosh", "atanh"]
MATH_EXACT = {"abs", "floor", "ceil", "round", "trunc", "sign", "fround", "clz32", "max", "min", "imul", "sqrt"}
MATH_CONSTS = ["PI", "E", "LN2", "LN10", "LOG2E", "LOG10E", "SQRT2", "SQRT1_2"]
NUMBER_CONSTS = ["MAX_VALUE", "MIN_VALUE", "EPSILON", "MAX_SAFE_INTEGER", "MIN_SAFE_INTEGER", "POSITIVE_INFINITY",
                 "NEGATIVE_INFINITY", "NaN"]

INF = float("inf")
MATH_GRID1 = [float("nan"), 0.0, -0.0, 1.0, -1.0, 0.5, -0.5, 1.5, 2.5, -1.5, -2.5, INF, -INF, 1.7976931348623157e308,
              -1.79e308, 5e-324, 9007199254740992.0, 1e-300, -1e-300, 1000.0, -1000.0, 710.0, 0.9999999999999999,
              709.782712893384, -745.2, -746.0, 2.0, 10.0, 100.0, 0.1, 3.141592653589793, 1.5707963267948966, 1e22,
              4294967296.0, 2147483648.0, -2147483649.0, 4294967295.5, 0.49999999999999994, -0.49999999999999994,
              4503599627370497.0, -4503599627370497.0, -0.2, 1e-7, 16777217.0, 3.4028235677973366e38, 3.4028234663852886e38,
              1e39, -1e39, 1e-46, 64.0, 27.0, -8.0, 8.0, 1.0000000000000002, -1.0000000000000002, -5e-324, 1e300,
              -0.9999999999999999, 1e-10, -3.5, 3.5, 4294967297.0, -1e21]
MATH_GRID2 = [float("nan"), 0.0, -0.0, 1.0, -1.0, 0.5, -0.5, 2.0, 3.0, -8.0, INF, -INF, 4294967295.0, 2147483648.0,
              1e300, 1.0 / 3.0, 1.7976931348623157e308, 5e-324, -2.0, 65537.0]
MATH_ARGS_OTHER = ["undefined", "null", "true", '"2"', '"abc"', '""', '" 0x10 "']


def math_cases():
    out = []
    for f in MATH1 + MATH2:
        for v in MATH_GRID1:
            out.append(vcase(v, "Math.%s(x)" % f, not small_int(v)))
        for v in int_reps(MATH_GRID1):
            out.append(vcase(v, "Math.%s(x)" % f, not small_int(v)))
        out.append(("Math.%s()" % f, {"src": "Math.%s()" % f, "nt": True}))
        for a in MATH_ARGS_OTHER:
            out.append(("Math.%s(%s)" % (f, a), {"src": "Math.%s(%s)" % (f, a), "nt": True}))
    for f in MATH2:
        for a in MATH_GRID2:
            for b in MATH_GRID2:
                out.append(vcase(a, "Math.%s(x, y)" % f, not (small_int(a) and small_int(b)), y=b))
        for a, b in ((2, 10), (-8, 3), (0, 0), (3, 4), (65536, 65536), (2147483647, 2), (-1, 4294967295), (2, -1)):
            out.append(vcase(a, "Math.%s(x, y)" % f, True, y=b))
    for src in ("Math.max(1, 2, 3)", "Math.min(3, 2, 1)", "Math.max(1, NaN, 3)", "Math.min(1, 2, NaN)", "Math.hypot(3, 4, 12)",
                "Math.hypot(NaN, Infinity)", "Math.hypot(Infinity, NaN)", "Math.hypot(1, 2, Infinity, NaN)",
                "Math.max(0, -0, 0)", "Math.min(0, -0, 0)", "Math.pow(2, 3, 4)", "Math.atan2(1)", "Math.pow(2)",
                "Math.imul(3)", "Math.max(-0)", "Math.min(-0)", "Math.hypot(-0)", "Math.hypot(-3)", "Math.hypot(1e200, 1e200)",
                "Math.hypot(1e-200, 1e-200)", "Math.pow(2, 1024)", "Math.pow(2, -1075)", "Math.pow(10, 308)", "Math.pow(10, 309)",
                "Math.pow(-2, 1025)", "Math.pow(0, -1)", "Math.pow(-0, -1)", "Math.pow(-0, -2)", "Math.pow(-8, 1 / 3)",
                "Math.exp(1000)", "Math.exp(-1000)", "Math.floor(NaN)", "Math.floor(Infinity)", "Math.ceil(-0.5)",
                "Math.round(-0.5)", "Math.round(0.5)", "Math.round(2.5)", "Math.round(-2.5)", "Math.trunc(-0.5)",
                "Math.sqrt(-0)", "Math.cbrt(-0)", "Math.sign(-0)", "Math.log(-0)", "Math.log1p(-1)", "Math.log2(0)",
                "Math.log10(0)", "Math.log2(8)", "Math.log10(1000)", "Math.log2(1024)", "Math.cbrt(1000)", "Math.cbrt(-64)"):
        out.append((src, {"src": src, "nt": True}))
    for f in MATH_ES:
        out.append(("typeof Math.%s" % f, {"src": "typeof Math.%s" % f, "nt": True}))
    for c in MATH_CONSTS:
        out.append(("Math.%s" % c, {"src": "Math.%s" % c, "nt": True}))
    for c in NUMBER_CONSTS:
        out.append(("Number.%s" % c, {"src": "Number.%s" % c, "nt": True}))
    return out


# ------------------------------------------------------------------------------------------ agreement

def agree(exp, obs, cid):
    return exp == obs


def _math_fn(cid):
    i = cid.find("Math.")
    if i < 0:
        return None
    j = i + 5
    while j < len(cid) and (cid[j].isalnum() or cid[j] == "_"):
        j += 1
    return cid[i + 5:j]


def _special(tok):
    """NaN, zeros, infinities and integers up to 2^53 are specified exactly."""
    b = int(tok[1:], 16)
    e = (b >> 52) & 0x7FF
    if e == 0x7FF or (b & 0x7FFFFFFFFFFFFFFF) == 0:
        return True
    v = struct.unpack(">d", struct.pack(">Q", b))[0]
    return abs(v) <= 9007199254740992.0 and v == int(v)


def agree_math(exp, obs, cid):
    """Exact at the special points; within 1 ulp of V8 where ECMA-262 leaves the result implementation-approximated."""
    if exp == obs:
        return True
    fn = _math_fn(cid)
    if fn is None or fn in MATH_EXACT or cid.startswith("typeof") or "(" not in cid:
        return False
    le, _, te = exp.rpartition("|")
    lo, _, to = obs.rpartition("|")
    if le != lo or te[:2] != "Rd" or to[:2] != "Rd" or len(te) != 18 or len(to) != 18:
        return False
    a, b = te[1:], to[1:]
    if _special(a) or _special(b):
        return False
    x, y = int(a[1:], 16), int(b[1:], 16)
    return (x >> 63) == (y >> 63) and abs(x - y) <= 1


def agree_parse(exp, obs, cid):
    """parseInt in a radix other than 2, 4, 8, 10, 16, 32 may approximate long digit strings (ECMA-262
    parseInt step 12): V8 does, so a finite result within 1 ulp of the table is accepted for radix 36."""
    if exp == obs:
        return True
    if not (cid.startswith("parseInt(") and cid.endswith(", 36)")):
        return False
    a, b = exp.rpartition("|")[2], obs.rpartition("|")[2]
    if a[:2] != "Rd" or b[:2] != "Rd" or len(a) != 18 or len(b) != 18:
        return False
    x, y = int(a[2:], 16), int(b[2:], 16)
    if (x >> 52) & 0x7FF == 0x7FF or (y >> 52) & 0x7FF == 0x7FF or x < (1 << 52) or y < (1 << 52):
        return False
    return (x >> 63) == (y >> 63) and abs(x - y) <= 1


def nontrivial(cid, payload, exp):
    return True if payload is None else payload.get("nt", True)


_RADIX_THEN_FRACTION = re.compile(r"^0[xXoObB][0-9a-fA-F_]+\.\d")


def agree_literal(exp, obs, cid):
    # `0x1.8` is the literal 0x1 followed by the literal .8: two expressions without a separator on one line. V8 rejects
    # that; the engine's tolerance of missing separators is a documented superset-grammar choice that is not judged (C13),
    # and every token is still read as the number it spells
    if _RADIX_THEN_FRACTION.match(cid) and exp.rpartition("|")[2] == "Esyntax":
        return True
    return agree(exp, obs, cid)


def agree_for_space(name):
    if name.startswith("c18_parse"):
        return agree_parse
    if name.startswith("c18_literal"):
        return agree_literal
    return agree_math if name.startswith("c18_math") else agree


def _space(name, cases, rule, bound):
    return Space(name, RUN, cases, oracle="table", nontrivial=nontrivial, rule=rule, bound=bound, batch=400,
                 agree=agree_for_space(name))


# ------------------------------------------------------------------------------------------ spaces

def core_spaces():
    return [
        _space("c18_print_core", lambda: print_cases(print_core_values()),
               "String(x), \"\"+x, x.toString(), JSON.stringify(x), property key of x over: sign x (every 8th binary exponent "
               "+ edges) x 6 mantissas, 10^k and neighbours (k step 4 and -8..22), 3 ulps round 1e21 1e-6 1e-7 2^53, "
               "halfway cases, NaN/Infinity/zeros; integral values also as host integers; non-trivial = not an integer "
               "of magnitude < 1000", "4.6 k doubles x 5 forms"),
        _space("c18_print_radix", radix_cases,
               "x.toString(r), r = 2..36 over 52 integers up to 2^53, NaN/Infinity/-0; larger integers in power-of-two "
               "radices; 21 dyadic fractions in even radices; 12 invalid or unusual radix arguments (RangeError)",
               "35 radices x 56 + extras"),
        _space("c18_fmt_core", lambda: fmt_cases(fmt_core_values()),
               "toFixed/toPrecision/toExponential x digits {missing, undefined, 0, 1, 2, 5, 10, 20, 21, 100, 101, -1, NaN, "
               "1.9} inside try/catch (error name observed) over specials, halfway cases, 10^k neighbours, thresholds and "
               "every 64th binary exponent x 6 mantissas", "~650 values x 3 x 14"),
        _space("c18_parse_number", lambda: parse_cases(grammar_strings(), ["Number(%s)", "+%s", "%s - 0"]),
               "ToNumber of every string of ws? sign? body exp? ws? junk? (4 x 3 x 21 x 4 x 3 x 3 menus) through Number(), "
               "unary + and - 0; non-trivial = not a plain ASCII digit string", "9 k strings x 3"),
        _space("c18_parse_float", lambda: parse_cases(grammar_strings(), ["parseFloat(%s)", "parseInt(%s)"]),
               "parseFloat(s) and parseInt(s) over the same grammar", "9 k strings x 2"),
        _space("c18_parse_int_radix", lambda: parse_cases(grammar_strings(ws1=G_WS1[:2], junk=G_JUNK[:2], ws2=G_WS2[:1]),
                                                          ["parseInt(%%s, %s)" % r for r in PARSEINT_RADIX]),
               "parseInt(s, r), r in {0, 2, 8, 10, 16, 36, 1, 37, NaN, \"16\"}, reduced whitespace/junk menus",
               "1 k strings x 10"),
        _space("c18_parse_mut", lambda: parse_cases(list(dict.fromkeys(mutations(MUT_ALPHA_CORE) + MUT_BASES)), MUT_FORMS + ["Number.parseFloat(%s)",
                                                                                                      "Number.parseInt(%s)"]),
               "all single-character deletions, insertions and replacements (alphabet ' -.e0x_') of 60 numeric strings "
               "through Number, parseFloat, parseInt, parseInt(.,16), Number.parseFloat, Number.parseInt", "5 k strings x 6"),
        _space("c18_literal", literal_cases,
               "numeric literal spellings in source: integer/fraction/exponent combinations, leading and trailing dot, "
               "hex/octal/binary with both prefix cases, member access on literals, separators, malformed spellings "
               "(SyntaxError expected)", "~500 spellings"),
        _space("c18_literal_key", literal_key_cases,
               "numeric literals as property names in object literals (data property, getter, method, next to a computed key of the same "
               "number, JSON.stringify, key order): %d hand-listed spellings + the exact decimal of every non-negative double of the core "
               "value grid x %d forms" % (len(KEY_SPELLINGS), len(KEY_FORMS)), "~2.4 k spellings x 6"),
        _space("c18_parse_long", lambda: parse_cases(LONG_STRINGS, LONG_FORMS),
               "%d numeric strings of 300..5000 characters (zero-padded, digit runs across 308/309, 400/401 and 4300/4301 characters, long "
               "fractions, long hex/binary/octal, padded exponents, long whitespace) x %d conversion sites" % (len(LONG_STRINGS), len(LONG_FORMS)),
               "%d x %d" % (len(LONG_STRINGS), len(LONG_FORMS))),
        _space("c18_parse_values", value_parse_cases,
               "parseInt / parseFloat / Number applied to number VALUES (not strings) over the core value grid, with and without radix, "
               "wrapped in arrays and objects, negated; -0 results distinguished", "4.6 k doubles x %d" % len(VALUE_FORMS)),
        _space("c18_math", math_cases,
               "28 Math functions x 63 special values (also as host integers, missing and non-number arguments); arity-2 "
               "functions x all pairs of 20 values; constants of Math and Number; typeof of every ES2015 Math function. "
               "Exact at NaN/zeros/infinities/integers and for the exactly specified functions, else within 1 ulp",
               "28 x ~100 + 6 x 400"),
    ]


def thorough_strata():
    st = []
    for j in range(1, 8):
        st.append(_space("c18_print_exp%d" % j,
                         lambda j=j: print_cases(grid_values(range(j, 2047, 8))),
                         "printing forms over every binary exponent = %d (mod 8) x 6 mantissas x sign" % j, "256 x 12 x 5"))
    st.append(_space("c18_print_pow10",
                     lambda: print_cases(uniq(pow10_values([k for k in range(-324, 309) if k not in set(POW10_CORE)]))),
                     "printing forms over 10^k and both neighbours for the remaining k in -324..308", "~440 x 3 x 5"))
    for j in range(4):
        st.append(_space("c18_fmt_grid%d" % j, lambda j=j: fmt_cases(fmt_stratum_values(j)),
                         "toFixed/toPrecision/toExponential x 14 digit arguments, stratum %d of the dense value grid" % j,
                         "~1.1 k values x 42"))
    for r in PARSEINT_RADIX:
        nm = "".join(ch for ch in r if ch.isalnum())
        st.append(_space("c18_parse_int_r%s" % ("s16" if r.startswith('"') else nm),
                         lambda r=r: parse_cases(grammar_strings(), ["parseInt(%%s, %s)" % r]),
                         "parseInt(s, %s) over the full string grammar" % r, "9 k strings"))
    st.append(_space("c18_parse_mut_wide", lambda: parse_cases(mutations(MUT_ALPHA_WIDE, deletions=False), MUT_FORMS),
                     "single-character insertions and replacements with the wider alphabet '+9aI<nbsp>Ebn<lf>f<ls><nul>'",
                     "9 k strings x 4"))
    return st


def spaces(tier, seed, all_strata=False):
    core = core_spaces()
    strata = thorough_strata()
    if tier == "thorough" or all_strata:
        return core + strata
    return core + [strata[seed % len(strata)]]


# ------------------------------------------------------------------------------------------ triage

def _num_class(text):
    if text.startswith("int:"):
        return "host-integer " + _num_class(text[4:])
    try:
        v = float(text)
    except ValueError:
        return "?"
    if v != v:
        return "NaN"
    if abs(v) == INF:
        return "Infinity"
    if v == 0:
        return "-0" if text.startswith("-") else "0"
    a = abs(v)
    if a >= 1e21:
        return "|x| >= 1e21"
    if a < 1e-6:
        return "|x| < 1e-6"
    if a == int(a):
        return "integer > 2^53" if a > 9007199254740992.0 else "integer"
    return "fraction"


def _str_kind(exp, obs):
    te, to = tail(exp), tail(obs)
    if te.startswith('Rs"throw:') and to.startswith('Rs"throw:'):
        return "throws %s where %s is specified" % (to[9:-1], te[9:-1])
    if te.startswith('Rs"throw:'):
        return "returns a value where %s is specified" % te[9:-1]
    if to.startswith('Rs"throw:'):
        return "throws %s where a value is specified" % to[9:-1]
    if te.startswith("Rs") and to.startswith("Rs"):
        return "wrong text"
    return mismatch_kind(exp, obs)


def signature(sp, cid, payload, exp, obs):
    src = payload["src"] if isinstance(payload, dict) else cid
    name = sp.name
    if name.startswith("c18_print_radix"):
        x = payload["globals"]["x"]
        arg = src[src.index("toString(") + 9:src.index(")", src.index("toString("))]
        cls = _num_class(("int:%d" % x) if isinstance(x, int) else x)
        if not arg.isdigit() or not 2 <= int(arg) <= 36:
            what = "unusual radix argument"
        elif cls in ("NaN", "Infinity", "-0"):
            what = cls
        else:
            what = cls
        k = _str_kind(exp, obs)
        return "radix|%s|%s" % (what, k), "x.toString(radix), %s: %s" % (what, k)
    if name.startswith("c18_print"):
        form = {"String(x)": "String(x)", '"" + x': '"" + x', "x.toString()": "x.toString()",
                "JSON.stringify(x)": "JSON.stringify(x)"}.get(src, "number as property key")
        x = payload["globals"]["x"]
        cls = _num_class(("int:%d" % x) if isinstance(x, int) else x)
        k = _str_kind(exp, obs)
        return "print|%s|%s|%s" % (form, cls, k), "%s for %s: %s" % (form, cls, k)
    if name.startswith("c18_fmt"):
        m = [f for f in FMT_METHODS if "." + f + "(" in src][0]
        arg = src[src.index(m + "(") + len(m) + 1:src.index(")", src.index(m + "("))]
        x = payload["globals"]["x"]
        cls = _num_class(("int:%d" % x) if isinstance(x, int) else x)
        if cls not in ("NaN", "Infinity"):
            cls = "finite"
        if arg in ("", "undefined"):
            ac = "digits missing/undefined"
        elif arg in ("101", "-1"):
            ac = "digits out of range"
        elif arg in ("NaN", "1.9"):
            ac = "digits " + arg
        elif arg in ("0",) and m == "toPrecision":
            ac = "digits out of range"
        else:
            ac = "digits in range"
        k = _str_kind(exp, obs)
        return "fmt|%s|%s|%s|%s" % (m, ac, cls, k), "%s, %s, %s x: %s" % (m, ac, cls, k)
    if name.startswith("c18_parse"):
        fn = "?"
        for f in ("Number.parseFloat", "Number.parseInt", "parseFloat", "parseInt", "Number"):
            if src.startswith(f + "("):
                fn = f
                break
        else:
            fn = "unary +" if src.startswith("+") else "- 0"
        if fn.endswith("parseInt"):
            if src.endswith('"16")'):
                r = '"16"'
            else:
                r = src[src.rfind('"') + 1:].strip(",) ")
            fn += {"": "(s)", "0": "(s, 0)", "NaN": "(s, NaN)", "1": "(s, radix outside 2..36)",
                   "37": "(s, radix outside 2..36)"}.get(r, "(s, explicit radix)")
        k = mismatch_kind(exp, obs)
        if k == "wrong type (I for d)":
            k = "host integer that is not a double"
        return "parse|%s|%s" % (fn, k), "%s on a numeric string: %s" % (fn, k)
    if name.startswith("c18_literal"):
        k = mismatch_kind(exp, obs)
        return "literal|%s" % k, "numeric literal in source: %s" % k
    if name.startswith("c18_math"):
        if src.startswith("typeof"):
            return "math|surface", "Math function of ES2015 is not installed"
        if src.startswith("Number."):
            return "number|constant", "value property of the Number constructor is missing"
        fn = _math_fn(src) or src
        k = mismatch_kind(exp, obs)
        if k == "wrong number":
            te, to = tail(exp), tail(obs)
            if fn not in MATH_EXACT and not _special(te[1:]) and not _special(to[1:]):
                k = "more than 1 ulp from V8"
        return "math|%s|%s" % (fn, k), "Math.%s: %s" % (fn, k)
    return "other|" + mismatch_kind(exp, obs), mismatch_kind(exp, obs)


def node_src(cid, payload):
    if isinstance(payload, dict) and payload.get("globals"):
        decl = "".join("var %s = (%s); " % (k, v) for k, v in sorted(payload["globals"].items()))
        return decl + payload["src"]
    return payload["src"] if isinstance(payload, dict) else cid
