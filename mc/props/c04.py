"""C04  eval fails only with JSError: positioned JSSyntaxError or a runtime JSError.

E1: (a) every string over a 22-character soup alphabet up to length 4, (b) every sequence of up to 3
tokens over one representative per token class, (c) every prefix of every corpus program, (d) every
single-token deletion / duplication / adjacent swap / bracket substitution of the small corpus programs,
(e) every built-in function/method/constructor the engine answers for 14 receiver kinds x every argument
vector of length 0..2 over a 16-value adversarial grid. Oracle: the outcome is a value or an instance of
the JSError family; a JSSyntaxError carries a position inside the text (or at its end) that shifts by
exactly k when k newlines / k spaces are put in front. No reference semantics is needed.
"""
import glob
import itertools
import json
import os

from mc.core.runner import Space

PROP = "C04"
LEVEL = "exploration"
ASSUMPTIONS = [
    "bracket/operator nesting depth of generated inputs stays far below the documented parser recursion limit (30)",
    "the built-in surface is discovered by asking the engine `typeof receiver[name] === 'function'` for a fixed list of "
    "~330 candidate names (ECMAScript built-in method names); a built-in with a name outside that list is not probed",
]
SOUP = list("a1\"'/*\\\n()[]{};,.=+<?:")
TOKENS = ["a", "1", "1.5", "\"s\"", "'t'", "/r/", "(", ")", "[", "]", "{", "}", ";", ",", ".", "=", "==", "===", "+", "++", "-",
          "*", "**", "/", "%", "<", "<<", ">>>", "&", "&&", "||", "!", "~", "?", ":", "=>", "var", "function", "return", "if",
          "else", "for", "while", "do", "break", "continue", "switch", "case", "default", "try", "catch", "finally", "throw",
          "new", "delete", "typeof", "void", "in", "instanceof", "this", "null", "true", "+=", "\n", "/*", "*/", "//", "`", "\\", "#", "@"]
TOKENS_CORE = TOKENS[:38]
REPO = os.environ.get("VERIF_REPO", "/repo")


def _engine():
    from mc.props.common import engine
    return engine()


def classify(e, src, tl=20):
    """-> (class, line, column) ; class in value/throw/syntax/time/memory/host:<T>"""
    e.CLOCK.reset("poll")
    ctx = e.Context(time_limit=tl, memory_limit=5 * 10 ** 6)
    try:
        ctx.eval(src)
        return "value", None, None
    except e._errors.JSSyntaxError as ex:
        return "syntax", getattr(ex, "line", None), getattr(ex, "column", None)
    except e._errors.TimeLimitError:
        return "time", None, None
    except e._errors.MemoryLimitError:
        return "memory", None, None
    except e._errors.JSError:
        return "throw", None, None
    except RecursionError:
        return "host:RecursionError", None, None
    except MemoryError:
        return "host:MemoryError", None, None
    except Exception as ex:  # noqa: BLE001
        return "host:" + type(ex).__name__, None, None


def check_source(e, src, positions=True):
    """-> 'ok' or a description of the violation for this source text."""
    cls, line, col = classify(e, src)
    if cls.startswith("host"):
        return cls
    if cls != "syntax" or not positions:
        return "ok"
    lines = src.split("\n")
    if not isinstance(line, int) or not isinstance(col, int):
        return "syntax error without a numeric position (%r, %r)" % (line, col)
    if line == 0 and col == 0:
        return "ok"      # position not reported (documented form without a location)
    if line < 1 or line > len(lines) + 1:
        return "syntax error line %d outside the text (%d lines)" % (line, len(lines))
    if line <= len(lines) and (col < 0 or col > len(lines[line - 1]) + 1):
        return "syntax error column %d outside line %d (length %d)" % (col, line, len(lines[line - 1]))
    # shift invariance: k leading newlines move the report down by k; k leading spaces move a line-1 report right by k
    for k in (1, 7):
        c2, l2, co2 = classify(e, "\n" * k + src)
        if c2 != "syntax" or l2 != line + k or co2 != col:
            return "syntax position not shifted by %d leading newlines: (%s,%s) -> %s (%s,%s)" % (k, line, col, c2, l2, co2)
        if line == 1:
            c3, l3, co3 = classify(e, " " * k + src)
            if c3 != "syntax" or l3 != line or co3 != col + k:
                return "syntax position not shifted by %d leading spaces: (%s,%s) -> %s (%s,%s)" % (k, line, col, c3, l3, co3)
    return "ok"


def run_sources(payload):
    e = _engine()
    if "prefix" in payload:
        srcs = (payload["prefix"] + "".join(t) for t in itertools.product(payload["alphabet"], repeat=payload["tails"]))
    elif "file" in payload:
        text = open(os.path.join(REPO, payload["file"]), encoding="utf-8").read()
        srcs = _derive(text, payload["how"], payload.get("part"))
    else:
        srcs = payload["sources"]
    bad = []
    n = 0
    pos = payload.get("positions", True)
    for s in srcs:
        n += 1
        v = check_source(e, s, pos and n % payload.get("pos_every", 1) == 0)
        if v != "ok":
            bad.append("%r: %s" % (s if len(s) < 60 else s[:25] + "..." + s[-25:], v))
            if len(bad) >= 30:
                break
    return ("ok" if not bad else "; ".join(bad)) + "\x00ok"


def _toks(text):
    """A crude, engine-independent tokenisation good enough to derive mutations (never used as an oracle)."""
    import re
    return re.findall(r"\s+|[A-Za-z_$][\w$]*|\d+\.?\d*(?:[eE][+-]?\d+)?|\"(?:[^\"\\\n]|\\.)*\"|'(?:[^'\\\n]|\\.)*'|"
                      r"//[^\n]*|/\*.*?\*/|>>>=|===|!==|>>>|<<=|>>=|\*\*=|=>|==|!=|<=|>=|&&|\|\||\+\+|--|\+=|-=|\*=|/=|%=|&=|\|=|\^=|"
                      r"<<|>>|\*\*|.", text, re.S)


def _derive(text, how, part=None):
    if how == "prefix":
        step = 1 if len(text) < 4000 else max(1, len(text) // 4000)
        for i in range(0, len(text) + 1, step):
            if part is None or i % part[1] == part[0]:
                yield text[:i]
        return
    toks = _toks(text)
    idx = [i for i, t in enumerate(toks) if not t.isspace()]
    SUB = {"(": "[", ")": "]", "[": "{", "]": "}", "{": "(", "}": ")"}
    for n, i in enumerate(idx):
        if part is not None and n % part[1] != part[0]:
            continue
        if how == "delete":
            yield "".join(toks[:i] + toks[i + 1:])
        elif how == "dup":
            yield "".join(toks[:i + 1] + [" "] + toks[i:])
        elif how == "swap":
            if n + 1 < len(idx):
                j = idx[n + 1]
                t2 = list(toks)
                t2[i], t2[j] = t2[j], t2[i]
                yield "".join(t2)
        elif how == "bracket":
            if toks[i] in SUB:
                yield "".join(toks[:i] + [SUB[toks[i]]] + toks[i + 1:])


def corpus_files(max_bytes=None):
    out = []
    for p in sorted(glob.glob(os.path.join(REPO, "tests", "**", "*.js"), recursive=True)):
        sz = os.path.getsize(p)
        if max_bytes is None or sz <= max_bytes:
            out.append((os.path.relpath(p, REPO), sz))
    return out


# ------------------------------------------------------------------ built-ins
CANDIDATES = """toString valueOf toLocaleString hasOwnProperty isPrototypeOf propertyIsEnumerable constructor
charAt charCodeAt codePointAt indexOf lastIndexOf includes startsWith endsWith substring substr slice split concat
repeat trim trimStart trimEnd trimLeft trimRight padStart padEnd toLowerCase toUpperCase match matchAll search replace replaceAll
localeCompare normalize at anchor big bold fixed link small strike sub sup
push pop shift unshift splice reverse sort join forEach map filter reduce reduceRight some every find findIndex findLast
findLastIndex fill flat flatMap keys values entries copyWithin indexOf includes isArray of from
toFixed toPrecision toExponential isInteger isFinite isNaN isSafeInteger parseFloat parseInt
abs acos acosh asin asinh atan atan2 atanh cbrt ceil clz32 cos cosh exp expm1 floor fround hypot imul log log10 log1p log2
max min pow random round sign sin sinh sqrt tan tanh trunc
parse stringify assign create defineProperty defineProperties freeze isFrozen seal isSealed preventExtensions isExtensible
getPrototypeOf setPrototypeOf getOwnPropertyNames getOwnPropertyDescriptor getOwnPropertyDescriptors getOwnPropertySymbols
fromEntries is call apply bind test exec compile set subarray get now UTC fromCharCode fromCodePoint raw
log error warn info debug captureStackTrace isView""".split()
RECEIVERS = {
    "string": '"abc"', "number": "(42.5)", "integer": "(7)", "boolean": "true", "array": "[3, 1, 2]", "object": "({a: 1})",
    "function": "(function (a, b) { return a })", "arrow": "(() => 1)", "regexp": "/a(b)?/g", "error": "(new Error('m'))",
    "empty-string": '""', "odd-string": '"a\\u0130\\u00df\\ud83d 1"', "empty-array": "[]", "nested-array": "[[1], [2, [3]]]",
    "empty-typedarray": "(new Float64Array(0))", "sticky-regexp": "/a*/y", "icase-regexp": "/\\w+|\\u0130/gi",
    "unicode-regexp": "/a|\\ud83d\\ude00|(?:)/gu", "unicode-sticky-regexp": "/\\ud83d\\ude00*/yu", "lookbehind-regexp": "/(?<=a)b|\\bc|^d/gm",
    "astral-string": '"a\\ud83d\\ude00b\\ud83d"', "mutable-object": "M", "object-with-mutating-toJSON": "MT",
    "typedarray": "(new Uint8Array([1, 2, 3]))", "arraybuffer": "(new ArrayBuffer(8))", "arguments": "(function () { return arguments })(1, 2)",
    "Math": "Math", "JSON": "JSON", "Object": "Object", "Array": "Array", "Number": "Number", "String": "String", "Boolean": "Boolean",
    "RegExp": "RegExp", "Error": "Error", "Function": "Function", "console": "console", "Date": "Date", "Uint8Array": "Uint8Array",
    "Float64Array": "Float64Array", "ArrayBuffer": "ArrayBuffer",
}
GLOBAL_FUNCS = ["parseInt", "parseFloat", "isNaN", "isFinite", "eval", "Object", "Array", "Number", "String", "Boolean", "RegExp",
                "Error", "TypeError", "RangeError", "SyntaxError", "ReferenceError", "Function", "Uint8Array", "Int8Array",
                "Uint8ClampedArray", "Int16Array", "Uint16Array", "Int32Array", "Uint32Array", "Float32Array", "Float64Array",
                "ArrayBuffer", "encodeURIComponent", "decodeURIComponent", "encodeURI", "decodeURI", "escape", "unescape"]
ARGS = ["undefined", "null", "NaN", "Infinity", "-Infinity", "-1", "-0", "2147483648", "9007199254740992", "1e21", "0.5",
        '"12"', '"x"', "({})", "[]", "(function () { return 1 })",
        # callbacks that change the receiver while the built-in is running
        '(function () { if (typeof r == "object" && r && r.pop) { r.pop(); r.pop() } return -1 })',
        '(function () { if (typeof r == "object" && r && r.push) r.push(0); return 1 })',
        # an object that script callbacks change while a built-in walks it, and callbacks that change it
        "M", "MT", '(function (k, v) { delete M.b; delete M.d; M.z = 1; if (typeof r == "object" && r && !r.push) { delete r.a; delete r.b } return v })',
        '"a\\ud83d\\ude00b\\ud83d"', "100000", "4294967295"]
PRELUDE_API = ("var M = {a: 1, b: {c: 2}, d: [1, 2], e: 5}, MT = {a: {toJSON: function () { delete MT.b; delete MT.c; return 1 }}, b: 2, c: {d: 3}}; ")


def _vectors(maxlen):
    out = [""]
    for n in range(1, maxlen + 1):
        for combo in itertools.product(ARGS, repeat=n):
            out.append(", ".join(combo))
    return out


def run_api(payload):
    """All argument vectors for one (receiver, method) / constructor; each call in its own eval."""
    e = _engine()
    recv, name, kind = payload["recv"], payload["name"], payload["kind"]
    e.CLOCK.reset("poll")
    probe = e.Context(time_limit=50)
    if kind == "method":
        try:
            present = probe.eval(PRELUDE_API + "typeof %s[%r] === 'function'" % (RECEIVERS[recv], name))
        except Exception:  # noqa: BLE001
            present = False
        if not present:
            return "absent\x00absent"
        forms = [PRELUDE_API + "var r = %s; r.%s({A})" % (RECEIVERS[recv], name)]
        if recv in ("Object", "Array", "Number", "String", "RegExp", "Error", "Function", "Uint8Array", "Float64Array", "ArrayBuffer", "Boolean"):
            forms.append(PRELUDE_API + "new %s.%s({A})" % (recv, name))
    else:
        try:
            present = probe.eval("typeof %s === 'function'" % name)
        except Exception:  # noqa: BLE001
            present = False
        if not present:
            return "absent\x00absent"
        forms = [PRELUDE_API + "%s({A})" % name, PRELUDE_API + "new %s({A})" % name]
    bad = []
    for form in forms:
        for vec in payload["vectors"]:
            src = form.replace("{A}", vec)
            cls, _, _ = classify(e, src, tl=30)
            if cls.startswith("host"):
                bad.append("%s: %s" % (src[-90:], cls))
                if len(bad) >= 25:
                    break
    return ("ok" if not bad else "; ".join(bad)) + "\x00ok"


SPECIAL_PROPS = {"regexp": ["lastIndex", "source", "flags", "global"], "unicode-regexp": ["lastIndex"], "unicode-sticky-regexp": ["lastIndex"],
                 "sticky-regexp": ["lastIndex"], "lookbehind-regexp": ["lastIndex"], "icase-regexp": ["lastIndex"], "array": ["length", "0", "5"], "typedarray": ["0", "length", "7"],
                 "object": ["a", "__proto__", "toString", "valueOf"], "function": ["prototype", "length", "name"],
                 "error": ["message", "name", "stack"], "string": ["length", "0"], "arguments": ["length", "0"]}


def run_assign_call(payload):
    """`r.prop = V` followed by every method the receiver answers (no arguments, and one benign argument)."""
    e = _engine()
    recv, prop = payload["recv"], payload["prop"]
    e.CLOCK.reset("poll")
    probe = e.Context(time_limit=50)
    methods = []
    for name in CANDIDATES:
        try:
            if probe.eval(PRELUDE_API + "typeof %s[%r] === 'function'" % (RECEIVERS[recv], name)):
                methods.append(name)
        except Exception:  # noqa: BLE001
            pass
    bad = []
    acc = "[%s]" % prop if prop.isdigit() else "." + prop
    for val in ARGS:
        for m in methods:
            for call in ("r.%s()" % m, "r.%s('aXb')" % m, "r.%s('a\\ud83d\\ude00b')" % m if recv.endswith("regexp") else None):
                if call is None:
                    continue
                src = PRELUDE_API + "var r = %s; try { r%s = %s } catch (e) { } %s" % (RECEIVERS[recv], acc, val, call)
                cls, _, _ = classify(e, src, tl=30)
                if cls.startswith("host"):
                    bad.append("%s: %s" % (src[-80:], cls))
        if recv.endswith("regexp"):
            for call in ("'aXb'.replace(r, 'y')", "'aXb'.match(r)", "'aXb'.split(r)", "'aXb'.search(r)", "'aXb'.replaceAll(r, 'y')"):
                rx = ("/X/" + payload.get("flags", "g")) if recv == "regexp" else RECEIVERS[recv]
                src = PRELUDE_API + "var r = %s; r%s = %s; %s; %s" % (rx, acc, val, call, call.replace("'aXb'", "'a\\ud83d\\ude00b\\ud83d'"))
                cls, _, _ = classify(e, src, tl=30)
                if cls.startswith("host"):
                    bad.append("%s: %s" % (src[-80:], cls))
        if len(bad) >= 25:
            break
    return ("ok" if not bad else "; ".join(bad[:25])) + "\x00ok"


# an earlier step that leaves and re-enters the interpreter (nested eval, Function, a built-in that calls back, an error that is
# caught), then a built-in that needs the running interpreter again: the later step gives what it gives on its own
EARLIER = [
    ("nothing", ""), ("eval", "eval('1 + 1');"), ("eval-caught-runtime-error", "try { eval('null.x') } catch (e0) { }"),
    ("eval-caught-syntax-error", "try { eval('(') } catch (e0) { }"), ("eval-in-helper", "(function (s) { return eval(s) })('2 * 3');"),
    ("eval-in-eval", "eval('eval(\\'1\\') + 1');"), ("eval-defines-function", "eval('function viaEval(x) { return x + 1 }'); viaEval(1);"),
    ("eval-throws-through-callback", "try { [1].forEach(function () { eval('throw 1') }) } catch (e0) { }"),
    ("Function", "new Function('a', 'return a + 1')(1);"), ("Function-caught", "try { new Function('return (')() } catch (e0) { }"),
    ("Function-calls-eval", "new Function('return eval(\\'7\\')')();"), ("callback-built-in", "[3, 1, 2].sort(function (a, b) { return a - b });"),
    ("callback-throws", "try { [1].map(function () { throw new Error('x') }) } catch (e0) { }"),
    ("replace-callback", "'ab'.replace(/a/, function (m) { return eval('1 + 1') });"), ("getter-runs-eval", "({get g() { return eval('5') }}).g;"),
    ("toString-runs-eval", "'' + {toString: function () { return eval('\\'s\\'') }};"), ("regex-in-eval", "eval('/a+/.test(\\'caat\\')');"),
    ("json-replacer", "JSON.stringify({a: 1}, function (k, v) { return v });"),
    ("eval-then-throw-caught", "try { eval('1'); throw new RangeError('after') } catch (e0) { }"),
]
LATER = [
    "JSON.stringify({a: 1, b: [2, {c: 3}]}, function (k, v) { return typeof v === 'number' ? v + 1 : v })",
    "JSON.stringify({toJSON: function () { return {t: 1} }})", "JSON.stringify({get g() { return 4 }})",
    "JSON.parse('{\"a\":[1,2]}', function (k, v) { return typeof v === 'number' ? v * 2 : v }).a.join()",
    "Object.keys({get g() { return 1 }, b: 2}).join()", "Object.values({get g() { return 1 }, b: 2}).join()",
    "Object.entries({get g() { return 1 }}).join()", "Object.assign({}, {get g() { return 8 }}).g", "Object.assign({set s(v) { this.got = v }}, {s: 3}).got",
    "Object.defineProperty({}, 'p', {get: function () { return 6 }}).p", "Object.create({}, {p: {get: function () { return 7 }}}).p",
    "Object.getOwnPropertyDescriptor({get g() { return 1 }}, 'g').get()", "String({toString: function () { return 'ts' }})",
    "'' + {valueOf: function () { return 3 }}", "[{toString: function () { return 'e' }}, 1].join()", "String(new Error('m'))",
    "'' + (function () { var e = new Error('m'); Object.defineProperty(e, 'name', {get: function () { return 'Got' }}); return e })()",
    "[3, 1, 2].sort(function (a, b) { return a - b }).join()", "[1, 2].map(function (x) { return x * 2 }).join()", "[1, 2].filter(function (x) { return x > 1 }).join()",
    "[1, 2].reduce(function (a, b) { return a + b })", "[1, 2].some(function (x) { return x > 1 })", "[1, 2].find(function (x) { return x > 1 })",
    "var fe = []; [1, 2].forEach(function (x) { fe.push(x) }); fe.join()", "'abab'.replace(/a/g, function (m, i) { return i })",
    "'abab'.replaceAll('a', function (m) { return m + m })", "'a-b'.split({toString: function () { return '-' }}).join()",
    "'abc'.indexOf({toString: function () { return 'c' }})", "new RegExp({toString: function () { return 'a+' }}).source",
    "/a/.test({toString: function () { return 'cat' }})", "parseInt({toString: function () { return '42' }})", "Number({valueOf: function () { return 7 }})",
    "Math.max({valueOf: function () { return 5 }}, 1)", "isNaN({valueOf: function () { return NaN }})", "new Array({valueOf: function () { return 2 }}).length",
    "new Uint8Array({length: 1, get 0() { return 9 }})[0]", "new Uint8Array([{valueOf: function () { return 3 }}])[0]",
    "(function (a, b) { return a + b }).apply(null, {length: 2, get 0() { return 1 }, 1: 2})", "(function () { return this.v }).call({get v() { return 'cv' }})",
    "(function (a) { return a }).bind(null, 1)()", "encodeURIComponent({toString: function () { return 'a b' }})", "eval('[1].map(function (x) { return x + 1 })[0]')",
    "new Function('f', 'return f(2)')(function (x) { return x * 3 })", "({}).hasOwnProperty.call({get g() { return 1 }}, 'g')",
    "var o = {}; o[{toString: function () { return 'k' }}] = 1; Object.keys(o)[0]", "[1, [2, [3]]].toString()", "JSON.stringify([new Number(1), 'x'.concat({toString: function () { return 'y' }})])",
    "try { null.x } catch (e1) { String(e1).slice(0, 9) }", "try { [1].forEach(function () { throw 5 }) } catch (e1) { e1 }",
]


def run_sequences(payload):
    e = _engine()
    bad = []
    later = payload["later"]
    base = e.run_program(later, tl=500)
    if base.rpartition("|")[2].startswith("Ehost"):
        bad.append("alone: " + base[-60:])
    for name, earlier in EARLIER:
        for sep in (" ", " void 0; "):
            oc = e.run_program(earlier + sep + later, tl=500)
            if oc != base:
                bad.append("after %s: %s instead of %s" % (name, oc[-70:], base[-70:]))
                break
    # ... and across two evaluations of one context
    for name, earlier in EARLIER[1:]:
        oc2 = e.run_program("(0, eval)(%s)" % json.dumps(earlier or "0") + "; " + later, tl=500)
        if oc2 != base:
            bad.append("after eval of the text of %s: %s instead of %s" % (name, oc2[-70:], base[-70:]))
    return ("ok" if not bad else "; ".join(bad[:4])) + "\x00ok"


def _sequence_cases():
    return [("every earlier step, then: " + l[:90], {"later": l}) for l in LATER]


def _assign_cases():
    out = []
    for recv, props in SPECIAL_PROPS.items():
        for prop in props:
            for flags in (("g", "y", "") if recv == "regexp" else ("",)):
                out.append(("%s%s: assign every grid value to %s, then call every method" % (recv, "/" + flags if recv == "regexp" else "", prop),
                            {"recv": recv, "prop": prop, "flags": flags}))
    return out


def _api_cases(maxlen):
    vecs = _vectors(maxlen)
    out = []
    for recv in RECEIVERS:
        for name in CANDIDATES:
            out.append(("%s.%s with every argument vector of length <= %d" % (recv, name, maxlen),
                        {"recv": recv, "name": name, "kind": "method", "vectors": vecs}))
    for name in GLOBAL_FUNCS:
        out.append(("%s(...) and new %s(...) with every argument vector of length <= %d" % (name, name, maxlen),
                    {"recv": None, "name": name, "kind": "global", "vectors": vecs}))
    return out


# ------------------------------------------------------------------ spaces
def _soup_bundles(total, tail):
    out = []
    for pre in itertools.product(SOUP, repeat=total - tail):
        p = "".join(pre)
        out.append(("all %d-character soups starting with %r" % (total, p), {"prefix": p, "alphabet": SOUP, "tails": tail}))
    return out


def _token_bundles(toks, total, tail):
    out = []
    sp = [t + " " for t in toks]
    for pre in itertools.product(sp, repeat=total - tail):
        p = "".join(pre)
        out.append(("all %d-token sequences starting with %r" % (total, p), {"prefix": p, "alphabet": sp, "tails": tail, "pos_every": 3}))
    return out


def _file_cases(how, max_bytes, parts=1):
    out = []
    for f, sz in corpus_files(max_bytes):
        for k in range(parts):
            out.append(("%s of %s (%d bytes)%s" % (how, f, sz, "" if parts == 1 else " part %d/%d" % (k + 1, parts)),
                        {"file": f, "how": how, "part": None if parts == 1 else (k, parts), "pos_every": 5}))
    return out


UNI = ["\u0661", "\u0969", "\uff11", "\u00e9", "\u03c0", "\u0301", "\u200b", "\u200c", "\u200d", "\u2028", "\u2029", "\ufeff", "\u00a0",
       "\u3000", "\u2003", "\ud800", "\udfff", "\U0001F600", "\U0001D7D8", "\u0000", "\u0008", "\u007f", "\u0085", "\u180e", "\u2160",
       "\u00b2", "\u00bd", "\u212a", "\u0131", "\u00df", "\ufb01", "\u1e9e", "\u0307"]
UNI_CTX = ["%s", "1%s", "%s1", "a%s", "%sa", ".%s", "1.%s", "1e%s", "0x%s", "'%s'", "\"\\%s\"", "/%s/", "/[%s-z]/", "/a/%s", "a.%s", "var %s = 1", "a = %s",
           "%s:1", "({%s: 1})", "// %s\n1", "/* %s */1", "1 %s 2", "'a'.padEnd(3, '%s')", "'%sa'.toUpperCase()", "parseInt('%s')", "Number('1%s')",
           "'a%sb'.split('%s')", "'%s'.charCodeAt(0)", "JSON.parse('\"%s\"')", "new RegExp('%s')", "x%s = 2", "%s%s", "`%s`"]


def _unicode_sources():
    out = []
    for ctx in UNI_CTX:
        srcs = [ctx.replace("%s", u) for u in UNI]
        out.append(("non-ASCII characters in context %r" % ctx, {"sources": srcs, "pos_every": 1}))
    return out


def _long_sources():
    out = []
    for n in (15, 16, 17, 21, 22, 308, 309, 310, 400, 401, 1000, 4299, 4300, 4301, 5000, 20000):
        out += ["1" * n, "9" * n + ".5", "0." + "0" * n + "1", "1e" + "9" * min(n, 400), "0x" + "f" * n, "0b" + "1" * n, "0o" + "7" * n,
                'Number("' + "9" * n + '")', 'Number("0x' + "f" * n + '")', '+"' + "1" * n + 'e-' + str(n) + '"', 'parseInt("' + "z" * n + '", 36)',
                'parseFloat("' + "1" * n + '")', '"' + "a" * n + '".length', "var " + "v" * n + " = 1; " + "v" * n,
                '"\\u{' + "F" * min(n, 64) + '}"', '"\\u{' + "0" * min(n, 64) + '41}"', "/" + "a" * n + "/.test('a')", "/* " + "c" * n + " */ 1",
                "// " + "c" * n + "\n1", "1" + " " * n + "+ 1", "(5)." + "toString()." * 0 + "toFixed(" + str(n) + ")", "(1.5).toString(" + str(n) + ")",
                '"ab".repeat(' + str(n) + ').length', "new Array(" + str(n) + ").length", "[].concat(" + ",".join(["1"] * min(n, 300)) + ").length"]
    for n in (10, 100, 200, 500, 1000, 3000):
        out += ["-" * 0 + "- " * n + "1", "!" * n + "1", "typeof " * n + "1", "a" + ".b" * n, "x = " * 0 + "a" + "[0]" * n, "1" + " + 1" * n,
                "1" + " ? 1 : 1" * min(n, 500), "f" + "()" * n, "new " * min(n, 500) + "F", "[" * min(n, 1000) + "]" * min(n, 1000),
                "(" * min(n, 1000) + "1" + ")" * min(n, 1000), "{" * min(n, 1000) + "}" * min(n, 1000), "a = " * n + "1",
                "var o = " + "{a: " * min(n, 500) + "1" + "}" * min(n, 500), "if (1) " * n + "2", "for (;;) " * 0 + "x: " * min(n, 300) + "1"]
    # counts around the one-byte operand limit of the instruction format (the property asks for JSError or a value there too)
    for n in (254, 255, 256, 257, 258, 511, 512, 513):
        m = n
        out += ["[" + ", ".join(["1"] * m) + "].length", "f(" + ", ".join(["1"] * m) + ")", "new F(" + ", ".join(["1"] * m) + ")",
                "(function (" + ", ".join("p%d" % i for i in range(m)) + ") { return p0 })(1)",
                "(function () { var " + ", ".join("v%d = %d" % (i, i) for i in range(m)) + "; return v%d })()" % (m - 1),
                "({" + ", ".join("k%d: 1" % i for i in range(m)) + "}).k0", "var s = 0; " + "".join("s += %d; " % (1000 + i) for i in range(min(m, 600))) + "s",
                "var " + ", ".join("g%d = %d" % (i, i) for i in range(min(m, 600))) + "; g0", "Math.max(" + ", ".join(["1"] * min(m, 600)) + ")",
                "[" + ", ".join('"s%d"' % i for i in range(min(m, 600))) + "].length"]
    k = (len(out) + 7) // 8
    return [("oversized tokens, long chains and counts around the operand limit, part %d" % i, {"sources": out[i * k:(i + 1) * k], "positions": False})
            for i in range(8)]


def _sp(name, runner, fn, rule, bound, batch=1, watchdog=600):
    return Space(name, "mc.props.c04:" + runner, fn, oracle="inline", rule=rule, bound=bound, batch=batch, watchdog=watchdog,
                 nontrivial=lambda cid, p, exp: exp != "absent")


def _seq_space():
    return _sp("c04_sequences", "run_sequences", _sequence_cases,
               "%d earlier steps that leave and re-enter the interpreter (nested eval - plain, caught runtime / syntax error, in a helper, in eval, "
               "through a callback - Function, callbacks of built-ins, getters and toString that run eval, built-ins with a replacer), each "
               "followed by one of %d built-in calls that need the running interpreter (replacer / reviver / toJSON / getters seen by "
               "Object.*, conversions through valueOf / toString at every built-in, callbacks, apply / call / bind, typed-array sources): "
               "the later call gives exactly what it gives on its own, never a host exception" % (len(EARLIER), len(LATER)),
               "%d x %d x 3" % (len(EARLIER), len(LATER)), batch=2)


def spaces(tier, seed, all_strata=False):
    core = [
        _sp("c04_soup3", "run_sources", lambda: _soup_bundles(3, 2) + [("soups of length <= 2", {"sources": [""] + ["".join(t) for n in (1, 2) for t in itertools.product(SOUP, repeat=n)]})],
            "every string over the 22-character soup alphabet (a 1 \" ' / * \\ newline ( ) [ ] { } ; , . = + < ? :) up to length 3: "
            "value or JSError; syntax positions inside the text and shift-invariant under leading newlines/spaces", "length <= 3"),
        _sp("c04_soup4", "run_sources", lambda: _soup_bundles(4, 2), "every soup string of length 4", "length 4", batch=2),
        _sp("c04_tokens3", "run_sources", lambda: _token_bundles(TOKENS_CORE, 3, 2) + _token_bundles(TOKENS, 2, 1),
            "every sequence of 3 tokens over 38 token-class representatives and every pair over 70", "3 tokens", batch=2),
        _sp("c04_prefixes", "run_sources", lambda: _file_cases("prefix", 4000),
            "every prefix (every character offset) of every tests/**/*.js program below 4 kB", "all offsets"),
        _sp("c04_mutations", "run_sources", lambda: [c for how in ("delete", "dup", "swap", "bracket") for c in _file_cases(how, 4000)],
            "every single-token deletion, duplication, adjacent swap and bracket substitution of every corpus program below 4 kB", "1 edit"),
        _sp("c04_unicode", "run_sources", _unicode_sources,
            "33 non-ASCII / control characters (digits of other scripts, combining marks, zero-width and line separators, BOM, NBSP, lone "
            "surrogates, astral characters, case-mapping oddities) in 33 syntactic contexts (number parts, identifiers, strings, "
            "regex bodies/classes/flags, comments, operators, built-in arguments)", "33 x 33", batch=4),
        _sp("c04_long", "run_sources", _long_sources,
            "size sweep: digit strings, radix literals, numeric strings, identifiers, string/regex/comment bodies, \\u{...} escapes "
            "and method arguments of length 15..20000, and operator/member/call/bracket/statement chains of length 10..3000",
            "lengths to 20000"),
        _sp("c04_assign_call", "run_assign_call", _assign_cases,
            "two-step sequences: a special property (lastIndex, length, index, prototype, message ...) of 8 receiver kinds is assigned "
            "every value of the adversarial grid, then every method the receiver answers is called (and the regex-consuming string "
            "methods for RegExp receivers with flags g / y / none)", "assign x call", batch=1),
        _sp("c04_api2", "run_api", lambda: _api_cases(2),
            "every built-in method the engine answers on 28 receiver kinds (discovered through typeof receiver[name] for 330 candidate "
            "names) and 33 global functions/constructors, called and constructed with every argument vector of length 0..2 over the "
            "16-value adversarial grid; non-trivial = the method exists", "vectors <= 2", batch=4),
    ]
    core.append(_seq_space())
    strata = [
        _sp("c04_prefixes_big", "run_sources", lambda: _file_cases("prefix", None, parts=8)[len(_file_cases("prefix", 4000)) * 0:],
            "prefixes of all corpus programs (files above 4 kB at ~4000 evenly spaced offsets)", "all files"),
        _sp("c04_tokens4", "run_sources", lambda: _token_bundles(TOKENS_CORE[:24], 4, 2), "every 4-token sequence over 24 token classes", "4 tokens", batch=2),
        _sp("c04_api3_core", "run_api", lambda: [c for c in _api_cases(3) if c[1]["recv"] in ("string", "array", "number", "Math", "JSON", "Object", None)],
            "argument vectors of length 3 on string/array/number/Math/JSON/Object/global functions", "vectors <= 3", batch=1),
    ]
    for k, c in enumerate(SOUP[:6]):
        strata.append(_sp("c04_soup5_%d" % k, "run_sources", (lambda c=c: [b for b in _soup_bundles(5, 2) if b[1]["prefix"][0] == c]),
                          "every soup string of length 5 starting with %r" % c, "length 5", batch=2))
    if tier == "thorough" or all_strata:
        return core + strata
    pick = [s for s in strata if s.name.startswith("c04_soup5") or s.name == "c04_tokens4"]
    return core + [pick[seed % len(pick)]]


def signature(sp, cid, payload, exp, obs):
    first = obs.split("; ")[0]
    how = first.rsplit(": ", 1)[-1]
    if sp.name.startswith("c04_api"):
        who = cid.split(" with ")[0]
        return "api|" + who + "|" + how, "%s: %s" % (who, how)
    kind = how.split(" ")[0] if how.startswith("host") else how[:40]
    return sp.name.split("_")[1] + "|" + kind, "front end (%s): %s" % (sp.name, how[:80])
