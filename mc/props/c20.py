"""C20  Regex state and regex-driven string methods follow the lastIndex protocol.

Two families, both against V8 expected-outcome tables (tables/c20_*.json.gz):

HISTORIES (E2, explicit enumeration of operation histories over the state `lastIndex`)
    operations  e1 e2 = re.exec(s1|s2)   t1 t2 = re.test(s1|s2)   s<k> = re.lastIndex = k   r = read
    x flags "" g y gy gi gm   x patterns a a* (?:) b|$ (a)|b ^a   x subjects s1 = "aab", s2 = "ba".
    After EVERY step the program logs [resultSummary, re.lastIndex], so the engine is compared with the
    reference after every transition, not only at the end of a history.
    Two construction sites: a regex literal (one program per (pattern, flags, history), depth <= 2) and
    `new RegExp(p, f)` (one program per (flags, history) looping over the 6 patterns, depth >= 3).

STRING METHODS (E1)
    match / search / replace / replaceAll / split x 120 explicit small patterns x flags "" g y gi x all
    subjects over {a,b} of length <= 4, lastIndex pre-set to 0 or 2 before every call and read afterwards;
    replacement templates = all strings of <= 2 tokens over  $$ $& $` $' $1 $2 $01 $10 $ x  on a 30-pattern
    subset; function replacers that log their arguments; split limits missing 0 1 2 -1 2^32+1.
    One program = one (method, pattern, flags, preset, variant) looping over a small group of subjects
    (the whole log is compared, so one batch is one case).
"""
import itertools

from mc.core.runner import Space
from .common import tail

PROP = "C20"
LEVEL = "model_checking"
ASSUMPTIONS = [
    "expected outcomes were computed at build time by V8 (node 20, strict mode) for exactly the enumerated "
    "case ids and are pinned by SHA-256 of the case list; V8 is the explicit reference model of the lastIndex "
    "state machine (RegExpBuiltinExec, AdvanceStringIndex, GetSubstitution, SplitMatcher)",
    "the model state is the script-visible lastIndex value (flags and pattern are fixed per history); it is "
    "logged after every step, so a drift between the engine's two copies of lastIndex is visible at the next "
    "exec/test step at the latest",
    "histories: bounded depth (quick: <= 3 over 12 operations, 4 over 8 operations, one deeper stratum; "
    "thorough: 4 over 12 operations, 5 and 6 over 5 operations), 6 patterns, 6 flag sets, 2 subjects; no "
    "deduplication of histories (every history is executed from a fresh regex)",
    "string methods: 120 explicit patterns without lookaround (lookaround matcher defects belong to C09), "
    "subjects over {a,b} up to length 4 (5 in thorough), no unicode flag, no named groups, no astral characters",
    "a batch (one program over several subjects or patterns) is one case: the first divergence inside a batch "
    "hides later ones in the same batch until it is repaired; batches are kept at <= 16 calls",
    "error objects are observed only through e.name inside the script; a host exception that escapes the "
    "script's try/catch ends the program and is reported as outcome class host:<PyType>",
]
RUN = "mc.props.common:run_src"
TL = 30

# ------------------------------------------------------------------------------------------ histories

H_PATTERNS = ["a", "a*", "(?:)", "b|$", "(a)|b", "^a"]
H_FLAGS = ["", "g", "y", "gy", "gi", "gm"]
OPS = {
    "e1": ("exec", "s1"), "e2": ("exec", "s2"), "t1": ("test", "s1"), "t2": ("test", "s2"),
    "s0": ("set", "0"), "s1": ("set", "1"), "s2": ("set", "2"), "s5": ("set", "5"), "s-1": ("set", "-1"),
    's"1"': ("set", '"1"'), "s1.5": ("set", "1.5"), "r": ("read", None),
}
ALPHA12 = list(OPS)
ALPHA8 = ["e1", "e2", "t1", "t2", "s0", "s1", "s2", "s5"]
ALPHA5 = ["e1", "e2", "t1", "s1", "s2"]
SUBJ = {"s1": "aab", "s2": "ba"}

H_PRE = 'var s1 = "aab", s2 = "ba"; var m, r; '
SUMMARY = 'm === null ? null : [m.index, m[0], m.length > 1 ? (m[1] === undefined ? "undef" : m[1]) : "-"]'
CATCH = ' } catch (e) { r = "throw:" + e.name; } __out([r, re.lastIndex]); '


def step_src(op):
    kind, arg = OPS[op]
    if kind == "exec":
        body = "m = re.exec(%s); r = %s;" % (arg, SUMMARY)
    elif kind == "test":
        body = "r = re.test(%s);" % arg
    elif kind == "set":
        body = 're.lastIndex = %s; r = "set";' % arg
    else:
        body = "r = re.lastIndex;"
    return "try { " + body + CATCH


def hist_literal_cases(depths):
    out = []
    for p in H_PATTERNS:
        for f in H_FLAGS:
            for d in depths:
                for seq in itertools.product(ALPHA12, repeat=d):
                    src = H_PRE + "var re = /%s/%s; " % (p, f) + "".join(step_src(o) for o in seq) + "1"
                    cid = "hist literal /%s/%s : %s" % (p, f, " ".join(seq))
                    out.append((cid, {"src": src, "tl": TL, "h": [[p], f, list(seq)]}))
    return out


def hist_ctor_cases(alpha, depth, first=None):
    out = []
    plist = "[" + ", ".join('"%s"' % p for p in H_PATTERNS) + "]"
    for f in H_FLAGS:
        for seq in itertools.product(alpha, repeat=depth):
            if first is not None and seq[:len(first.split())] != tuple(first.split()):
                continue
            src = (H_PRE + 'var P = %s; var res = []; var i; for (i = 0; i < P.length; i++) res.push(new RegExp(P[i], "%s")); '
                   'for (i = 0; i < res.length; i++) { var re = res[i]; %s} 1' % (plist, f, "".join(step_src(o) for o in seq)))
            cid = "hist ctor all-patterns flags=%s : %s" % (f or "-", " ".join(seq))
            out.append((cid, {"src": src, "tl": TL, "h": [H_PATTERNS, f, list(seq)]}))
    return out


U_PATTERNS = ["a", "(?:)", ".", "\\u{1F600}|$", "a*", "$", "[^a]", "(.)|b"]
U_FLAGS = ["u", "gu", "yu", "giu"]
U_OPS = {"e1": ("exec", "s1"), "e2": ("exec", "s2"), "t1": ("test", "s1"), "s0": ("set", "0"), "s1": ("set", "1"), "s2": ("set", "2"),
         "s3": ("set", "3"), "s4": ("set", "4"), "r": ("read", None)}
U_PRE = 'var s1 = "a\U0001F600", s2 = "\U0001F600b"; var m, r; '      # raw characters: the engine does not combine two escapes into one character
U_SUMMARY = 'm === null ? null : [m[0], m.length > 1 ? (m[1] === undefined ? "undef" : m[1]) : "-"]'      # no .length / .index: strings are indexed by code point (documented)


def hist_unicode_cases(depths=(1, 2, 3)):
    """lastIndex arithmetic on subjects with characters outside the BMP: positions are UTF-16 code units, the end of the subject
    (3) is a valid place for an empty match, the middle of a pair (2) is not a character boundary"""
    out = []
    for p in U_PATTERNS:
        for f in U_FLAGS:
            for d in depths:
                for seq in itertools.product(list(U_OPS), repeat=d):
                    if d == 3 and not (seq[0][0] == "s" and seq[1][0] in "et"):
                        continue            # depth 3: preset, search, anything
                    steps = []
                    for o in seq:
                        kind, arg = U_OPS[o]
                        if kind == "exec":
                            body = "m = re.exec(%s); r = %s;" % (arg, U_SUMMARY)
                        elif kind == "test":
                            body = "r = re.test(%s);" % arg
                        elif kind == "set":
                            body = 're.lastIndex = %s; r = "set";' % arg
                        else:
                            body = "r = re.lastIndex;"
                        steps.append("try { " + body + CATCH)
                    src = U_PRE + "var re = /%s/%s; " % (p, f) + "".join(steps) + "1"
                    cid = "hist unicode /%s/%s : %s" % (p, f, " ".join(seq))
                    out.append((cid, {"src": src, "tl": TL, "h": [[p], f, list(seq)]}))
    return out


RX_PATTERNS = ["'a'", "''", "'/'", "'a/b'", "'[/]'", "'\\\\/'", "'\\n'", "'a\\u2028b'", "'(a)|b'", "'['", "'a{2,1}'", "undefined", "null", "5",
               "/x/", "/x/g", "/x/gi", "/x\\/y/", "new RegExp('z', 'y')", "{toString: function () { return 'ts' }}"]
RX_FLAGS = [None, "''", "'g'", "'gi'", "'ig'", "'yigm'", "'gg'", "'x'", "'G'", "'g '", "undefined", "null", "'s'", "'u'", "'dgimsuy'"]
RX_OBS = "[r.source, r.flags, r.global, r.ignoreCase, r.multiline, r.sticky, r.unicode, r.dotAll, r.lastIndex, String(r), r.toString(), r === P].join('|')"


def regex_object_cases():
    out = []

    def add(src):
        src = "var r0; try { r0 = (function () { %s })() } catch (e) { r0 = 'throw:' + e.name } r0" % src
        out.append(("O|" + src, {"src": src, "tl": TL, "m": ["ctor"], "nt": True}))
    for p in RX_PATTERNS:
        for f in RX_FLAGS:
            args = p if f is None else p + ", " + f
            add("var P = %s; var r = new RegExp(%s); return %s" % (p, args.replace(p, "P", 1), RX_OBS))
    for lit in ["/a/", "/a/g", "/a/yigm", "/[/]/", "/\\//", "/(?:)/", "/a|b/s", "/\\d+/u"]:
        add("var P = %s; var r = P; return %s" % (lit, RX_OBS))
        for call in ["r.test()", "r.exec()", "r.test(undefined)", "r.test(null)", "r.test(5)", "r.exec({toString: function () { return 'a' }})", "r.test('a', 'b')"]:
            add("var r = %s; var m = %s; return [m === null ? 'null' : (typeof m === 'object' ? m[0] + '@' + m.index : m), r.lastIndex].join('|')" % (lit, call))
        for w in ["r.zz = 1; return [r.zz, Object.keys(r).join(), r.hasOwnProperty('zz'), r.hasOwnProperty('lastIndex'), 'lastIndex' in r, 'zz' in r].join('|')",
                  "var t; try { r.source = 'q'; t = 'no throw' } catch (e) { t = e.name } return [t, r.source].join('|')",
                  "var t; try { r.global = true; t = 'no throw' } catch (e) { t = e.name } return [t, r.global, r.flags].join('|')",
                  "var t; try { r.flags = 'i'; t = 'no throw' } catch (e) { t = e.name } return [t, r.flags].join('|')",
                  "r.lastIndex = 2; return [r.lastIndex, typeof r.lastIndex].join('|')", "r.lastIndex = 'x'; return [r.lastIndex, r.test('a')].join('|')",
                  "return [r.constructor === RegExp, r instanceof RegExp, typeof r, typeof r.exec, typeof r.hasOwnProperty, r.nope].join('|')",
                  "return [Object.keys(r).join(), JSON.stringify(r), r == r, r == %s].join('|')" % lit]:
            add("var r = %s; %s" % (lit, w))
    for s in ["'abc'.match()", "'abc'.match(undefined)", "'abc'.match(null)", "'a5c'.match(5)", "'abc'.match('b')", "'a.c'.match('.')", "'abc'.search()",
              "'abc'.search(undefined)", "'a.c'.search('.')", "'abc'.search('c')", "'abc'.match('[')", "'abc'.search('(')", "'abc'.replace(undefined, 'x')",
              "'xundefinedx'.replace(undefined, '-')", "'abc'.split(undefined)", "'aundefinedb'.split(undefined)", "'abc'.match({toString: function () { return 'b' }})"]:
        add("var m = %s; return m === null ? 'null' : (typeof m === 'object' ? [m.length, m[0], m.index].join('|') : m)" % s)
    return out


# ------------------------------------------------------------------------------------- string methods

def gen_patterns():
    """~120 explicit small patterns (no lookaround): atoms x quantifiers, pairs, anchors, alternation, groups."""
    ps = []

    def add(p):
        if p not in ps:
            ps.append(p)
    for a in ["a", "b", ".", "[ab]", "\\d", "\\w"]:
        for q in ["", "*", "+", "?", "*?", "{1,2}"]:
            add(a + q)
    for p in ["^", "$", "\\b"]:
        add(p)
    for x in ["a", "b", "."]:
        for q in ["", "*", "+", "?"]:
            for y in ["a", "b"]:
                add(x + q + y)
    for p in ["^a", "^b", "a$", "b$", "^a*", "a*$", "^$", "\\ba", "a\\b", "b\\b", "^.", ".$"]:
        add(p)
    for p in ["a|b", "b|a", "a|ab", "ab|a", "a|", "|a", "b|$", "^|b", "a|b|$"]:
        add(p)
    for p in ["(a)", "(b)", "(a)*", "(a)+", "(a)?", "(a|b)", "(a)|(b)", "(a)|b", "(a*)b", "(a)(b)", "(a)(b)?", "(a)?b",
              "(?:a)", "(?:a|b)*", "(?:)", "()", "(a*)", "(a*?)", "(.)", "(.)(.)", "(a|ab)(b?)", "((a)b)", "(a)\\1",
              "(b)|(a)"]:
        add(p)
    for p in ["a+?", "a??", "a*?b", ".*?b", "a{1,2}?", ".*b", ".*a", "[ab]*?b", "a{2}", "b{0,1}a", "[^a]", "[^a]*"]:
        add(p)
    return ps


PATTERNS = gen_patterns()
SUBSET30 = ["a", "b", ".", "a*", "a+", "a?", "(?:)", "$", "^", "\\b", "(a)", "(a)|(b)", "(a)|b", "(a*)b", "(a)(b)",
            "(a)(b)?", "(a)?b", "(.)(.)", "((a)b)", "(a*)", "()", "a|b", "ab", "a*?", "b|$", "^a", "[ab]",
            "(a|ab)(b?)", ".*", "(b)|(a)"]
assert all(p in PATTERNS for p in SUBSET30) and len(SUBSET30) == 30
S_FLAGS = ["", "g", "y", "gi"]


def subjects(n):
    return ["".join(t) for t in itertools.product("ab", repeat=n)]


GROUPS = {"L0-2": subjects(0) + subjects(1) + subjects(2), "L3": subjects(3), "L4": subjects(4)}
GROUPS5 = {"L5a": subjects(5)[:16], "L5b": subjects(5)[16:]}
SUB8 = ["", "a", "b", "ab", "ba", "aab", "abab", "bbaa"]
TOKENS = ["$$", "$&", "$`", "$'", "$1", "$2", "$01", "$10", "$", "x"]
TOKCLASS = {"$$": "$$", "$&": "$&", "$`": "$`", "$'": "$'", "$1": "$n", "$2": "$n", "$01": "$nn", "$10": "$nn",
            "$": "lone $", "x": "text"}
# a template batch is grouped under the first of these token classes that it contains
TMPL_PRIORITY = ["$`", "$'", "$nn", "lone $", "$n", "$$", "$&", "text"]
LIMITS = [None, "0", "1", "2", "-1", "4294967297"]
FN = ('var A; function F() { var a = []; for (var j = 0; j < arguments.length; j++) a.push(arguments[j]); '
      'A.push(a); return "<$&>"; } ')


def templates(maxlen, minlen=0, first=None):
    seen, out = set(), []
    for n in range(minlen, maxlen + 1):
        for t in itertools.product(TOKENS, repeat=n):
            if first is not None and (not t or t[0] != first):
                continue
            s = "".join(t)
            if s not in seen:
                seen.add(s)
                out.append((s, list(t)))
    return out


def jslist(xs):
    return "[" + ", ".join('"%s"' % x for x in xs) + "]"


def sm_program(call, p, f, k, subs, fn=False):
    """One regex literal, lastIndex pre-set to k before every call and read afterwards.
    Logs one entry per subject: [subject, (replacer calls,) result, lastIndex]."""
    return ('%svar re = /%s/%s; var S = %s; var r; for (var i = 0; i < S.length; i++) { var s = S[i]; %sre.lastIndex = %d; '
            'try { %s } catch (e) { r = "throw:" + e.name; } __out([s, %sr, re.lastIndex]); } 1'
            % (FN if fn else "", p, f, jslist(subs), "A = []; " if fn else "", k, call, "A, " if fn else ""))


CALLS = {
    "match": "r = s.match(re); r = r === null ? null : [r.index, r];",
    "search": "r = s.search(re);",
    "replace": 'r = s.replace(re, "-");',
    "replaceAll": 'r = s.replaceAll(re, "-");',
}


def sm_case(method, variant, call, p, f, k, gname, subs, fn=False):
    cid = "%s%s /%s/%s li=%d %s" % (method, variant, p, f, k, gname)
    return (cid, {"src": sm_program(call, p, f, k, subs, fn), "tl": TL,
                  "m": [method, variant, p, f, k, gname]})


def sm_grid_cases(method, groups, presets=(0, 2)):
    out = []
    for p in PATTERNS:
        for f in S_FLAGS:
            for k in presets:
                for g, subs in groups.items():
                    out.append(sm_case(method, "", CALLS[method], p, f, k, g, subs))
    return out


def sm_split_cases(groups):
    out = []
    for p in PATTERNS:
        for f in S_FLAGS:
            for lim in LIMITS:
                for k in ((0, 2) if lim is None else (0,)):
                    call = "r = s.split(re);" if lim is None else "r = s.split(re, %s);" % lim
                    var = "" if lim is None else "(limit %s)" % lim
                    for g, subs in groups.items():
                        out.append(sm_case("split", var, call, p, f, k, g, subs))
    return out


def sm_fn_cases(groups):
    out = []
    for p in PATTERNS:
        for f in S_FLAGS:
            for g, subs in groups.items():
                out.append(sm_case("replace", "(function)", "r = s.replace(re, F);", p, f, 0, g, subs, fn=True))
                if "g" in f:
                    out.append(sm_case("replaceAll", "(function)", "r = s.replaceAll(re, F);", p, f, 0, g, subs, fn=True))
    return out


def sm_template_cases(tmpls):
    out = []
    for p in SUBSET30:
        for t, toks in tmpls:
            for method, f in (("replace", ""), ("replace", "g"), ("replaceAll", "g")):
                cid = '%s(template "%s") /%s/%s li=0 SUB8' % (method, t, p, f)
                call = 'r = s.%s(re, "%s");' % (method, t)
                out.append((cid, {"src": sm_program(call, p, f, 0, SUB8), "tl": TL,
                                  "m": [method, "(template)", p, f, 0, "SUB8"], "toks": toks}))
    return out


# ------------------------------------------------------------------------------- outcome parsing helpers

def split_top(s):
    """Split the inside of a serialised array `[a,b,...]` at top-level commas (strings and nesting aware)."""
    if not (s.startswith("[") and s.endswith("]")):
        return None
    parts, depth, cur, instr, i = [], 0, [], False, 1
    end = len(s) - 1
    while i < end:
        c = s[i]
        if instr:
            cur.append(c)
            if c == "\\":
                cur.append(s[i + 1])
                i += 1
            elif c == '"':
                instr = False
        elif c == '"':
            instr = True
            cur.append(c)
        elif c in "[{":
            depth += 1
            cur.append(c)
        elif c in "]}":
            depth -= 1
            cur.append(c)
        elif c == "," and depth == 0:
            parts.append("".join(cur))
            cur = []
        else:
            cur.append(c)
        i += 1
    if cur or parts:
        parts.append("".join(cur))
    return parts


def entries(outcome):
    log = outcome.rpartition("|")[0]
    return log.split(";") if log else []


def li_of(entry):
    # history entries are `[result,lastIndex]`; a serialised lastIndex never contains a comma
    return entry[:-1].rpartition(",")[2] if entry.endswith("]") else "?"


D = {"d0000000000000000": 0, "d3ff0000000000000": 1, "d4000000000000000": 2, "d4008000000000000": 3,
     "d4010000000000000": 4, "d4014000000000000": 5}


def li_class(tok, subj_len=3):
    if tok in D:
        v = D[tok]
        return "lastIndex 0" if v == 0 else ("lastIndex in range" if v <= subj_len else "lastIndex beyond the end")
    return "lastIndex not a non-negative integer (-1, \"1\", 1.5)"


def flags_class(f):
    if "y" in f:
        return "sticky (%s)" % f
    if "g" in f:
        return "global (g/gi/gm)"
    return "non-global"


# --------------------------------------------------------------------------------- coverage accounting
# `agree` runs in the parent for every executed case; it is also where states / transitions / validated
# traces are counted (measured on this run, from the V8 table entries and the engine's observations).

STATS = {"states": set(), "transitions": 0, "histories": 0, "validated": 0, "sm_calls": 0, "sm_calls_agreeing": 0}
_CURRENT = {}


def _account_history(h, exp, obs):
    pats, f, seq = h
    d = len(seq)
    ee, oo = entries(exp), entries(obs)
    for j, p in enumerate(pats):
        STATS["states"].add((p, f, "d0000000000000000"))
        e = ee[j * d:(j + 1) * d]
        o = oo[j * d:(j + 1) * d]
        for x in e:
            STATS["states"].add((p, f, li_of(x)))
        STATS["histories"] += 1
        STATS["transitions"] += len(o)
        if e == o and len(e) == d:
            STATS["validated"] += 1


def _account_sm(exp, obs):
    ee, oo = entries(exp), entries(obs)
    STATS["sm_calls"] += len(ee)
    STATS["sm_calls_agreeing"] += sum(1 for a, b in zip(ee, oo) if a == b)


def make_agree(cases_by_id):
    def agree(exp, obs, cid):
        payload = cases_by_id.get(cid)
        if payload is not None:
            if "h" in payload:
                _account_history(payload["h"], exp, obs)
            else:
                _account_sm(exp, obs)
        return exp == obs
    return agree


def extra_coverage(res):
    return {
        "states": len(STATS["states"]),
        "transitions": STATS["transitions"],
        "traces_validated_against_impl": STATS["validated"],
        "histories_executed": STATS["histories"],
        "state_definition": "distinct (pattern, flags, lastIndex as reported by V8 after a step, or the initial 0) "
                            "reached by the executed histories",
        "string_method_calls_specified": STATS["sm_calls"],
        "string_method_calls_agreeing": STATS["sm_calls_agreeing"],
    }


# ------------------------------------------------------------------------------------------------ spaces

def nontrivial(cid, payload, exp):
    if "h" in payload:
        # a history is non-trivial when it calls the matcher at least once
        return any(o[0] in "et" for o in payload["h"][2])
    # a string-method batch is non-trivial when at least one call finds a match / changes the subject
    method = payload["m"][0]
    for e in entries(exp):
        parts = split_top(e)
        if not parts or len(parts) < 3:
            return True
        subj, r = parts[0], parts[-2]
        if method == "match" and r != "n":
            return True
        if method == "search" and r != "dbff0000000000000":
            return True
        if method in ("replace", "replaceAll") and r != subj:
            return True
        if method == "split" and r != "[" + subj + "]":
            return True
    return False


class LazyCases:
    """Materialise once; the agree hook needs payloads by case id."""

    def __init__(self, fn):
        self.fn = fn
        self.by_id = {}
        self.cases = None

    def __call__(self):
        if self.cases is None:
            self.cases = self.fn()
            self.by_id.update((c, p) for c, p in self.cases)
        return self.cases


def _space(name, fn, rule, bound, batch=100):
    lc = LazyCases(fn)
    return Space(name, RUN, lc, oracle="table", nontrivial=nontrivial, rule=rule, bound=bound, batch=batch,
                 agree=make_agree(lc.by_id))


H_RULE = ("histories over {exec(s1) exec(s2) test(s1) test(s2) lastIndex=k read}; [result, lastIndex] is compared after "
          "every step; non-trivial = the history calls exec/test at least once; ")
S_RULE = ("one program per (method, pattern, flags, lastIndex preset, variant) looping over a subject group, logging "
          "[subject, result, lastIndex afterwards]; non-trivial = at least one call matches; ")


def core_spaces():
    sp = [
        _space("c20_hist_lit_d1_2", lambda: hist_literal_cases((1, 2)),
               H_RULE + "regex literal, every history of depth 1..2 over all 12 operations x 36 (pattern, flags)",
               "36 x (12 + 144)"),
        _space("c20_hist_ctor_d3", lambda: hist_ctor_cases(ALPHA12, 3),
               H_RULE + "new RegExp, every depth-3 history over all 12 operations, 6 patterns per program",
               "6 flags x 12^3 programs x 6 patterns"),
        _space("c20_hist_ctor_d4_core8", lambda: hist_ctor_cases(ALPHA8, 4),
               H_RULE + "new RegExp, every depth-4 history over the 8-operation core (exec/test x s1/s2, lastIndex = 0 1 2 5)",
               "6 flags x 8^4 programs x 6 patterns"),
    ]
    sp.append(Space("c20_regex_object", RUN, regex_object_cases, oracle="table", batch=200, bound="%d x %d + literals" % (len(RX_PATTERNS), len(RX_FLAGS)),
                    rule="new RegExp(pattern, flags) for %d pattern arguments (strings that need escaping, invalid patterns, undefined / null / "
                         "numbers, regex objects, objects) x %d flag arguments (valid in any order, duplicate, unknown, undefined): source, "
                         "flags, every flag property, lastIndex, both renderings; 8 literals: the same, test / exec with missing and odd "
                         "arguments, added properties, assignment to the read-only accessors, lastIndex writes, inherited members; match / "
                         "search / replace / split with undefined, null, number, string and invalid patterns" % (len(RX_PATTERNS), len(RX_FLAGS))))
    sp.append(_space("c20_hist_unicode", hist_unicode_cases,
                     H_RULE + "subjects 'a\\u{1F600}' and '\\u{1F600}b', 8 patterns x flags u gu yu giu, every history of depth 1..2 over exec / "
                     "test / lastIndex = 0..4 / read, and depth 3 of the form preset, search, anything", "32 x (9 + 81 + 5 x 3 x 9)"))
    for m in ("match", "search", "replace", "replaceAll"):
        sp.append(_space("c20_sm_%s" % m, lambda m=m: sm_grid_cases(m, GROUPS),
                         S_RULE + "%s x %d patterns x flags '' g y gi x preset 0/2 x subjects over {a,b} len <= 4"
                         % (m, len(PATTERNS)), "%d x 4 x 2 x 31 subjects" % len(PATTERNS)))
    sp.append(_space("c20_sm_split", lambda: sm_split_cases(GROUPS),
                     S_RULE + "split x limits {missing,0,1,2,-1,2^32+1} (preset 2 only without limit)",
                     "%d x 4 x 7 x 31 subjects" % len(PATTERNS)))
    sp.append(_space("c20_sm_fn", lambda: sm_fn_cases(GROUPS),
                     S_RULE + "replace/replaceAll with a function replacer that logs all its arguments and returns '<$&>'",
                     "%d x 4 x 31 subjects" % len(PATTERNS)))
    sp.append(_space("c20_sm_tmpl2", lambda: sm_template_cases(templates(2)),
                     S_RULE + "replace '' / replace g / replaceAll g with every template of <= 2 tokens over "
                     "$$ $& $` $' $1 $2 $01 $10 $ x on 30 patterns x 8 subjects", "30 x 3 x %d x 8" % len(templates(2))))
    return sp


def thorough_strata():
    st = []
    for o in ALPHA12:
        tag = {"s-1": "sm1", 's"1"': "sstr1", "s1.5": "s1p5"}.get(o, o)
        st.append(_space("c20_hist_ctor_d4_%s" % tag, lambda o=o: hist_ctor_cases(ALPHA12, 4, first=o),
                         H_RULE + "new RegExp, every depth-4 history over all 12 operations starting with %s" % o,
                         "6 flags x 12^3 programs x 6 patterns"))
    st.append(_space("c20_hist_ctor_d5_core5", lambda: hist_ctor_cases(ALPHA5, 5),
                     H_RULE + "new RegExp, every depth-5 history over the 5-operation core (e1 e2 t1 lastIndex=1 lastIndex=2)",
                     "6 flags x 5^5 programs x 6 patterns"))
    for o in ALPHA5:
        for o2 in ALPHA5:
            st.append(_space("c20_hist_ctor_d6_core5_%s_%s" % (o, o2),
                             lambda o=o, o2=o2: hist_ctor_cases(ALPHA5, 6, first=o + " " + o2),
                             H_RULE + "new RegExp, every depth-6 history over the 5-operation core starting with %s %s" % (o, o2),
                             "6 flags x 5^4 programs x 6 patterns"))
    for i, t in enumerate(TOKENS):
        st.append(_space("c20_sm_tmpl3_%d" % i, lambda t=t: sm_template_cases(templates(3, 3, first=t)),
                         S_RULE + "templates of exactly 3 tokens starting with %s" % t, "30 x 3 x <=100 x 8"))
    for m in ("match", "search", "replace", "replaceAll"):
        st.append(_space("c20_sm5_%s" % m, lambda m=m: sm_grid_cases(m, GROUPS5),
                         S_RULE + "%s on the 32 subjects of length 5" % m, "%d x 4 x 2 x 32" % len(PATTERNS)))
    st.append(_space("c20_sm5_split", lambda: sm_split_cases(GROUPS5), S_RULE + "split on the 32 subjects of length 5",
                     "%d x 4 x 7 x 32" % len(PATTERNS)))
    st.append(_space("c20_sm5_fn", lambda: sm_fn_cases(GROUPS5), S_RULE + "function replacers on the 32 subjects of length 5",
                     "%d x 4 x 32" % len(PATTERNS)))
    return st


def spaces(tier, seed, all_strata=False):
    core = core_spaces()
    strata = thorough_strata()
    if tier == "thorough" or all_strata:
        return core + strata
    return core + [strata[seed % len(strata)]]


# --------------------------------------------------------------------------------------------- signature

def _first_diff(ee, oo):
    for i, e in enumerate(ee):
        if i >= len(oo) or oo[i] != e:
            return i
    return len(ee) if len(oo) > len(ee) else None


def _escape_kind(obs):
    t = tail(obs)
    if t.startswith("Ehost"):
        return "host exception %s escapes the script (not catchable)" % t[6:]
    if t in ("Etime", "Ememory"):
        return "runs into the %s limit" % t[1:]
    if t.startswith("E"):
        return "program ends with %s" % t[1:]
    return "log ends early"


def signature(sp, cid, payload, exp, obs):
    ee, oo = entries(exp), entries(obs)
    i = _first_diff(ee, oo)
    if "h" in payload:
        pats, f, seq = payload["h"]
        site = "literal" if "lit" in sp.name else "new RegExp"
        fc = flags_class(f)
        if i is None or i >= len(ee):
            return "hist|?|%s|tail" % fc, "history on %s regex: completion differs" % fc
        d = len(seq)
        step = i % d
        op = seq[step]
        kind, arg = OPS[op]
        opname = {"exec": "exec", "test": "test", "set": "lastIndex = %s" % arg, "read": "read lastIndex"}[kind]
        slen = len(SUBJ[arg]) if kind in ("exec", "test") else 3
        pre = li_class(li_of(ee[i - 1]) if step > 0 else "d0000000000000000", slen)
        if i >= len(oo):
            how = _escape_kind(obs)
        else:
            pe, po = split_top(ee[i]), split_top(oo[i])
            if po is None or len(po) != 2:
                how = "malformed observation"
            elif pe[0] != po[0]:
                if po[0].startswith('s"throw:'):
                    how = "throws %s" % po[0][8:-1]
                elif pe[0].startswith('s"throw:'):
                    how = "does not throw %s" % pe[0][8:-1]
                elif kind == "exec":
                    how = ("reports no match where one is specified" if po[0] == "n" else
                           "reports a match where null is specified" if pe[0] == "n" else "reports the wrong match")
                elif kind == "test":
                    how = "returns %s where %s is specified" % ("true" if po[0] == "t" else "false",
                                                                "true" if pe[0] == "t" else "false")
                else:
                    how = "wrong value"
                if pe[1] != po[1]:
                    how += " and leaves the wrong lastIndex"
            else:
                how = "right result but wrong lastIndex afterwards"
        key = "hist|%s|%s|%s|%s" % (opname if kind != "set" else "set", fc, pre, how)
        what = "%s on a %s regex with %s before the call: %s" % (opname if kind != "set" else "lastIndex = k", fc, pre, how)
        return key, what
    method, variant, p, f, k, g = payload["m"]
    fc = flags_class(f)
    var = variant
    if variant == "(template)":
        present = {TOKCLASS[t] for t in payload.get("toks", [])}
        lead = [c for c in TMPL_PRIORITY if c in present]
        var = "(template containing %s)" % lead[0] if lead else "(empty template)"
    elif variant.startswith("(limit"):
        var = "(with limit)"
    if i is None:
        how = "completion differs"
    elif i >= len(oo):
        how = _escape_kind(obs)
    else:
        pe, po = split_top(ee[i]), split_top(oo[i]) if i < len(oo) else None
        if pe is None or po is None or len(pe) != len(po):
            how = "malformed observation"
        elif pe[-2] != po[-2]:
            if po[-2].startswith('s"throw:'):
                how = "throws %s where a result is specified" % po[-2][8:-1]
            elif pe[-2].startswith('s"throw:'):
                how = "returns a result where %s is specified" % pe[-2][8:-1]
            else:
                how = "wrong result"
            if pe[-1] != po[-1]:
                how += " and wrong lastIndex afterwards"
        elif len(pe) == 4 and pe[1] != po[1]:
            how = "replacer function called with the wrong arguments"
        else:
            how = "right result but wrong lastIndex afterwards"
    key = "sm|%s%s|%s|li=%d|%s" % (method, var, fc, k, how)
    what = "String.prototype.%s%s with a %s regex, lastIndex %d before the call: %s" % (method, var, fc, k, how)
    return key, what
