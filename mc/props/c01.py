"""C01  Time limit bounds every evaluation, whatever the script does.

E3 (deviation-bounded environment injection): the only environment the engine consults is the clock.
A virtual clock advances by 1 per interpreter step and per regex step (verification hooks), so the
deadline lands at an exact, enumerable position of the execution, like a crash point. The product
{looping construct} x {place script code can run} x {try wrapping} x {T} x {phase offset} x
{memory_limit set/unset} is enumerated; every run must end in exactly TimeLimitError with an overrun
no larger than the documented poll granularity.
"""
import json

from mc.core.runner import Space

PROP = "C01"
LEVEL = "fault_enumeration"
ASSUMPTIONS = [
    "time is virtual: 1 unit per interpreter step / regex step; the link to seconds rests on the property's "
    "scope clause (every single native operation works on bounded operands)",
    "a 40-script real-clock subset (T = 0.05 s, bound 10 s) checks that the virtual clock hides no real wait; it is "
    "deliberately loose so that machine load cannot raise an alarm",
    "constructs and places outside the enumerated lists are not explored",
]
VM_SLACK = 1000 + 16
AUX_SLACK = 2000      # auxiliary interpreters are short-lived and counted apart; two poll intervals bound them
RE_SLACK = 100 + 116
ABORT_AFTER = 20000


def S(s):
    return json.dumps(s)


# ---------------------------------------------------------------- looping constructs (never terminate)
LOOPS = {
    "while": "while (true) { }",
    "for": "for (;;) { }",
    "dowhile": "do { } while (true);",
    "for-continue": "for (;;) { continue }",
    "labelled-continue": "outer: for (;;) { for (;;) { continue outer } }",
    "self-recursion": "(function rec() { return rec() + 1 })();",
    "mutual-recursion": "({a: function () { return this.b() }, b: function () { return this.a() }}).a();",
    "throw-catch-loop": "for (;;) { try { throw 1 } catch (e) { } }",
    "try-finally-loop": "for (;;) { try { } finally { } }",
    "push-loop": "var arr = []; for (;;) { arr.push(1); if (arr.length > 50) { arr = [] } }",
    "string-loop": "var str = ''; for (;;) { str = str + 'x'; if (str.length > 50) { str = '' } }",
    "callback-loop": "for (;;) { [1, 2, 3].forEach(function (x) { return x }) }",
    "regex-loop": "for (;;) { /a+b/.test('aaab') }",
    # the work is spread over very many short-lived nested activations, none of which runs long by itself
    "eval-tree-recursion": "tr = function (d) { if (d == 0) return 0; eval('tr(' + (d - 1) + ');tr(' + (d - 1) + ')'); return 0 }; tr(30);",
    "Function-tree-recursion": "tf = function (d) { if (d == 0) return 0; var g = new Function('d', 'tf(d - 1); tf(d - 1)'); g(d); return 0 }; tf(30);",
    # attempts to close a prototype chain into a cycle (each is refused by a TypeError or ignored); the lookups that follow walk
    # chains inside one native operation, where nothing polls the clock
    "proto-cycle-attempts": ("var pa = {}, pb = Object.create(pa), pc = Object.create(pb); "
                             "[function () { Object.setPrototypeOf(pa, pa) }, function () { Object.setPrototypeOf(pa, pc) }, "
                             "function () { Object.setPrototypeOf(Object.prototype, Object.create(Object.prototype)) }, "
                             "function () { Object.setPrototypeOf(Object.prototype, pc) }, function () { pa.__proto__ = pc }, "
                             "function () { Object.setPrototypeOf(Array.prototype, []) }, function () { Object.setPrototypeOf(Function.prototype, function () {}) }, "
                             "function () { Object.prototype.__proto__ = pc }].forEach(function (t) { try { t() } catch (e) { } }); "
                             "var seen = [pc.nosuch, 'nosuch' in pc, pc instanceof Object, ({}).nosuch, [].nosuch, (function () {}).nosuch, "
                             "pc.hasOwnProperty('q'), String(pc), JSON.stringify(pc), Object.keys(pc).length]; for (var k in pc) { seen.push(k) } "
                             "for (;;) { }"),
    "callback-tree-recursion": "function tc(d) { if (d == 0) return 0; [1, 2].forEach(function () { tc(d - 1) }); return 0 } tc(30);",
}
WRAPS = {
    "plain": "{L}",
    "try-catch": "try { {L} } catch (e) { }",
    "try-finally": "try { {L} } finally { for (;;) { } }",
    "try-catch-loop": "try { {L} } catch (e) { for (;;) { } }",
    "swallow-retry": "for (;;) { try { {L} } catch (e) { } }",
}
# ---------------------------------------------------------------- places ({B} = statements to run there)
PLACES = {
    "top": "{B}",
    "function": "function f() { {B} } f();",
    "arrow": "var f = () => { {B} }; f();",
    "constructor": "function F() { {B} } new F();",
    "forEach": "[1].forEach(function () { {B} });",
    "map": "[1].map(function () { {B} });",
    "filter": "[1].filter(function () { {B} });",
    "reduce": "[1, 2].reduce(function (a, b) { {B} });",
    "reduceRight": "[1, 2].reduceRight(function (a, b) { {B} });",
    "find": "[1].find(function () { {B} });",
    "findIndex": "[1].findIndex(function () { {B} });",
    "some": "[1].some(function () { {B} });",
    "every": "[1].every(function () { {B} });",
    "sort": "[2, 1].sort(function (a, b) { {B} });",
    "getter": "var o = {get x() { {B} }}; o.x;",
    "setter": "var o = {set x(v) { {B} }}; o.x = 1;",
    "valueOf+": "var o = {valueOf: function () { {B} }}; o + 1;",
    "valueOf*": "var o = {valueOf: function () { {B} }}; o * 2;",
    "valueOf<": "var o = {valueOf: function () { {B} }}; o < 1;",
    "toString": "var o = {toString: function () { {B} }}; '' + o;",
    "call": "(function () { {B} }).call(null);",
    "apply": "(function () { {B} }).apply(null, []);",
    "bind": "(function () { {B} }).bind(null)();",
    "replace-fn": "'a'.replace(/a/, function () { {B} });",
    "replace-str-fn": "'a'.replace('a', function () { {B} });",
    "nested-callbacks": "[1].map(function () { return [1].filter(function () { {B} }) });",
    "getter-in-callback": "var o = {get x() { {B} }}; [1].forEach(function () { o.x });",
}
EVAL_PLACES = {
    "indirect-eval": "(1, eval)({Q});",
    "eval-in-eval": "(1, eval)({QQ});",
    "new-Function": "new Function({Q})();",
    "Function-in-callback": "[1].forEach(new Function({Q}));",
    # a body that closes the wrapper the constructor puts around it: the statements run while the function is being made
    "Function-body-escape": "try { new Function('}); ' + {Q} + ' (function () {') } catch (e) { } for (;;) { }",
    "eval-in-function": "function f() { return (1, eval)({Q}) } f();",
}
# ---------------------------------------------------------------- catastrophic regexes and regex-consuming APIs
REGEXES = {
    "nested-plus": ("(a+)+$", "a" * 40 + "b"),
    "lookahead": ("(?=(a+)+b)a", "a" * 40 + "c"),
    "lookbehind": ("(?<=b(a+)+)c", "a" * 40 + "c"),      # matched right-to-left: the loop runs before the missing b is noticed
    "alternation": ("(a|aa)+$", "a" * 40 + "b"),
    "lookahead-in-loop": ("^(?:(?=a)a|a)*$", "a" * 40 + "!"),
    "lookbehind-in-loop": ("^(?:a(?<=a)|a(?<=a))*b", "a" * 40),
    "backreference-loop": ("^(a*)(?:\\1a|a)*$", "a" * 40 + "!"),
    # no single attempt is long: 25 000 start positions, each failing after a few steps
    "many-short-attempts": ("a(?:b|c)d", "a" * 25000),
}
RE_APIS = {
    "test": "var re = /{P}/; re.test({S});",
    "exec": "var re = /{P}/; re.exec({S});",
    "match-regex": "{S}.match(/{P}/);",
    "match-string": "{S}.match({PS});",
    "search-regex": "{S}.search(/{P}/);",
    "search-string": "{S}.search({PS});",
    "replace": "{S}.replace(/{P}/, 'x');",
    "replaceAll": "{S}.replaceAll(/{P}/g, 'x');",
    "split": "{S}.split(/{P}/);",
    "RegExp-ctor": "new RegExp({PS}).test({S});",
    "RegExp-call": "RegExp({PS}).test({S});",
    "in-callback": "[1].forEach(function () { /{P}/.test({S}) });",
    "ctor-in-callback": "[1].forEach(function () { new RegExp({PS}).test({S}) });",
    "in-eval": "(1, eval)({EVALSRC});",
}


def build(place, loop, wrap):
    body = WRAPS[wrap].replace("{L}", LOOPS[loop])
    if place in PLACES:
        return PLACES[place].replace("{B}", body)
    t = EVAL_PLACES[place]
    return t.replace("{QQ}", S("(1, eval)(" + S(body) + ")")).replace("{Q}", S(body))


def build_re(api, rx, wrap):
    p, s = REGEXES[rx]
    t = RE_APIS[api]
    inner = "/" + p + "/.test(" + S(s) + ")"
    src = t.replace("{EVALSRC}", S(inner)).replace("{PS}", S(p)).replace("{P}", p).replace("{S}", S(s))
    return WRAPS[wrap].replace("{L}", src) if wrap in ("plain", "try-catch") else src


def run_deadline(payload):
    """Run one script with the deadline at virtual step T; report class and overrun."""
    from mc.props.common import engine
    e = engine()
    T = payload["T"]
    st = {"vm": 0, "re": 0, "cur": None, "run": 0, "total": 0, "aux": 0, "main": None}
    C = e.CLOCK

    def vmhook(vm):
        C.now += 1.0
        if st["main"] is None:
            st["main"] = vm
        if C.now > T + start[0]:
            # the evaluation's interpreter and the nested-eval interpreters share one polled instruction counter; the
            # interpreter the Function constructor uses to materialise a closure (a handful of steps per construction, no
            # script code) is counted separately
            if vm is st["main"] or getattr(vm, "nested", False):
                st["vm"] += 1
            else:
                st["aux"] += 1
            if st["vm"] + st["aux"] > ABORT_AFTER:
                raise e.Abort()

    def rehook(rvm, loop):
        # steps of ONE matcher run after the deadline (a run polls every 100 of its own steps; many short
        # runs between two interpreter polls are bounded by the interpreter's 1000-step granularity instead)
        C.now += 1.0
        if C.now > T + start[0]:
            if st["cur"] is not rvm:
                st["cur"] = rvm
                st["run"] = 0
            st["run"] += 1
            st["total"] += 1
            if st["run"] > st["re"]:
                st["re"] = st["run"]
            if st["run"] > ABORT_AFTER or st["total"] > 50 * ABORT_AFTER:
                raise e.Abort()

    start = [0.0]
    how_vm = e.set_vm_hook(vmhook)
    how_re = e.set_re_hook(rehook)
    try:
        C.reset("step")
        for pre in payload.get("pre_other", ()):  # earlier evals on ANOTHER context that has no limits at all
            C.reset("step")
            start[0] = 10 ** 9
            try:
                e.Context().eval(pre)
            except Exception as ex:  # noqa: BLE001
                return "setup (other context) failed: " + type(ex).__name__ + "\x00time"
        ctx = e.Context(time_limit=T, memory_limit=payload.get("ml"))
        for pre in payload.get("pre", ()):       # earlier evals on the same context (no deadline pressure)
            C.reset("step")
            st["vm"] = st["re"] = st["run"] = st["total"] = 0
            start[0] = 10 ** 9                    # deadline far away
            try:
                ctx.eval(pre)
            except Exception as ex:  # noqa: BLE001
                return "setup failed: " + type(ex).__name__ + "\x00time"
        if payload.get("advance"):
            C.now += payload["advance"]           # time passes between the evals
        start[0] = C.now
        st["vm"] = st["re"] = st["run"] = st["total"] = st["aux"] = 0
        st["cur"] = st["main"] = None
        try:
            r = ctx.eval(payload["src"])
            oc = "returned " + repr(r)[:40]
        except e.Abort:
            oc = "unpolled path: still running %d steps after the deadline" % ABORT_AFTER
        except e._errors.TimeLimitError as ex:
            oc = "time" if type(ex) is e._errors.TimeLimitError else "time-subclass"
        except e._errors.MemoryLimitError:
            oc = "memory"
        except RecursionError:
            oc = "host RecursionError"
        except e._errors.JSError as ex:
            oc = "JSError " + str(ex)[:60]
        except BaseException as ex:  # noqa: BLE001
            oc = "host " + type(ex).__name__
    finally:
        e.set_vm_hook(None)
        e.set_re_hook(None)
    if oc == "time":
        if st["vm"] > VM_SLACK:
            oc = "time, but %d interpreter steps after the deadline (> %d)" % (st["vm"], VM_SLACK)
        elif st["aux"] > AUX_SLACK:
            oc = "time, but %d steps of Function-constructor interpreters after the deadline (> %d)" % (st["aux"], AUX_SLACK)
        elif st["re"] > RE_SLACK:
            oc = "time, but one regex run took %d steps after the deadline (> %d)" % (st["re"], RE_SLACK)
        elif st["vm"] + st["aux"] + st["total"] == 0:
            oc = "time, but raised before the deadline"
    if how_re == "none" and payload.get("regex"):
        oc += " [no regex hook]"
    return oc + "\x00time"


def run_real(payload):
    """Real-clock smoke: T = 0.05 s; must come back within 10 s with TimeLimitError (deliberately loose: load-proof)."""
    import time as rt
    from mc.props.common import engine
    e = engine()
    e.CLOCK.reset("real")
    try:
        ctx = e.Context(time_limit=0.05)
        t0 = rt.monotonic()
        try:
            ctx.eval(payload["src"])
            oc = "returned"
        except e._errors.TimeLimitError:
            oc = "time"
        except BaseException as ex:  # noqa: BLE001
            oc = "other " + type(ex).__name__
        dt = rt.monotonic() - t0
    finally:
        e.CLOCK.reset("poll")
    if oc == "time" and dt > 10.0:
        oc = "time, but after %.1f s" % dt
    return oc + "\x00time"


# Script-defined globals named like the engine's error kinds must not make the stop catchable.
SHADOW = ("function InternalError(m) { this.message = m } var TimeLimitError = InternalError, MemoryLimitError = InternalError, "
          "RegexTimeoutError = InternalError; ")


def _cases(Ts, ks, mls, loops=None, places=None, wraps=None, shadow=False):
    out = []
    allplaces = list(PLACES) + list(EVAL_PLACES)
    for loop in (loops or LOOPS):
        for place in (places or allplaces):
            for wrap in (wraps or WRAPS):
                src0 = build(place, loop, wrap)
                if shadow:
                    src0 = SHADOW + src0
                for T in Ts:
                    for k in ks:
                        for ml in mls:
                            src = "0;" * k + src0
                            cid = "T=%d k=%d ml=%s | %s in %s, %s%s | %s" % (T, k, ml, loop, place, wrap,
                                                                            " [error names shadowed]" if shadow else "", src0)
                            out.append((cid, {"src": src, "T": T, "ml": ml}))
    return out


def _re_cases(Ts, ks, mls):
    out = []
    for rx in REGEXES:
        for api in RE_APIS:
            for wrap in ("plain", "try-catch"):
                src0 = build_re(api, rx, wrap)
                for T in Ts:
                    for k in ks:
                        for ml in mls:
                            cid = "T=%d k=%d ml=%s | regex %s via %s, %s | %s" % (T, k, ml, rx, api, wrap, src0)
                            out.append((cid, {"src": "0;" * k + src0, "T": T, "ml": ml, "regex": True}))
    # regex object created by an earlier eval on the same context, used later (time has passed in between)
    for rx, (p, s) in REGEXES.items():
        for adv in (0, 5000):
            for T in Ts:
                cid = "T=%d | regex %s kept from an earlier eval (clock +%d in between)" % (T, rx, adv)
                out.append((cid, {"pre": ["var kept = /" + p + "/;", "var kept2 = new RegExp(" + S(p) + ");"],
                                  "src": "kept.test(" + S(s) + ")", "T": T, "advance": adv, "regex": True}))
                out.append((cid + " [ctor]", {"pre": ["var kept = /" + p + "/;", "var kept2 = new RegExp(" + S(p) + ");"],
                                              "src": "kept2.test(" + S(s) + ")", "T": T, "advance": adv, "regex": True}))
    # the same pattern text was used before by a context without limits (and by an earlier eval of this context): whatever
    # the engine remembers about a pattern must not carry that use's deadline, or lack of one, into this evaluation
    for rx, (p, s) in REGEXES.items():
        short = S(s[:3])
        uses = ["%s.search(%s)" % (short, S(p)), "%s.match(%s)" % (short, S(p)), "new RegExp(%s).test(%s)" % (S(p), short),
                "RegExp(%s).exec(%s)" % (S(p), short), "%s.split(new RegExp(%s))" % (short, S(p)), "/%s/.test(%s)" % (p, short)]
        for api in ("match-string", "search-string", "RegExp-ctor", "RegExp-call", "test", "split"):
            for T in Ts:
                cid = "T=%d | regex %s via %s after the pattern was used by an unlimited context and by an earlier eval" % (T, rx, api)
                out.append((cid, {"pre_other": uses, "pre": uses[:2], "src": build_re(api, rx, "plain"), "T": T, "advance": 5000, "regex": True}))
    return out


def _real_cases():
    out = []
    picks = [("top", "while"), ("function", "for"), ("forEach", "while"), ("sort", "for"), ("getter", "while"),
             ("valueOf+", "for"), ("toString", "while"), ("indirect-eval", "while"), ("new-Function", "for"),
             ("replace-fn", "while"), ("top", "self-recursion"), ("top", "throw-catch-loop"), ("map", "push-loop"),
             ("bind", "string-loop"), ("constructor", "labelled-continue"), ("reduce", "callback-loop")]
    for place, loop in picks:
        for wrap in ("plain", "swallow-retry"):
            out.append(("real clock | %s in %s, %s" % (loop, place, wrap), {"src": build(place, loop, wrap)}))
    for rx in REGEXES:
        for api in ("test", "match-string"):
            out.append(("real clock | regex %s via %s" % (rx, api), {"src": build_re(api, rx, "plain")}))
    return out


def _sp(name, runner, fn, rule, bound, batch=20):
    return Space(name, "mc.props.c01:" + runner, fn, oracle="inline", rule=rule, bound=bound, batch=batch, watchdog=45,
                 nontrivial=lambda cid, p, exp: True,
                 # under the virtual clock an evaluation is a deterministic function of the case: an outcome that is wrong once
                 # and different the next time depends on what ran before in the process (the real-clock space is exempt)
                 nondeterminism_is_violation=(runner != "run_real"))


def spaces(tier, seed, all_strata=False):
    core = [
        _sp("c01_product", "run_deadline", lambda: _cases([1500, 3000], [0, 1], [None]),
            "13 never-terminating constructs x 32 places where script code can run (top level, function, arrow, "
            "constructor, callbacks of 10 array methods, accessors, valueOf/toString conversions, call/apply/bind, "
            "replace callbacks, nested callbacks, indirect eval, eval in eval, new Function) x 5 try wrappings x "
            "deadline T in {1500, 3000} steps x phase offset k in {0, 1}; every run must raise exactly TimeLimitError "
            "with <= 1016 interpreter steps and <= 216 regex steps after the virtual deadline", "T x k x product"),
        _sp("c01_shadowed", "run_deadline", lambda: _cases([1500], [0], [None], wraps=["try-catch", "swallow-retry", "try-catch-loop"], shadow=True),
            "the product with script globals named InternalError / TimeLimitError / MemoryLimitError defined first and a catching "
            "wrapper: the stop must still not be catchable", "product"),
        _sp("c01_memlimit", "run_deadline", lambda: _cases([3000], [0], [10 ** 7]),
            "the same product with memory_limit = 10^7 set", "product"),
        _sp("c01_regex", "run_deadline", lambda: _re_cases([1500, 3000], [0, 1], [None]),
            "7 catastrophic regexes (nested quantifier, inside lookahead, inside lookbehind, overlapping alternation, lookahead / "
            "lookbehind / backreference evaluated inside every iteration of a backtracking loop) x "
            "14 regex-consuming entry points x {plain, try/catch}; plus regex objects kept from an earlier eval", "product"),
        _sp("c01_realclock", "run_real", _real_cases, "real-clock smoke subset, T = 0.05 s, bound 10 s", "40 scripts", batch=3),
    ]
    strata = []
    for i, T in enumerate([999, 1000, 1001, 7001, 20000]):
        strata.append(_sp("c01_T%d" % T, "run_deadline", (lambda T=T: _cases([T], [0, 2], [None]) + _re_cases([T], [0], [None])),
                          "product at T = %d" % T, "T=%d" % T))
    for j in range(4):
        ks = list(range(3 + j, 1000, 37 * 4))
        strata.append(_sp("c01_phase%d" % j, "run_deadline",
                          (lambda ks=ks: _cases([2000], ks, [None], wraps=["plain", "swallow-retry"])),
                          "phase sweep: k in %s no-op statements before the construct (deadline position relative to "
                          "the poll phase), T = 2000" % ks, "k sweep"))
    if tier == "thorough" or all_strata:
        return core + strata
    return core + [strata[seed % len(strata)]]


def signature(sp, cid, payload, exp, obs):
    what = cid.split(" | ")[1] if " | " in cid else cid
    kind = obs
    for pre in ("returned", "JSError", "time, but", "unpolled"):
        if obs.startswith(pre):
            kind = pre + ("" if pre != "time, but" else " overrun beyond the poll granularity")
    import re as _re
    where = _re.sub(r"^(\S+) in (\S+), (\S+)$", r"place \2", what)
    where = _re.sub(r"^regex (\S+) via (\S+), (\S+)$", r"regex via \2", where)
    key = where + "|" + kind
    return key, "%s: %s" % (where, obs[:80])
