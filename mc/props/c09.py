"""C09  Regular expressions match exactly as ECMAScript backtracking specifies.

E1: every pattern AST up to a size bound x every subject up to a length bound x flag strata.
Oracle: mc/oracle/regexref.py (the specification's continuation-passing matcher; agreed with V8 on
1.63 M (pattern, subject) pairs when it was written), computed in the worker next to the observation.
One case = one (pattern, flags) with ALL subjects of its stratum; the outcome is the vector of results.
"""
from mc.core.runner import Space
from mc.gen import patterns as G

PROP = "C09"
LEVEL = "exploration"
ASSUMPTIONS = [
    "reference matcher mc/oracle/regexref.py transcribes ECMA-262 22.2.2 (non-unicode mode); it was diffed "
    "against V8 on all 1 634 589 (pattern, subject) pairs of AST size <= 4 at build time with 0 disagreements",
    "patterns larger than the size bound, subjects longer than the length bound and characters outside the "
    "subject alphabets are not explored; quantified assertions (Annex B) and the u/v flags are outside the supported syntax",
]

SUBJECT_SETS = {
    "ab1_5": ("ab1", 5), "ab1_4": ("ab1", 4), "ab1_3": ("ab1", 3),
    "aAb_4": ("aAb", 4), "abn_4": ("ab\n", 4), "mix_3": ("aA1_ \n", 3), "abc_5": ("abc", 5), "mix_4": ("aA1_ \n", 4), "abz1_4": ("abcz1", 4),
}
_subj_cache = {}


def subj(key):
    if key not in _subj_cache:
        a, n = SUBJECT_SETS[key]
        _subj_cache[key] = list(G.subjects(a, n))
    return _subj_cache[key]


def fmt(index, groups):
    return "%d:" % index + ",".join("~" if g is None else g.replace("\n", "\\n") for g in groups)


class _Budget(Exception):
    pass


def run_pattern(payload):
    """Worker: engine (Python-level RegExp and script-level literal) vs reference for all subjects."""
    from mc.props.common import engine
    e = engine()
    from microjs.regex import RegExp
    from mc.oracle.regexref import Matcher
    p, f, ast, skey = payload["p"], payload["f"], payload["ast"], payload["s"]
    S = subj(skey)
    m = Matcher(_tup(ast), f)
    exp = []
    for s in S:
        r = m.search(s)
        exp.append("-" if r is None else fmt(r[0], r[2]))
    obs = []
    polls = [0]

    def poll():
        polls[0] += 1
        return polls[0] > 3000

    try:
        re = RegExp(p, f, poll)
    except Exception as ex:  # noqa: BLE001
        return "ctor:" + type(ex).__name__ + "\x00" + " ".join(exp)
    for s in S:
        polls[0] = 0
        re.lastIndex = 0
        try:
            r = re.exec(s)
            obs.append("-" if r is None else fmt(r.index, [r[i] for i in range(len(r))]))
        except Exception as ex:  # noqa: BLE001
            obs.append("!" + type(ex).__name__)
    out = " ".join(obs)
    if payload.get("script"):
        # the same matches through a regex literal and RegExp.prototype.exec in a script
        lit = "/" + p + "/" + f
        src = ("var re = %s; var S = __subjects(); var out = []; for (var i = 0; i < S.length; i++) { "
               "var m = re.exec(S[i]); if (m === null) { out.push(null) } else { var g = [m.index]; "
               "for (var j = 0; j < m.length; j++) { g.push(m[j]) } out.push(g) } } __res(out)") % lit
        got = []

        def setup(ctx):
            JSArray = e._values.JSArray

            def mk():
                a = JSArray()
                a._elements = list(S)
                return a
            ctx._globals["__subjects"] = mk
            ctx._globals["__res"] = lambda arr: got.append(arr)
        oc = e.run_program(src, tl=3000, setup=setup)
        if got:
            sobs = []
            for item in got[0]._elements:
                if item is e.NULL:
                    sobs.append("-")
                else:
                    el = item._elements
                    sobs.append(fmt(int(el[0]), [None if x is e.UNDEFINED else x for x in el[1:]]))
            sout = " ".join(sobs)
        else:
            sout = "script:" + oc
        if sout != out:
            out = out + " || script-level differs: " + sout
    return out + "\x00" + " ".join(exp)


def _tup(x):
    if isinstance(x, (list, tuple)):
        if x and isinstance(x[0], str) and x[0] in ("cat", "alt"):
            return (x[0], [_tup(y) for y in x[1]])
        if x and isinstance(x[0], str) and x[0] == "class":
            return ("class", x[1], [tuple(i) for i in x[2]])
        return tuple(_tup(y) for y in x)
    return x


def nontrivial(cid, payload, exp):
    # the reference sets a capture or finds a match somewhere other than index 0 of every subject
    return ":" in exp and (payload["ast"][0] not in ("char", "dot", "esc", "class"))


def _cases(maxsize, atoms, flags, skey, minsize=1, script=False, pred=None):
    out = []
    for sz, src, ast in G.patterns(maxsize, atoms, minsize):
        if pred is not None and not pred(ast):
            continue
        cid = "/%s/%s on %s" % (src, flags, skey)
        out.append((cid, {"p": src, "f": flags, "ast": ast, "s": skey, "script": script}))
    return out


def _space(name, fn, rule, bound):
    return Space(name, "mc.props.c09:run_pattern", fn, oracle="inline", nontrivial=nontrivial, rule=rule,
                 bound=bound, batch=20, watchdog=120, nondeterminism_is_violation=True)   # a match result is a function of (pattern, subject)


HARD_CORES = [
    r"(a*)*", r"(a*)+", r"(a|ab)(c|bcd)(d*)", r"(z)((a+)?(b+)?(c))*", r"(a)|b", r"(?:(a)|b)+", r"(?:(a)|(b))+\1\2",
    r"(a*?)*?b", r"(?=(a+))a*b\1", r"(?=(a+))", r"(.*?)a(?!(a+)b\2c)\2(.*)", r"(?<=(\w)+)1", r"(?<=\1(a))b",
    r"(?<!(a))b\1", r"\b\w+\b", r"^(?:a|\n)*$", r"(a)\1*", r"(?:a?){2}b", r"(?:a{0,2}){2}", r"(a|b)*?\1", r"(?:(a)\1)+",
    r"((a)|(b))+", r"(a+)+1", r"[^a]*a", r"(?:^|\s)a", r"a$|b", r"(?:a|())+", r"(\2)(a)", r"(?:(?=(a))a|b)*", r"(?:(?!(a))b|a)*",
    r"(?:(?<=(a))b|a)*", r"(?<=(?<=a)b)c", r"(?<!(?<=a)b)c", r"(?<=a(?=b))b", r"(?=(?<=(a))b)", r"(?:(a)|b)*\1", r"(?:(a)|(b)|c)*",
    r"(a{1,2}?)(a*)", r"(a{2,})\1", r"(?:(a){2}){2}", r"((a)?){3}", r"(?:(a)?b)*", r"(a?)*?b", r"([ab])\1", r"(.)\1|(.)\2?",
    r"^(a+?)\1*$", r"(?:a(?=(b))|a(?=(c)))+", r"(\s)?\w\1", r"(?:\b(a)|(\B)a)+", r"(a)(?!\1)b?", r"(?:(a)(?:(b)|c))+", r"((?:a|b)+?)(b*)$",
    r"(?=(a*))\1b", r"(?!(a)b)\1?a", r"(^a|b$)+", r"(?:($)|a)*", r"a*?$", r"(?:a*?)+?b", r"(a|ab|abc)*c", r"(?:(ab)|(a)|(b))*$",
]
WRAPS = ["%s", "(?:%s)*", "(?:%s)+?", "(%s)?", "(?:%s|b)", "(?=%s)", "(?!%s)a", "(?<=%s)", "(?:%s){2}", "^(?:%s)$", "(?:%s)*?c", "a(?:%s)"]


def _core_cases(skey, flags=""):
    from mc.oracle.regexref import parse
    out, seen = [], set()
    for core in HARD_CORES:
        for w in WRAPS:
            src = w % core
            if src in seen:
                continue
            seen.add(src)
            try:
                ast = parse(src)
            except ValueError:
                continue
            out.append(("/%s/%s on %s" % (src, flags, skey), {"p": src, "f": flags, "ast": ast, "s": skey, "script": False}))
    return out


# counted quantifiers with every small pair of bounds (including 0 repetitions), greedy and lazy, on several kinds of body
COUNTED_BODIES = ["a", "(a)", "(?:ab)", "[ab]", "(a|b)", "(a)\\1", "(?:a|(b))", "(?=a)", "a?", "(a*)", "\\w"]
COUNTED_FRAMES = ["%s", "%sb", "c%s", "^%s$", "(?:%s)+c", "(%s)*", "%s\\1"]


def _counted_cases():
    from mc.oracle.regexref import parse
    out, seen = [], set()
    bounds = ["{0}", "{0,0}", "{0,1}", "{1}", "{1,1}", "{0,}", "{1,}", "{2}", "{2,}", "{0,2}", "{1,2}", "{2,3}", "{3}", "{0,3}", "{10}", "{0,10}"]
    for body in COUNTED_BODIES:
        for b in bounds:
            for lazy in ("", "?"):
                for frame in COUNTED_FRAMES:
                    if "\\1" in frame and not any(body[i] == "(" and body[i + 1:i + 2] != "?" for i in range(len(body))):
                        continue        # \1 needs a capturing group (otherwise it is a legacy octal escape)
                    if "10" in b and frame in ("(?:%s)+c", "(%s)*"):
                        continue        # exponential by construction: that is C10's subject, not this one's
                    src = frame % (body + b + lazy)
                    if src in seen:
                        continue
                    seen.add(src)
                    try:
                        ast = parse(src)
                    except ValueError:
                        continue
                    out.append(("/%s/ on abc_5" % src, {"p": src, "f": "", "ast": ast, "s": "abc_5", "script": False}))
    return out


# ten and more groups: two-digit back-references before, between and after their groups, also inside lookbehind
MANYGROUP = [
    r"()()()()()()()()()(a)\10", r"\10()()()()()()()()()(a)", r"()()()()()()()()()(a)(?<=\10b)c", r"()()()()()()()()()(a)\1\10\11",
    r"()()()()()()()()()()(b)\11", r"(a)(b)?()()()()()()()(c)\10\2", r"()()()()()()()()(a)\10(b)", r"()()()()()()()()()(a)|\10b",
    r"(?:()()()()()()()()()(a))+\10", r"()()()()()()()()()(a)(?=\10)", r"()()()()()()()()()(a)(?<=\10)", r"(?<=\10()()()()()()()()()(a))b",
    r"()()()()()()()()()(a)\10{2}", r"()()()()()()()()()([ab])\10*c", r"()()()()()()()()()()()(c)\12",
]


def _manygroup_cases():
    from mc.oracle.regexref import parse
    out = []
    for src in MANYGROUP:
        for w in ("%s", "(?:%s)*", "^(?:%s)$", "(?:%s)?c"):
            try:
                ast = parse(w % src)
            except ValueError:
                continue
            out.append(("/%s/ on abc_5" % (w % src), {"p": w % src, "f": "", "ast": ast, "s": "abc_5", "script": False}))
    return out


# ---------------------------------------------------------------------------------------------
# class escapes and case-insensitive matching on non-ASCII characters (expected = V8 table)

UCHARS = ["a", "Z", "k", "K", "s", "S", "i", "I", "0", "9", "_", " ", "\t", "\n", "\r", "\x0b", "\x0c", "\x1c", "\x1f", "\x85", "\xa0",
          "\xb2", "\xb5", "\xdf", "\xe9", "\xc9", "\xff", "İ", "ı", "ſ", "Ÿ", "ǅ", "Σ", "σ", "ς",
          "Μ", "μ", "٣", "१", " ", "᠎", "ẞ", " ", " ", "​", " ", " ",
          " ", " ", "Ω", "ω", "K", "Å", "\xe5", "　", "﻿", "１", "Ａ", "ａ", "ﬀ"]
UCLASS_PATTERNS = ["\\d", "\\D", "\\w", "\\W", "\\s", "\\S", "[\\d]", "[\\D]", "[\\w]", "[\\W]", "[\\s]", "[\\S]", "[^\\d]", "[^\\w]",
                   "[^\\s]", "[^\\S]", "\\b.", ".\\b", "\\B.", ".", "[a-z]", "[A-Z]", "[^a-z]", "[\\u0100-\\u2200]", "[^\\u0100-\\u2200]",
                   "[\\w-\\xff]", "^.$"]


def _js_str(text):
    return '"' + "".join("\\u%04x" % ord(c) for c in text) + '"'


def uclass_cases():
    subjects = "[" + ",".join(_js_str(c) for c in UCHARS) + "]"
    out = []

    def prog(src, flags):
        return ("var S = %s, re = new RegExp(%s, %s), out = '';\nfor (var i = 0; i < S.length; i++) { re.lastIndex = 0; "
                "out += re.test(S[i]) ? '1' : '0'; }\nout" % (subjects, _js_str(src), _js_str(flags)))

    for pat in UCLASS_PATTERNS:
        for fl in ("", "i", "s", "im"):
            out.append(("U|pat=%s|flags=%s" % (pat, fl), {"src": prog(pat, fl), "tl": 50, "pat": pat, "flags": fl, "kind": "class"}))
    for c in UCHARS:
        if c in "\n\r  ":
            esc = "\\u%04x" % ord(c)
        else:
            esc = c
        for form, pat in (("char", esc), ("class", "[" + esc + "]"), ("negclass", "[^" + esc + "]"), ("backref", "(" + esc + ")\\1")):
            if form == "backref":
                # subject is the character followed by each other character
                src = ("var S = %s, re = new RegExp(%s, 'i'), out = '';\nfor (var i = 0; i < S.length; i++) "
                       "out += re.test(%s + S[i]) ? '1' : '0';\nout" % (subjects, _js_str(pat), _js_str(c)))
            else:
                src = prog(pat, "i")
            out.append(("U|%s=U+%04X|flags=i" % (form, ord(c)), {"src": src, "tl": 50, "pat": pat, "flags": "i", "kind": form}))
    return out


def _uclass_space():
    return Space("c09_unicode_classes", "mc.props.common:run_src", uclass_cases, oracle="table",
                 rule="%d class-escape / range patterns x flags {none,i,s,im}, and every one of %d characters as literal, class, negated "
                      "class and back-reference under flag i, each tested against all %d characters (ASCII, Latin-1, case-mapping "
                      "oddities such as U+0130 U+017F U+212A U+00DF, non-ASCII digits and spaces); expected = V8"
                      % (len(UCLASS_PATTERNS), len(UCHARS), len(UCHARS)),
                 bound="patterns x %d subjects" % len(UCHARS), batch=50)


def spaces(tier, seed, all_strata=False):
    core = [
        _space("c09_size3_full", lambda: _cases(3, G.ATOMS16, "", "ab1_5", script=True),
               "all pattern ASTs of size <= 3 over 16 atoms, 10 quantifiers, groups, 4 lookaround kinds, concat, "
               "alternation; every subject over {a,b,1} up to length 5 (364); Python-level RegExp.exec and "
               "script-level literal exec both compared with the reference matcher; non-trivial = the reference "
               "matches somewhere and the pattern is not a bare atom", "AST size <= 3, |s| <= 5"),
        _space("c09_size4", lambda: _cases(4, G.ATOMS12, "", "ab1_4", minsize=4),
               "all pattern ASTs of size 4 over 12 atoms; subjects over {a,b,1} up to length 4 (121)",
               "AST size 4, |s| <= 4"),
        _space("c09_cores_abc", lambda: _core_cases("abc_5"),
               "60 hand-picked hard cores (capture reset in loops, empty iterations, forward/backward/self references, lookaround "
               "inside loops, nested lookbehind, lazy/greedy interplay, alternation order) under 12 wrappers (loops, optional, "
               "lookaround, counted, anchored); every subject over {a,b,c} up to length 5", "cores x wrappers"),
        _space("c09_cores_mixed", lambda: _core_cases("abz1_4") + _core_cases("mix_3", "i") + _core_cases("mix_3", "m"),
               "the same patterns on subjects over {a,b,c,z,1} up to length 4, and with flags i / m over {a,A,1,_,space,newline}",
               "cores x wrappers"),
        _space("c09_flag_i", lambda: _cases(3, G.ATOMS12, "i", "aAb_4"), "size <= 3, flag i, subjects over {a,A,b}", "size <= 3"),
        _space("c09_flag_m", lambda: _cases(3, G.ATOMS12, "m", "abn_4"), "size <= 3, flag m, subjects over {a,b,\\n}", "size <= 3"),
        _space("c09_flag_s", lambda: _cases(3, G.ATOMS12, "s", "abn_4"), "size <= 3, flag s, subjects over {a,b,\\n}", "size <= 3"),
        _space("c09_counted", _counted_cases, "11 bodies x 16 bound pairs ({0}, {0,0}, {1}, ... {0,10}) x greedy / lazy x 7 frames; every subject "
               "over {a,b,c} up to length 5", "counted quantifiers"),
        _space("c09_manygroups", _manygroup_cases, "18 patterns with ten and more groups and two-digit back-references placed before, between and "
               "after their groups and inside lookaround, x 4 wrappers", "many groups"),
        _uclass_space(),
    ]
    strata = []
    for k in range(8):
        strata.append(_space("c09_size5_part%d" % k,
                             (lambda k=k: [c for i, c in enumerate(_cases(5, G.ATOMS12, "", "ab1_3", minsize=5)) if i % 8 == k]),
                             "pattern ASTs of size 5 (slice %d of 8); subjects over {a,b,1} up to length 3" % k,
                             "AST size 5, |s| <= 3"))
    for fl in ("im", "is", "ms"):
        strata.append(_space("c09_flag_" + fl, (lambda fl=fl: _cases(3, G.ATOMS12, fl, "mix_3")),
                             "size <= 3, flags %s, subjects over {a,A,1,_,space,\\n} up to length 3" % fl, "size <= 3"))
    strata.append(_space("c09_size4_flag_i", lambda: _cases(4, G.ATOMS12, "i", "aAb_4", minsize=4, pred=lambda a: not G.has_look(a)),
                         "size 4, flag i, no lookaround", "size 4"))
    if tier == "thorough" or all_strata:
        return core + strata
    quickable = [s for s in strata if not s.name.startswith("c09_size5")]
    return core + [quickable[seed % len(quickable)]]


def signature(sp, cid, payload, exp, obs):
    if sp.name == "c09_unicode_classes":
        k = payload.get("kind")
        e, o = exp.rpartition("|")[2], obs.rpartition("|")[2]
        if e.startswith("Rs") and o.startswith("Rs") and len(e) == len(o):
            bad = [UCHARS[i] for i in range(len(UCHARS)) if e[3 + i:4 + i] != o[3 + i:4 + i]]
            what = "differs on " + ",".join("U+%04X" % ord(c) for c in bad[:6])
        else:
            what = "outcome %s instead of %s" % (o[:20], e[:20])
        if k == "class":
            return "uclass|%s|%s" % (payload["pat"], payload["flags"]), "pattern %s flags '%s': %s" % (payload["pat"], payload["flags"], what)
        return "ucase|%s|%s" % (k, what), "case-insensitive %s form: %s (e.g. %s)" % (k, what, cid)
    ast = payload["ast"]
    kinds = set()

    def walk(n):
        if isinstance(n, (list, tuple)) and n and isinstance(n[0], str):
            t = n[0]
            if t == "look":
                kinds.add("lookahead" if n[1] else "lookbehind")
            elif t == "quant":
                kinds.add("counted quantifier" if (n[1], n[2]) not in ((0, None), (1, None), (0, 1)) else
                          ("lazy quantifier" if not n[3] else "quantifier"))
            elif t == "backref":
                kinds.add("backreference")
            elif t in ("group", "alt", "wb", "nwb", "bol", "eol"):
                kinds.add({"group": "capture group", "alt": "alternation", "wb": "\\b", "nwb": "\\B", "bol": "^", "eol": "$"}[t])
            elif t == "esc":
                kinds.add("\\" + n[1])
            elif t == "class":
                kinds.add("class")
            for c in n[1:]:
                walk(c)
        elif isinstance(n, (list, tuple)):
            for c in n:
                walk(c)
    walk(ast)
    if obs.startswith("ctor:"):
        how = "pattern rejected (" + obs[5:] + ")"
    elif "script-level differs" in obs:
        how = "script-level exec differs from RegExp.exec"
    elif "!" in obs:
        how = "match raises " + obs[obs.index("!") + 1:].split(" ")[0]
    elif obs == "|Ehost_resource":
        how = "host hang or memory blow-up"
    else:
        eo, oo = exp.split(" "), obs.split(" ")
        how = "wrong match/no-match" if any((a == "-") != (b == "-") for a, b in zip(eo, oo)) else (
            "wrong index" if any(a.split(":")[0] != b.split(":")[0] for a, b in zip(eo, oo)) else "wrong captures")
    fl = payload["f"] or "-"
    if "lookbehind" in kinds and ("capture group" in kinds or "backreference" in kinds):
        feat = "lookbehind containing a capture group or backreference (body is matched forwards, ECMAScript matches it backwards)"
    else:
        feat = "+".join(sorted(kinds)) or "atoms only"
    key = "%s|%s|%s" % (feat, fl, how)
    return key, "pattern using %s (flags %s): %s" % (feat, fl, how)
